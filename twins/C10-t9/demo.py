"""Demo for C10 refactoring t9: condition phase / extended condition rendering / template check.

Run: PYTHONPATH=/tmp/wt10-C10 /venv/bin/python demo.py
Prints every observed query or exception; output must be identical with and without the patch.
"""

import sigma.types
from sigma.backends.test import TextQueryTestBackend
from sigma.collection import SigmaCollection
from sigma.correlations import (
    CorrelationConditionAND,
    CorrelationConditionNOT,
    CorrelationConditionOR,
    SigmaCorrelationCondition,
    SigmaCorrelationConditionOperator,
    SigmaRuleReference,
)
from sigma.processing.pipeline import ProcessingItem, ProcessingPipeline
from sigma.processing.transformations import FieldMappingTransformation

print("imported from", sigma.types.__file__.replace("/tmp/wt10-C10/", ""))

BASE_RULES = """
title: Rule A
name: rule_a
id: 0e95725d-7320-415d-80f7-004da920fc11
logsource:
    product: windows
detection:
    selection:
        EventID: 4625
        User: admin
    condition: selection
fields:
    - User
    - Host
---
title: Rule B
id: 0e95725d-7320-415d-80f7-004da920fc12
logsource:
    product: windows
detection:
    sel1:
        EventID: 4624
    sel2:
        Image|endswith: '\\\\cmd.exe'
    condition:
        - sel1
        - sel2
---
title: Rule C
name: rule_c
logsource:
    product: linux
detection:
    selection:
        src_ip|cidr: 10.0.0.0/8
    condition: selection
"""


def show(label, func):
    try:
        result = func()
    except Exception as e:  # noqa: BLE001 - we want to see class and message
        print(f"--- {label}\n!! {type(e).__module__}.{type(e).__name__}: {e}")
    else:
        print(f"--- {label}")
        if isinstance(result, list):
            for i, q in enumerate(result):
                print(f"[{i}] {q}")
        else:
            print(repr(result))


def convert(correlation_yaml, backend=None, rules=BASE_RULES):
    backend = backend or TextQueryTestBackend()
    collection = SigmaCollection.from_yaml(rules + "---\n" + correlation_yaml)
    return backend.convert(collection)


def corr(
    ctype,
    condition,
    rules=("rule_a",),
    timespan="5m",
    group_by=("User",),
    extra="",
    generate=False,
):
    lines = ["title: Correlation", "name: corr", "correlation:", f"    type: {ctype}"]
    lines.append("    rules:")
    lines += [f"        - {r}" for r in rules]
    if generate:
        lines.append("    generate: true")
    lines.append(f"    timespan: {timespan}")
    if group_by:
        lines.append("    group-by:")
        lines += [f"        - {g}" for g in group_by]
    if isinstance(condition, str):
        lines.append(f"    condition: {condition}")
    elif condition is not None:
        lines.append("    condition:")
        lines += [f"        {k}: {v}" for k, v in condition.items()]
    return "\n".join(lines) + "\n" + extra


# 1. basic conditions: all operators, all numeric types, with and without field / percentile
for op in ("lt", "lte", "gt", "gte", "eq", "neq"):
    show(f"event_count {op}", lambda op=op: convert(corr("event_count", {op: 7})))
for ctype in ("value_count", "value_sum", "value_avg", "value_median"):
    show(
        ctype,
        lambda ctype=ctype: convert(
            corr(ctype, {"field": "Host", "gte": 3}, timespan="2h", group_by=("User", "EventID"))
        ),
    )
show(
    "value_percentile",
    lambda: convert(corr("value_percentile", {"field": "Host", "percentile": 95, "gt": 100})),
)
show(
    "value_percentile without percentile",
    lambda: convert(corr("value_percentile", {"field": "Host", "gt": 100})),
)
show(
    "value_count field list",
    lambda: convert(corr("value_count", {"field": "[Host, User]", "lt": 2}, group_by=())),
)

# 2. temporal with referenced_rules placeholder in condition and aggregation
three = ("rule_a", "0e95725d-7320-415d-80f7-004da920fc12", "rule_c")
show("temporal basic", lambda: convert(corr("temporal", {"gte": 2}, rules=three, timespan="90s")))
show(
    "temporal_ordered basic",
    lambda: convert(corr("temporal_ordered", {"eq": 3}, rules=three, timespan="1d", group_by=())),
)
show(
    "temporal without condition (default)",
    lambda: convert(corr("temporal", None, rules=three, timespan="10m")),
)
show(
    "temporal with aliases",
    lambda: convert(
        corr(
            "temporal",
            {"gte": 2},
            rules=("rule_a", "rule_c"),
            group_by=("who", "Host"),
            extra="    aliases:\n        who:\n            rule_a: User\n            rule_c: account\n",
        )
    ),
)

# 3. extended conditions
EXT = [
    "rule_a and rule_c",
    "rule_a or rule_c",
    "rule_a and not rule_c",
    "not rule_a",
    "not not rule_a",
    "not (rule_a or rule_c)",
    "not (rule_a and rule_c)",
    "rule_a and rule_c or 0e95725d-7320-415d-80f7-004da920fc12",
    "rule_a and (rule_c or 0e95725d-7320-415d-80f7-004da920fc12)",
    "(rule_a or rule_c) and not (0e95725d-7320-415d-80f7-004da920fc12 or rule_a)",
    "rule_a or (rule_c and (not rule_a or rule_c))",
    "not (not (rule_a and rule_c))",
]
for ctype in ("temporal", "temporal_ordered"):
    for cond in EXT:
        show(
            f"{ctype} extended: {cond}",
            lambda ctype=ctype, cond=cond: convert(corr(ctype, cond, rules=(), timespan="15m")),
        )


# 4. backend variants
class SecondsNoGroup(TextQueryTestBackend):
    timespan_seconds = True
    group_expression = None


class BracketGroup(TextQueryTestBackend):
    group_expression = "[{expr}]"
    not_token = "!"
    and_token = "&&"
    or_token = "||"
    token_separator = "_"
    timespan_mapping = None
    extended_correlation_condition_rule_reference_expression = {"test": "<{ruleid}>"}


class NoRuleRefExpr(TextQueryTestBackend):
    extended_correlation_condition_rule_reference_expression = None


class RuleRefOtherMethod(TextQueryTestBackend):
    extended_correlation_condition_rule_reference_expression = {"other": "{ruleid}"}


class NoNotToken(TextQueryTestBackend):
    not_token = None


class NoNotTokenNoRef(TextQueryTestBackend):
    not_token = None
    extended_correlation_condition_rule_reference_expression = None


class NoSeparator(TextQueryTestBackend):
    token_separator = None


class NoReferencedRules(TextQueryTestBackend):
    referenced_rules_expression = None


class NoReferencedRulesJoiner(TextQueryTestBackend):
    referenced_rules_expression_joiner = None


class RefRulesInExtended(TextQueryTestBackend):
    temporal_extended_condition_expression = {
        "test": "| where {extended_condition} over {referenced_rules}"
    }


class RefRulesInExtendedUndefined(RefRulesInExtended):
    referenced_rules_expression = None


class BrokenTemplateAfterRef(TextQueryTestBackend):
    referenced_rules_expression = None
    temporal_condition_expression = {"test": "| where {referenced_rules} {op} {count} }"}


class BrokenTemplate(TextQueryTestBackend):
    temporal_condition_expression = {"test": "| where {op} {count} {"}


class UnknownPlaceholder(TextQueryTestBackend):
    event_count_condition_expression = {"test": "| where {op} {count} {nonexistent}"}


class AttributePlaceholder(TextQueryTestBackend):
    event_count_aggregation_expression = {
        "test": "| agg {rule.title}/{rule.type.name} win={timespan}{groupby} refs={referenced_rules}"
    }
    event_count_condition_expression = {"test": "| where c {op} {count!r:>6} f={field}"}


class AttributePlaceholderNoRefs(AttributePlaceholder):
    referenced_rules_expression_joiner = None


class NoOpMapping(TextQueryTestBackend):
    correlation_condition_mapping = None


class PartialOpMapping(TextQueryTestBackend):
    correlation_condition_mapping = {SigmaCorrelationConditionOperator.GT: ">"}


class NoCondTemplates(TextQueryTestBackend):
    temporal_extended_condition_expression = None


VARIANTS = [
    SecondsNoGroup,
    BracketGroup,
    NoRuleRefExpr,
    RuleRefOtherMethod,
    NoNotToken,
    NoNotTokenNoRef,
    NoSeparator,
    NoReferencedRules,
    NoReferencedRulesJoiner,
    RefRulesInExtended,
    RefRulesInExtendedUndefined,
    BrokenTemplateAfterRef,
    BrokenTemplate,
    UnknownPlaceholder,
    AttributePlaceholder,
    AttributePlaceholderNoRefs,
    NoOpMapping,
    PartialOpMapping,
    NoCondTemplates,
]
VARIANT_RULES = [
    ("ext not-or", lambda: corr("temporal", "rule_a and not (rule_c or rule_a)", rules=())),
    ("ext not", lambda: corr("temporal", "not rule_c", rules=(), timespan="3w")),
    ("temporal", lambda: corr("temporal", {"gte": 2}, rules=("rule_a", "rule_c"))),
    (
        "temporal_ordered",
        lambda: corr("temporal_ordered", {"lte": 2}, rules=("rule_c", "rule_a"), group_by=()),
    ),
    ("event_count gt", lambda: corr("event_count", {"gt": 1}, timespan="1M")),
    ("event_count lt", lambda: corr("event_count", {"lt": 1}, timespan="1y")),
]
for variant in VARIANTS:
    for label, make in VARIANT_RULES:
        show(f"{variant.__name__}: {label}", lambda: convert(make(), backend=variant()))
    # error collection mode
    backend = variant(collect_errors=True)
    show(
        f"{variant.__name__}: collect_errors",
        lambda: convert(corr("temporal", "not rule_a or rule_c", rules=()), backend=backend),
    )
    print("    errors:", [(type(e).__name__, str(e)) for _, e in backend.errors])

# 5. field mapping pipeline + extended and basic conditions
pipeline = ProcessingPipeline(
    items=[
        ProcessingItem(
            transformation=FieldMappingTransformation(
                {"User": "user.name", "Host": "host.name", "EventID": "event.code"}
            )
        )
    ]
)
show(
    "pipeline value_count",
    lambda: convert(
        corr("value_count", {"field": "Host", "gte": 3}, rules=("rule_a", "rule_c")),
        backend=TextQueryTestBackend(pipeline),
    ),
)
show(
    "pipeline extended",
    lambda: convert(
        corr("temporal_ordered", "rule_a and not rule_c", rules=(), group_by=("User", "Host")),
        backend=BracketGroup(pipeline),
    ),
)

# 6. the methods called directly on hand-built parse trees (including degenerate ones)
backend = TextQueryTestBackend()
ref_a, ref_b = SigmaRuleReference("unresolved_a"), SigmaRuleReference("unresolved_b")
TREES = {
    "unresolved ref": ref_a,
    "and": CorrelationConditionAND([ref_a, ref_b]),
    "not(and)": CorrelationConditionNOT([CorrelationConditionAND([ref_a, ref_b])]),
    "not(not)": CorrelationConditionNOT([CorrelationConditionNOT([ref_b])]),
    "or(and, not)": CorrelationConditionOR(
        [CorrelationConditionAND([ref_a, ref_b]), CorrelationConditionNOT([ref_a])]
    ),
    "and(or, ref)": CorrelationConditionAND([CorrelationConditionOR([ref_a, ref_b]), ref_a]),
    "not with two args": CorrelationConditionNOT([ref_a, ref_b]),
    "not with no args": CorrelationConditionNOT([]),
    "not with tuple arg": CorrelationConditionNOT((ref_a,)),
    "not with args None": CorrelationConditionNOT(None),
    "string item": "rule_a",
    "none item": None,
}
for label, tree in TREES.items():
    for b in (backend, SecondsNoGroup(), BracketGroup(), NoNotTokenNoRef(), NoSeparator()):
        show(
            f"direct {type(b).__name__}: {label}",
            lambda: b.convert_extended_correlation_condition(tree, "test"),
        )
    show(f"direct group: {label}", lambda: backend.convert_extended_correlation_condition_group(tree, "test"))
    show(f"direct method 'nope': {label}", lambda: backend.convert_extended_correlation_condition(tree, "nope"))

for label, args in {
    "plain": ("{a} {b}", {"a": 1, "b": "x"}),
    "referenced_rules ok": ("{referenced_rules}!", {"referenced_rules": "r1,r2"}),
    "referenced_rules empty string": ("{referenced_rules}!", {"referenced_rules": ""}),
    "referenced_rules None": ("x {referenced_rules}", {"referenced_rules": None, "a": 1}),
    "referenced_rules missing": ("x {referenced_rules}", {"a": 1}),
    "referenced_rules unused None": ("x {a}", {"referenced_rules": None, "a": 1}),
    "referenced_rules attribute": ("x {referenced_rules.real}", {"referenced_rules": None}),
    "referenced_rules twice": ("{referenced_rules}{referenced_rules}", {"referenced_rules": None}),
    "escaped braces": ("{{referenced_rules}} {a}", {"referenced_rules": None, "a": 2}),
    "positional": ("{} {a}", {"a": 2}),
    "conversion + spec": ("{a!r:>5}|{b:{w}}", {"a": "q", "b": 3, "w": 4}),
    "broken after ref": ("{referenced_rules} }", {"referenced_rules": None}),
    "broken before ref": ("{ {referenced_rules}", {"referenced_rules": None}),
    "missing key": ("{a} {zzz}", {"a": 1}),
    "no placeholders": ("static", {}),
    "empty": ("", {"referenced_rules": None}),
}.items():
    show(f"_format_template {label}", lambda: backend._format_template(args[0], **args[1]))

for cond in (
    SigmaCorrelationCondition(SigmaCorrelationConditionOperator.GTE, 5),
    SigmaCorrelationCondition(SigmaCorrelationConditionOperator.NEQ, 0, "some field"),
    SigmaCorrelationCondition(SigmaCorrelationConditionOperator.LT, 10, ["f1", "f 2"]),
):
    for ctype in ("event_count", "temporal_ordered", "value_avg", "temporal_extended", "bogus"):
        for method in ("test", "nope"):
            show(
                f"condition_from_template {cond.op.name} {cond.fieldref!r} {ctype} {method}",
                lambda: backend.convert_correlation_condition_from_template(cond, [], ctype, method),
            )
print("done")
