"""
C14 demo: pipeline resolution order (priority, then specifier, ties stable), directories, files,
callables, targets, error cases, and composed pipelines driving a backend conversion.
Prints only deterministic values (no object ids, no absolute temp paths).
"""

import itertools
from dataclasses import dataclass
import os
import tempfile

import sigma.types
from sigma.backends.test import TextQueryTestBackend
from sigma.collection import SigmaCollection
from sigma.exceptions import SigmaPipelineNotAllowedForBackendError, SigmaPipelineNotFoundError
from sigma.processing.finalization import Finalizer
from sigma.processing.pipeline import (
    ProcessingItem,
    ProcessingPipeline,
    QueryPostprocessingItem,
)
from sigma.processing.postprocessing import EmbedQueryTransformation
from sigma.processing.resolver import ProcessingPipelineResolver
from sigma.processing.transformations import (
    AddFieldnamePrefixTransformation,
    AddFieldnameSuffixTransformation,
)

pass

RULES_YAML = (
    """
title: Test
status: test
logsource:
    category: test
detection:
    sel:
        fieldA: valueA
        fieldB|contains: valueB
    condition: sel
---
title: Test 2
status: test
logsource:
    category: other
detection:
    sel:
        fieldC: 1
    condition: not sel
"""
)


def rules():
    # transformations change rules in place: parse a fresh collection for every conversion
    return SigmaCollection.from_yaml(RULES_YAML)


@dataclass
class WrapFinalizer(Finalizer):
    tag: str = ""

    def apply(self, queries):
        return [self.tag + "<" + q + ">" for q in queries] + [self.tag + "#" + str(len(queries))]


def mk(name, priority, allowed=None, fin=False):
    return ProcessingPipeline(
        items=[
            ProcessingItem(AddFieldnamePrefixTransformation(name + "_"), identifier="pre_" + name),
            ProcessingItem(AddFieldnameSuffixTransformation("_" + name), identifier="suf_" + name),
        ],
        postprocessing_items=[
            QueryPostprocessingItem(
                EmbedQueryTransformation(prefix="[" + name + " ", suffix=" " + name + "]"),
                identifier="post_" + name,
            )
        ],
        finalizers=[WrapFinalizer(tag=name)] if fin else [],
        vars={"shared": name, "own_" + name: priority},
        priority=priority,
        name=name,
        allowed_backends=frozenset(allowed or ()),
    )


def describe(p):
    return {
        "items": [i.identifier for i in p.items],
        "post": [i.identifier for i in p.postprocessing_items],
        "finalizers": [type(f).__name__ + ":" + getattr(f, "tag", "") for f in p.finalizers],
        "vars": dict(sorted(p.vars.items())),
        "priority": p.priority,
        "name": p.name,
        "owned": all(i._pipeline is p for i in p.items)
        and all(i._pipeline is p for i in p.postprocessing_items)
        and all(f._pipeline is p for f in p.finalizers),
    }


def convert(p):
    backend = TextQueryTestBackend(p)
    out = backend.convert(rules())
    last = backend.last_processing_pipeline
    return out, sorted(last.applied_ids), list(last.applied)


def attempt(label, fn):
    try:
        res = fn()
        print(label, "->", res)
    except Exception as e:  # noqa
        ctx = []
        c = e.__context__
        while c is not None:
            ctx.append(type(c).__name__)
            c = c.__context__
        print(label, "-> EXC", type(e).__name__, str(e).replace(TMP, "<tmp>"), "ctx=", ctx)


TMP = tempfile.mkdtemp(prefix="c14demo_", dir="/tmp/wt8-C14/out")
TMP = os.path.realpath(TMP)

YAML = """
name: {name}
priority: {prio}
vars:
    shared: {name}
transformations:
    - id: file_{name}
      type: field_name_prefix
      prefix: "{name}."
postprocessing:
    - id: filepost_{name}
      type: embed
      prefix: "<{name} "
      suffix: " {name}>"
"""


def write(rel, name, prio, ext_ok=True):
    path = os.path.join(TMP, rel)
    os.makedirs(os.path.dirname(path), exist_ok=True)
    with open(path, "w") as f:
        f.write(YAML.format(name=name, prio=prio))
    return path


f_a = write("dir/a.yml", "fa", 15)
f_b = write("dir/sub/b.yml", "fb", 5)
f_c = write("dir/sub/deeper/c.yml", "fc", 15)
write("dir/ignored.yaml", "ignored", 1)  # not *.yml -> not globbed
f_single = write("single.yml", "fs", 10)
os.makedirs(os.path.join(TMP, "emptydir"))
os.makedirs(os.path.join(TMP, "registered_dir"))
write("registered_dir/x.yml", "fx", 0)
DIR = os.path.join(TMP, "dir")


def fresh_resolver():
    calls = []

    def lazy():
        calls.append("lazy")
        return mk("lazy", 10)

    r = ProcessingPipelineResolver(
        {
            "p10": mk("p10", 10),
            "p20": mk("p20", 20, fin=True),
            "p10b": mk("p10b", 10, fin=True),
            "neg": mk("neg", -3),
            "only_splunk": mk("only_splunk", 10, allowed=["splunk"]),
            "lazy": lazy,
            os.path.join(TMP, "registered_dir"): mk("regdir", 7),
        }
    )
    return r, calls


print("== 1. every permutation of named pipelines resolves to the same pipeline")
names = ["p10", "p20", "p10b", "neg", "lazy"]
seen = set()
for perm in itertools.permutations(names):
    r, calls = fresh_resolver()
    p = r.resolve(list(perm))
    seen.add(repr(describe(p)) + repr(convert(p)) + repr(calls))
print(len(seen), "distinct result(s)")
for s in sorted(seen):
    print(s)

print("== 2. subsets, duplicates, empty list")
for specs in ([], ["p20"], ["p20", "p10"], ["p10", "p10"], ["p10b", "p10", "p10b"], ["lazy", "lazy"]):
    r, calls = fresh_resolver()

    def run():
        p = r.resolve(list(specs))
        return describe(p), convert(p)

    attempt(f"{specs}", run)
    print("    lazy calls:", calls)

print("== 3. resolving the same resolver (same pipeline objects) repeatedly")
r, calls = fresh_resolver()
first = r.resolve(["p20", "p10"])
second = r.resolve(["p10", "p20", "neg"])
print(describe(first)["owned"], describe(second)["owned"], describe(second)["items"])
print([i._pipeline is second for i in first.items])
print(convert(second))
third = r.resolve(["neg", "lazy", "p20", "lazy"])
print(describe(third), calls)

print("== 4. files and directories (several spellings), mixed with names")
for specs in (
    [f_single],
    [DIR],
    [DIR + "/"],
    [DIR + "/*"],
    [DIR + "//**"],
    [f_single, DIR, "p10", "neg"],
    ["neg", "p10", DIR + "/", f_single],
    [os.path.join(TMP, "emptydir")],
    [os.path.join(TMP, "emptydir"), "p20"],
    [os.path.join(TMP, "registered_dir")],
    [os.path.join(TMP, "registered_dir") + "/"],
    [DIR, DIR],
):
    r, calls = fresh_resolver()

    def run():
        p = r.resolve(list(specs))
        d = describe(p)
        return d["items"], d["post"], d["vars"], d["owned"], convert(p)[0]

    attempt(f"{[s.replace(TMP, '<tmp>') for s in specs]}", run)

print("== 5. targets")
for specs, target in (
    (["p10", "only_splunk"], "splunk"),
    (["p10", "only_splunk"], None),
    (["only_splunk", "p10"], "elastic"),
    (["p20", "neg"], "elastic"),
):
    r, calls = fresh_resolver()
    attempt(f"{specs} target={target}", lambda: describe(r.resolve(list(specs), target))["items"])

print("== 6. error cases and unusual specifiers")
cwd = os.getcwd()
os.chdir(TMP)
try:
    for specs in (
        ["does_not_exist"],
        ["p10", os.path.join(TMP, "nofile.yml")],
        [""],
        ["/"],
        ["*"],
        ["/*/"],
        ["***"],
        [os.path.join(TMP, "dir", "ignored.yaml")],
        "p10",  # a string is iterated character-wise
        ("p20", "p10"),
        iter(["p20", "neg"]),
        [None],
        [5],
        None,
        7,
    ):
        r, calls = fresh_resolver()
        shown = (
            [s.replace(TMP, "<tmp>") if isinstance(s, str) else s for s in specs]
            if isinstance(specs, list)
            else type(specs).__name__
        )
        attempt(f"{shown}", lambda: describe(r.resolve(specs))["items"])
finally:
    os.chdir(cwd)

print("== 7. mixed priority types fail the same way")
r = ProcessingPipelineResolver({"a": mk("a", 1), "b": mk("b", None), "c": mk("c", "x")})
attempt("int/None", lambda: describe(r.resolve(["a", "b"]))["items"])
attempt("None/int", lambda: describe(r.resolve(["b", "a"]))["items"])
attempt("int/str", lambda: describe(r.resolve(["a", "c"]))["items"])
attempt("single None", lambda: describe(r.resolve(["b"]))["items"])

print("== 8. resolver subclass with overridden resolve_pipeline is still consulted")


class Tracing(ProcessingPipelineResolver):
    def resolve_pipeline(self, spec, target=None):
        print("   resolve_pipeline", spec.replace(TMP, "<tmp>"), target)
        return super().resolve_pipeline(spec, target)


r0, _ = fresh_resolver()
t = Tracing(r0.pipelines)
print(describe(t.resolve(["p20", DIR, "neg", f_single], "anything"))["items"])

print("== 9. '+' bracketing, identity and vars override vs. the resolver")
a, b, c = mk("a", 1), mk("b", 2, fin=True), mk("c", 3, fin=True)
left = describe((a + b) + c)
a, b, c = mk("a", 1), mk("b", 2, fin=True), mk("c", 3, fin=True)
right = describe(a + (b + c))
a, b, c = mk("a", 1), mk("b", 2, fin=True), mk("c", 3, fin=True)
ident = describe(ProcessingPipeline() + a + None + b + ProcessingPipeline() + c)
r = ProcessingPipelineResolver.from_pipeline_list(
    [mk("c", 3, fin=True), mk("a", 1), mk("b", 2, fin=True)]
)
res = describe(r.resolve(["c", "b", "a"]))
print(left == right == ident == res, left)
print(convert(r.resolve(["b", "c", "a"])))
backend = TextQueryTestBackend(r.resolve(["b", "a"]))
print(backend.convert(rules(), "test"), sorted(backend.last_processing_pipeline.vars.items()))

import shutil

shutil.rmtree(TMP)
print("done")
