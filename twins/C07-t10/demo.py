"""Strict vs collecting loading of correlation rules (and some collections) with malformed
rules / group-by / aliases / generate / timespan values. Prints everything that is observed."""

import copy

from sigma.collection import SigmaCollection
from sigma.correlations import SigmaCorrelationRule
from sigma.exceptions import SigmaError


class ShoutingStr(str):
    def __str__(self):
        return "SHOUT:" + str.upper(self)


BASE = {
    "title": "Correlation",
    "id": "0e95725d-7320-415d-80f7-004da920fc11",
    "correlation": {
        "type": "event_count",
        "rules": ["rule_a", "rule_b"],
        "group-by": ["user", "host"],
        "timespan": "5m",
        "aliases": {"user": {"rule_a": "User", "rule_b": "AccountName"}},
        "condition": {"gte": 10},
    },
}

MISSING = object()


def variant(**changes):
    doc = copy.deepcopy(BASE)
    for key, value in changes.items():
        key = key.replace("_", "-") if key == "group_by" else key
        if key == "TOP":
            for k, v in value.items():
                if v is MISSING:
                    doc.pop(k, None)
                else:
                    doc[k] = v
        elif value is MISSING:
            del doc["correlation"][key]
        else:
            doc["correlation"][key] = value
    return doc


CASES = [
    ("valid", variant()),
    ("rules plain string", variant(rules="rule_a")),
    ("rules empty string", variant(rules="")),
    ("rules empty list", variant(rules=[])),
    ("rules list with int", variant(rules=["rule_a", 5])),
    ("rules list with None", variant(rules=[None])),
    ("rules list with list", variant(rules=[["rule_a"]])),
    ("rules int", variant(rules=5)),
    ("rules zero", variant(rules=0)),
    ("rules false", variant(rules=False)),
    ("rules map", variant(rules={"rule_a": 1})),
    ("rules tuple", variant(rules=("rule_a",))),
    ("rules str subclass", variant(rules=ShoutingStr("rule_a"))),
    ("rules missing, event_count", variant(rules=MISSING)),
    ("rules null, event_count", variant(rules=None)),
    ("rules missing, temporal", variant(rules=MISSING, type="temporal", condition=MISSING)),
    (
        "rules missing, temporal, extended",
        variant(rules=MISSING, type="temporal", condition="rule_a and not rule_b"),
    ),
    (
        "rules empty list, temporal_ordered, extended",
        variant(rules=[], type="temporal_ordered", condition="rule_a or rule_b"),
    ),
    ("rules missing, bad type", variant(rules=MISSING, type="nonsense")),
    ("rules missing, type missing", variant(rules=MISSING, type=MISSING)),
    ("rules bad, type list", variant(rules=7, type=["temporal"])),
    ("group-by string", variant(group_by="user")),
    ("group-by str subclass", variant(group_by=ShoutingStr("user"))),
    ("group-by empty string", variant(group_by="")),
    ("group-by list of mixed", variant(group_by=["user", 5, None, 1.5, ["x"], {"a": 1}])),
    ("group-by list with str subclass", variant(group_by=[ShoutingStr("user")])),
    ("group-by empty list", variant(group_by=[])),
    ("group-by int", variant(group_by=5)),
    ("group-by zero", variant(group_by=0)),
    ("group-by false", variant(group_by=False)),
    ("group-by map", variant(group_by={"a": "b"})),
    ("group-by tuple", variant(group_by=("user",))),
    ("group-by null", variant(group_by=None)),
    ("group-by missing", variant(group_by=MISSING)),
    ("aliases missing", variant(aliases=MISSING)),
    ("aliases null", variant(aliases=None)),
    ("aliases empty map", variant(aliases={})),
    ("aliases list", variant(aliases=["user"])),
    ("aliases empty list", variant(aliases=[])),
    ("aliases string", variant(aliases="user")),
    ("aliases empty string", variant(aliases="")),
    ("aliases zero", variant(aliases=0)),
    ("aliases false", variant(aliases=False)),
    ("aliases inner string", variant(aliases={"user": "User"})),
    ("aliases inner list", variant(aliases={"user": ["rule_a", "User"]})),
    ("aliases inner null", variant(aliases={"user": None})),
    ("aliases second inner bad", variant(aliases={"user": {"rule_a": "User"}, "host": 3})),
    ("aliases odd keys and values", variant(aliases={1: {2: 3}, None: {}})),
    ("aliases unhashable ref", variant(aliases={"user": {("a", "b"): ["x"]}})),
    ("generate true", variant(generate=True)),
    ("generate string", variant(generate="yes")),
    ("generate zero", variant(generate=0)),
    ("timespan bad", variant(timespan="5x")),
    ("timespan int", variant(timespan=5)),
    ("timespan list", variant(timespan=["5m"])),
    ("timespan missing", variant(timespan=MISSING)),
    (
        "everything wrong",
        variant(
            type=3,
            rules={"a": 1},
            group_by=7,
            aliases=[1],
            generate="x",
            timespan="",
            condition=[1],
        ),
    ),
    (
        "everything wrong 2",
        variant(
            type="temporal",
            rules=[1, 2],
            group_by={"a": 1},
            aliases={"user": 1},
            generate=1,
            timespan=MISSING,
            condition={"gte": "x"},
        ),
    ),
    (
        "wrong header and wrong correlation",
        variant(TOP={"title": 5, "id": "nope", "level": "loud"}, rules=3, group_by=4, aliases=5),
    ),
    ("correlation is a list", {"title": "t", "correlation": ["event_count"]}),
    ("correlation is null", {"title": "t", "correlation": None}),
    ("correlation empty", {"title": "t", "correlation": {}}),
    ("no correlation key", {"title": "t"}),
    ("empty document", {}),
]


def describe_error(e):
    return f"{type(e).__module__}.{type(e).__name__}: {e} | args={e.args!r} source={e.source!r}"


def describe_rule(rule):
    return (
        f"type={rule.type!r} rules={rule.rules!r} generate={rule.generate!r} "
        f"timespan={rule.timespan!r} group_by={rule.group_by!r} aliases={rule.aliases!r} "
        f"condition={rule.condition!r}"
    )


def strict(loader, doc):
    try:
        result = loader(copy.deepcopy(doc), False)
    except SigmaError as e:
        return e, None
    except Exception as e:  # the property forbids this; shown, not hidden
        print(f"  NON-SIGMA EXCEPTION strict: {type(e).__name__}: {e}")
        return e, None
    return None, result


def collecting(loader, doc):
    try:
        return None, loader(copy.deepcopy(doc), True)
    except Exception as e:
        print(f"  EXCEPTION in collecting mode: {type(e).__name__}: {e}")
        return e, None


def run(label, loader, doc, describe):
    print(f"== {label}")
    raised, obj = strict(loader, doc)
    if raised is not None:
        print(f"  strict raises   : {describe_error(raised) if isinstance(raised, SigmaError) else repr(raised)}")
    else:
        print(f"  strict returns  : {describe(obj)}")
        print(f"  strict errors   : {obj.errors!r}")
    failed, collected = collecting(loader, doc)
    if collected is not None:
        print(f"  collected object: {describe(collected)}")
        print(f"  collected errors ({len(collected.errors)}):")
        for e in collected.errors:
            print(f"    - {describe_error(e)}")
        agree = (raised is not None) == bool(collected.errors)
        first = raised is None or (bool(collected.errors) and collected.errors[0] == raised)
        print(f"  non-empty iff strict raises: {agree}; first collected equals raised: {first}")


for label, doc in CASES:
    run(
        "correlation rule: " + label,
        lambda d, c: SigmaCorrelationRule.from_dict(d, collect_errors=c),
        doc,
        describe_rule,
    )

RULE_A = {
    "title": "A",
    "name": "rule_a",
    "logsource": {"category": "test"},
    "detection": {"sel": {"User": "x"}, "condition": "sel"},
}
RULE_B = dict(RULE_A, title="B", name="rule_b")

COLLECTIONS = [
    ("valid", [RULE_A, RULE_B, variant()]),
    ("bad rules and aliases", [RULE_A, RULE_B, variant(rules=[1], aliases=[2])]),
    ("bad group-by, scalar document", [RULE_A, 5, RULE_B, variant(group_by=5)]),
    (
        "two broken correlations",
        [RULE_A, RULE_B, variant(rules=MISSING), variant(aliases={"user": 1}, generate="x")],
    ),
]


def describe_collection(collection):
    return "; ".join(
        describe_rule(r) if isinstance(r, SigmaCorrelationRule) else f"rule {r.title!r}"
        for r in collection.rules
    )


for label, docs in COLLECTIONS:
    run(
        "collection: " + label,
        lambda d, c: SigmaCollection.from_dicts(d, collect_errors=c),
        docs,
        describe_collection,
    )

YAML_CASES = [
    (
        "yaml valid",
        """
title: Y
correlation:
    type: value_count
    rules: rule_a
    group-by: user
    timespan: 1h
    aliases:
        user:
            rule_a: User
    condition:
        field: host
        lt: 3
""",
    ),
    (
        "yaml wrong types",
        """
title: Y
correlation:
    type: value_count
    rules:
        - rule_a
        - 2024-01-01
    group-by:
        a: b
    timespan: 1h
    aliases:
        - user
    generate: 1
    condition:
        field: host
        lt: 3
""",
    ),
    (
        "yaml nulls",
        """
title: Y
correlation:
    type: temporal
    rules: ~
    group-by: ~
    timespan: ~
    aliases: ~
    generate: ~
""",
    ),
]

for label, text in YAML_CASES:
    run(
        "correlation rule: " + label,
        lambda d, c: SigmaCorrelationRule.from_yaml(d, collect_errors=c),
        text,
        describe_rule,
    )
