"""Demo for property C14 (pipeline composition order), refactoring t9 (resolver.py).

Run: PYTHONPATH=/tmp/wt10-C14 /venv/bin/python demo.py
Prints only deterministic text (no absolute paths, no object ids).
"""

import itertools
import os
import shutil
import sys
import tempfile

import sigma.types
from sigma.backends.test import TextQueryTestBackend
from sigma.collection import SigmaCollection
from sigma.pipelines.base import Pipeline
from sigma.processing.finalization import ConcatenateQueriesFinalizer
from sigma.processing.pipeline import (
    ProcessingItem,
    ProcessingPipeline,
    QueryPostprocessingItem,
)
from sigma.processing.postprocessing import EmbedQueryTransformation
from sigma.processing.resolver import ProcessingPipelineResolver
from sigma.processing.transformations import AddFieldnameSuffixTransformation

pass

RULES = """
title: Rule one
id: 11111111-1111-1111-1111-111111111111
status: test
logsource:
    category: process_creation
    product: windows
detection:
    sel:
        fieldA: valueA
        fieldC|contains: valueC
    condition: sel
---
title: Rule two
id: 22222222-2222-2222-2222-222222222222
status: test
logsource:
    category: network_connection
    product: linux
detection:
    a:
        x: 1
    b:
        y|startswith: foo
    condition: a and not b
"""


def mk(tag, priority=0, name=None, allowed=frozenset(), with_ids=True):
    """A fresh pipeline whose three stages each leave an order-sensitive trace of *tag*."""
    return ProcessingPipeline(
        items=[
            ProcessingItem(
                AddFieldnameSuffixTransformation("_" + tag),
                identifier=("pre_" + tag) if with_ids else None,
            )
        ],
        postprocessing_items=[
            QueryPostprocessingItem(
                EmbedQueryTransformation(prefix=tag + "(", suffix=")" + tag),
                identifier=("post_" + tag) if with_ids else None,
            )
        ],
        finalizers=[
            ConcatenateQueriesFinalizer(separator="", prefix=tag.upper() + "[", suffix="]" + tag.upper())
        ],
        vars={"common": tag, "var_" + tag: priority},
        priority=priority,
        name=name,
        allowed_backends=allowed,
    )


def describe(p):
    return {
        "items": [i.identifier or type(i.transformation).__name__ + ":" + i.transformation.suffix for i in p.items],
        "post": [i.identifier or i.transformation.prefix for i in p.postprocessing_items],
        "fin": [f.prefix for f in p.finalizers],
        "vars": dict(p.vars),
        "priority": p.priority,
        "name": p.name,
        "allowed": sorted(p.allowed_backends),
        "owned": all(i._pipeline is p for i in p.items + p.postprocessing_items)
        and all(f._pipeline is p for f in p.finalizers),
    }


def convert(p, output_format=None):
    backend = TextQueryTestBackend(p)
    out = backend.convert(SigmaCollection.from_yaml(RULES), output_format)
    last = backend.last_processing_pipeline
    return out, list(last.applied), sorted(last.applied_ids), {
        k: v for k, v in sorted(last.vars.items())
    }


def attempt(label, f):
    try:
        r = f()
        print(label, "->", r)
        return r
    except Exception as e:  # noqa
        chain = []
        c = e.__context__
        while c is not None:
            chain.append(type(c).__name__)
            c = c.__context__
        msg = str(e).replace(SCRATCH, "<scratch>")
        print(label, "-> EXC", type(e).__name__, repr(msg), "context:", chain)
        return None


SCRATCH = tempfile.mkdtemp(prefix="scratch_", dir=os.path.dirname(os.path.abspath(__file__)))

YAML_TMPL = """
name: {name}
priority: {prio}
vars:
    common: {tag}
    var_{tag}: {prio}
transformations:
    - id: pre_{tag}
      type: field_name_suffix
      suffix: _{tag}
postprocessing:
    - id: post_{tag}
      type: embed
      prefix: "{tag}("
      suffix: "){tag}"
finalizers:
    - type: concat
      separator: ""
      prefix: "{TAG}["
      suffix: "]{TAG}"
"""


def write_yaml(relpath, tag, prio):
    path = os.path.join(SCRATCH, relpath)
    os.makedirs(os.path.dirname(path), exist_ok=True)
    with open(path, "w") as f:
        f.write(YAML_TMPL.format(name="file_" + tag, prio=prio, tag=tag, TAG=tag.upper()))
    return path


try:
    print("=== 1. '+' : bracketings, identity, vars override")
    a, b, c, d = mk("a"), mk("b"), mk("c"), mk("d")
    left = ((a + b) + c) + d
    dl = describe(left)
    print("((a+b)+c)+d", dl)
    print("   convert", convert(left))
    a, b, c, d = mk("a"), mk("b"), mk("c"), mk("d")
    right = a + (b + (c + d))
    dr = describe(right)
    print("a+(b+(c+d))", dr)
    print("   convert", convert(right))
    a, b, c, d = mk("a"), mk("b"), mk("c"), mk("d")
    mid = (a + b) + (c + d)
    print("(a+b)+(c+d) equal to both:", mid == left == right, describe(mid) == dl == dr)
    print("operands of '+' no longer own their items after conversion re-added them:", describe(left)["owned"], describe(mid)["owned"])
    a = mk("a")
    print("a+None is a:", (a + None) is a, "| 0+a is a:", (0 + a) is a, "| sum([a]) is a:", sum([a]) is a)
    a = mk("a")
    print("empty+a", describe(ProcessingPipeline() + a))
    a = mk("a")
    print("a+empty", describe(a + ProcessingPipeline()))
    attempt("a+1", lambda: mk("a") + 1)
    attempt("1+a", lambda: 1 + mk("a"))

    print("=== 2. resolver: every permutation of the argument list gives the same pipeline")
    specs = [("p_low", "l", 5), ("p_tie2", "t2", 10), ("p_tie1", "t1", 10), ("p_high", "h", 20), ("p_neg", "n", -3)]
    seen = []
    for perm in itertools.permutations(specs):
        resolver = ProcessingPipelineResolver.from_pipeline_list(
            [mk(tag, prio, name) for name, tag, prio in specs]
        )
        resolved = resolver.resolve([name for name, _, _ in perm])
        desc = describe(resolved)
        if desc not in seen:
            seen.append(desc)
    print("permutations:", 120, "distinct results:", len(seen))
    print(seen[0])
    resolver = ProcessingPipelineResolver.from_pipeline_list([mk(tag, prio, name) for name, tag, prio in specs])
    r1 = resolver.resolve(["p_high", "p_tie1", "p_low", "p_tie2", "p_neg"])
    d1 = describe(r1)
    print("convert resolved", convert(r1))
    print("   with output format 'test'", convert(r1, "test"))
    r2 = resolver.resolve(["p_neg", "p_tie2", "p_tie1", "p_high", "p_low"])
    print("same objects resolved again:", describe(r2) == d1, "r1 still owns:", describe(r1)["owned"], "r2 owns:", describe(r2)["owned"])
    print("   convert again", convert(r2))
    attempt("same spec twice", lambda: describe(resolver.resolve(["p_low", "p_low"])))
    without_ids = ProcessingPipelineResolver.from_pipeline_list(
        [mk(tag, prio, name, with_ids=False) for name, tag, prio in specs]
    )
    print("no identifiers", convert(without_ids.resolve(["p_tie1", "p_tie2", "p_neg"])))

    print("=== 3. resolver: corner cases")
    empty = ProcessingPipelineResolver()
    print("no specs", describe(empty.resolve([])), "equals ProcessingPipeline():", empty.resolve([]) == ProcessingPipeline())
    single = mk("s", 7, "single")
    resolver = ProcessingPipelineResolver.from_pipeline_list([single, mk("u")])  # unnamed one is dropped
    print("registered:", sorted(resolver.pipelines), "| single spec returns the object itself:", resolver.resolve(["single"]) is single)
    print("   priority/name kept for single:", describe(resolver.resolve(["single"])))
    attempt("unnamed add_pipeline_class", lambda: resolver.add_pipeline_class(mk("u")))

    def factory():
        return mk("f", 3, "from_factory")

    def key_error_factory():
        raise KeyError("inner")

    def value_error_factory():
        raise ValueError("inner value error")

    @Pipeline
    def decorated():
        return mk("dec", 4, "decorated", allowed=frozenset({"text_query_test"}))

    resolver = ProcessingPipelineResolver(
        {
            "fac": factory,
            "kerr": key_error_factory,
            "verr": value_error_factory,
            "dec": decorated,
            "restricted": mk("r", 1, "restricted", allowed=frozenset({"splunk", "other"})),
            "open": mk("o", 2, "open"),
        }
    )
    print("callables", describe(resolver.resolve(["dec", "fac", "open"])))
    attempt("list_pipelines (lazy, hits the failing factory)", lambda: [(k, p.name) for k, p in resolver.list_pipelines()])
    attempt("list_pipelines", lambda: [(k, p.name) for k, p in ProcessingPipelineResolver({"fac": factory, "dec": decorated, "o": mk("o", 2, "open")}).list_pipelines()])
    attempt("callable raising KeyError", lambda: resolver.resolve_pipeline("kerr"))
    attempt("callable raising ValueError", lambda: resolver.resolve_pipeline("verr"))
    attempt("target ok (listed)", lambda: resolver.resolve_pipeline("restricted", "splunk").name)
    attempt("target ok (no restriction)", lambda: resolver.resolve_pipeline("open", "whatever").name)
    attempt("target None", lambda: resolver.resolve_pipeline("restricted").name)
    attempt("target not allowed", lambda: resolver.resolve_pipeline("restricted", "text_query_test"))
    attempt("target not allowed, decorated", lambda: resolver.resolve_pipeline("dec", "splunk"))
    attempt("target empty string", lambda: resolver.resolve_pipeline("restricted", ""))
    attempt("resolve with target", lambda: describe(resolver.resolve(["open", "dec"], "text_query_test")))
    attempt("resolve with wrong target", lambda: resolver.resolve(["open", "restricted", "dec"], "text_query_test"))
    attempt("unknown spec", lambda: resolver.resolve_pipeline("does/not/exist.yml"))
    attempt("unknown spec in resolve", lambda: resolver.resolve(["open", "nope"]))
    attempt("unhashable spec", lambda: resolver.resolve_pipeline(["x"]))
    attempt("non-string in resolve", lambda: resolver.resolve([42]))
    attempt("string instead of list", lambda: resolver.resolve("ab"))

    print("=== 4. resolver: files and directories")
    f1 = write_yaml("dir/one.yml", "one", 30)
    write_yaml("dir/sub/two.yml", "two", 15)
    write_yaml("dir/sub/three.yml", "three", 15)
    f4 = write_yaml("lonely.yml", "four", 0)
    with open(os.path.join(SCRATCH, "dir", "ignored.yaml"), "w") as f:
        f.write("not: [a, pipeline")
    d = os.path.join(SCRATCH, "dir")
    resolver = ProcessingPipelineResolver({"open": mk("o", 16, "open"), d: mk("shadow", 1, "shadow")})
    print("file spec", describe(resolver.resolve_pipeline(f4)))
    for label, spec_list in [
        ("dir/", [d + "/"]),
        ("dir/*", [d + "/*"]),
        ("dir shadowed by registered name", [d]),
        ("dir/ + file + name", [d + "/", f4, "open"]),
        ("name + file + dir/ (other order)", ["open", f4, d + "/"]),
        ("file twice via dir and path", [f1, d + "//"]),
    ]:
        attempt(label, lambda: describe(resolver.resolve(spec_list)))
    mixed = resolver.resolve([d + "/", f4, "open"])
    print("convert mixed", convert(mixed))
    for spec in ["", "/", "*", "/*/"]:
        attempt("degenerate spec %r" % spec, lambda: resolver.resolve([spec]))
    attempt("directory as file", lambda: resolver.resolve_pipeline(os.path.join(d, "sub")))
    attempt("broken yaml file", lambda: resolver.resolve_pipeline(os.path.join(d, "ignored.yaml")))

    print("=== 5. backend order: backend pipeline, user pipeline, output format pipeline")
    resolver = ProcessingPipelineResolver.from_pipeline_list([mk("x", 2, "x"), mk("y", 1, "y")])
    user = resolver.resolve(["x", "y"])
    backend = TextQueryTestBackend(user, some_option="v")
    for fmt in (None, "test", "str"):
        out = backend.convert(SigmaCollection.from_yaml(RULES), fmt)
        last = backend.last_processing_pipeline
        print(fmt, "->", out)
        print("   items:", [type(i.transformation).__name__ for i in last.items], "applied:", last.applied, sorted(last.applied_ids))
        print("   vars:", sorted(last.vars.items()))
    attempt("unknown format", lambda: backend.convert(SigmaCollection.from_yaml(RULES), "nonexistent"))
finally:
    shutil.rmtree(SCRATCH, ignore_errors=True)

print("done")
sys.exit(0)
