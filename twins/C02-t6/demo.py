"""Demo for C02: condition text -> boolean function. Prints trees, truth tables, parent links, errors."""

import itertools
import sys

from sigma.conditions import (
    ConditionAND,
    ConditionFieldEqualsValueExpression,
    ConditionIdentifier,
    ConditionNOT,
    ConditionOR,
    ConditionSelector,
    ConditionValueExpression,
    SigmaCondition,
)
from sigma.exceptions import SigmaConditionError, SigmaRuleLocation
from sigma.rule.detection import SigmaDetections

NAMES = [
    "sel",
    "sel_a",
    "sel_b",
    "notsel",
    "andy",
    "oracle",
    "all_x",
    "any1",
    "of_x",
    "them_x",
    "a1b",
    "filter-1",
    "_hidden",
    "_filt_ab12_x",
]


def make_detections(names, condition, source=None):
    d = {n: {"f_" + n: "v"} for n in names}
    d["condition"] = condition
    return SigmaDetections.from_dict(d, source)


def show(node):
    """Structural rendering of a condition tree (postprocessed or not)."""
    if node is None:
        return "None"
    if isinstance(node, ConditionFieldEqualsValueExpression):
        return node.field[2:]
    if isinstance(node, ConditionValueExpression):
        return "kw(%s)" % node.value
    if isinstance(node, ConditionIdentifier):
        return "id(%s)" % node.identifier
    if isinstance(node, ConditionSelector):
        return "selector(%s,%s)" % (node.cond_class.__name__, node.pattern)
    return "%s(%s)" % (type(node).__name__[9:], ", ".join(show(a) for a in node.args))


def evaluate(node, env):
    if isinstance(node, ConditionFieldEqualsValueExpression):
        return env[node.field[2:]]
    if isinstance(node, ConditionAND):
        return all(evaluate(a, env) for a in node.args)
    if isinstance(node, ConditionOR):
        return any(evaluate(a, env) for a in node.args)
    if isinstance(node, ConditionNOT):
        return not evaluate(node.args[0], env)
    raise TypeError(type(node))


def leaves(node, acc):
    if isinstance(node, ConditionFieldEqualsValueExpression):
        if node.field[2:] not in acc:
            acc.append(node.field[2:])
    elif node is not None and hasattr(node, "args"):
        for a in node.args:
            leaves(a, acc)
    return acc


def parents(node, acc):
    """Parent chain classes and source of every node, in preorder."""
    acc.append(
        (
            type(node).__name__,
            [c.__name__ for c in node.parent_chain_classes()],
            [c.__name__ for c in node.parent_chain_condition_classes()],
            str(getattr(node, "source", "<unset>")),
        )
    )
    for a in getattr(node, "args", []):
        if a is not None and not isinstance(a, str):
            parents(a, acc)
    return acc


def truth_table(tree):
    used = leaves(tree, [])
    bits = []
    for values in itertools.product([False, True], repeat=len(used)):
        bits.append("1" if evaluate(tree, dict(zip(used, values))) else "0")
    return ",".join(used) + " -> " + "".join(bits)


CONDITIONS = [
    "sel",
    "not sel",
    "not not sel",
    "sel and sel_a or sel_b",
    "sel or sel_a and sel_b",
    "sel or sel_a or sel_b",
    "sel and sel_a and sel_b and andy",
    "not sel and sel_a",
    "not (sel and sel_a)",
    "(sel or sel_a) and not (sel_b or andy)",
    "sel and not sel_a or not sel_b and andy",
    "notsel and andy or oracle",
    "not notsel",
    "all_x or any1 and of_x and them_x",
    "a1b and filter-1",
    "((sel))",
    "(sel and (sel_a or (sel_b and not andy)))",
    "1 of sel*",
    "any of sel*",
    "all of sel*",
    "all of them",
    "1 of them",
    "1 of *sel",
    "1 of *el*",
    "all of s*_*",
    "1 of _*",
    "all of _hid*",
    "1 of _filt_*",
    "all of _filt_ab12_*",
    "1 of sel_a",
    "all of sel_a and not 1 of sel_b",
    "not 1 of sel_* or all of a*",
    "sel and 1 of a*",
    "1 of all_* or all of any*",
    "sel and sel",
    "sel or not sel",
    "SEL",
    "sel AND sel_a",
    "1 of nothing*",
    "all of",
    "sel and",
    "and sel",
    "sel sel_a",
    "(sel",
    "sel | count() > 3",
    "",
    "not",
    "2 of sel*",
    "1 of 1 of sel*",
    "undefined_name",
    "sel and undefined_name",
    "1of sel*",
    "them",
    "of",
]


def run(condition, names=NAMES, source=None, mutate=None):
    print("== %r" % (condition,))
    for postprocess in (False, True):
        try:
            detections = make_detections(names, condition, source)
            if mutate is not None:
                mutate(detections)
            cond = detections.parsed_condition[0]
            tree = cond.parse(postprocess)
            print("  parse(%s): %s" % (postprocess, show(tree)))
            if postprocess and tree is not None:
                if "None" in show(tree):
                    print("  table: n/a (None operand left in tree)")
                else:
                    print("  table: %s" % truth_table(tree))
                for line in parents(tree, []):
                    print("  chain: %s" % (line,))
                again = cond.parsed
                print("  parsed == parse(True): %s; same object: %s" % (again == tree, again is tree))
        except SigmaConditionError as e:
            print(
                "  parse(%s) raised %s: %s | source=%s | context=%s"
                % (postprocess, type(e).__name__, e, e.source, type(e.__context__).__name__)
            )
        except Exception as e:  # anything else is shown too
            print("  parse(%s) raised %s: %s" % (postprocess, type(e).__name__, e))


def main():
    for c in CONDITIONS:
        run(c)

    print("#### with source location")
    loc = SigmaRuleLocation("demo_rule.yml")
    for c in ["sel and not sel_a", "1 of sel*", "missing", "1 of zzz*", "sel |"]:
        run(c, source=loc)

    print("#### emptied detections (as after dropping all detection items)")

    def empty(*which):
        def mutate(detections):
            for name in which:
                detections.detections[name].detection_items = []

        return mutate

    run("sel and sel_a", mutate=empty("sel"))
    run("sel and sel_a", mutate=empty("sel", "sel_a"))
    run("sel or sel_a or sel_b", mutate=empty("sel_a"))
    run("sel or sel_a or sel_b", mutate=empty("sel", "sel_b"))
    run("not sel", mutate=empty("sel"))
    run("not sel and sel_a", mutate=empty("sel"))
    run("not (sel and sel_a) or sel_b", mutate=empty("sel", "sel_a"))
    run("all of sel*", mutate=empty("sel", "sel_a"))
    run("1 of sel* and andy", mutate=empty("sel", "sel_a", "sel_b"))
    run("sel", mutate=empty("sel"))

    print("#### keyword / multi-value / list detections")
    d = SigmaDetections.from_dict(
        {
            "kw": ["a", "b"],
            "multi": {"f_x": ["1", "2"], "f_y": None},
            "lst": [{"f_p": "1"}, {"f_q": "2"}],
            "condition": "kw and not multi or lst",
        }
    )
    tree = d.parsed_condition[0].parsed
    print("  %r" % (tree,))
    for line in parents(tree, []):
        print("  chain: %s" % (line,))

    print("#### manual trees (direct postprocess of hand-made operators)")
    d = make_detections(["a", "b"], "a")
    for tree in [
        ConditionAND([ConditionIdentifier(["a"]), None]),
        ConditionOR([None, None]),
        ConditionNOT([None]),
        ConditionNOT([ConditionOR([None, ConditionIdentifier(["b"])])]),
        ConditionAND([ConditionIdentifier(["a"]), ConditionIdentifier(["nope"])]),
    ]:
        try:
            result = tree.postprocess(d, None, SigmaRuleLocation("manual.yml"))
            print("  %s -> %s | args now %s | same object: %s" % (type(tree).__name__, show(result), [show(a) for a in tree.args], result is tree))
            if result is not None:
                for line in parents(result, []):
                    print("  chain: %s" % (line,))
        except SigmaConditionError as e:
            print("  %s raised: %s | source=%s | args still %s" % (type(tree).__name__, e, e.source, [show(a) for a in tree.args]))

    print("#### source handling of the default postprocess")
    v = ConditionValueExpression("x")
    print("  has source before:", hasattr(v, "source"))
    v.postprocess(d, None, None)
    print("  source after None:", v.source)
    v.postprocess(d, None, SigmaRuleLocation("one.yml"))
    print("  source after one.yml:", v.source)
    v.postprocess(d, None, None)
    print("  source kept:", v.source)
    v.postprocess(d, None, SigmaRuleLocation("two.yml"))
    print("  source replaced:", v.source)

    print("#### deep nesting")
    for depth in (5, 12, 3000):
        c = "(" * depth + "sel" + ")" * depth
        try:
            t = make_detections(["sel"], c).parsed_condition[0].parsed
            print("  depth %d: %s" % (depth, show(t)))
        except SigmaConditionError as e:
            print("  depth %d raised: %s" % (depth, e))
    c = " and ".join(["not " * 3 + "sel"] * 30)
    t = make_detections(["sel"], c).parsed_condition[0].parsed
    print("  wide: %s args, table %s" % (len(t.args), truth_table(t)))

    print("#### parse cache gives independent copies")
    d1 = make_detections(NAMES, "sel and 1 of sel_*")
    d2 = make_detections(["sel", "sel_zzz"], "sel and 1 of sel_*")
    t1 = d1.parsed_condition[0].parsed
    t2 = d2.parsed_condition[0].parsed
    t1b = d1.parsed_condition[0].parsed
    print("  ", show(t1), "|", show(t2), "|", show(t1b), "|", t1 == t1b, t1 is t1b)
    r1 = d1.parsed_condition[0].parse(False)
    r2 = d1.parsed_condition[0].parse(False)
    print("  raw equal:", r1 == r2, "raw identical:", r1 is r2, "args identical:", r1.args[0] is r2.args[0])
    return 0


if __name__ == "__main__":
    sys.exit(main())
