"""Demo for C20/t7: SigmaValidator construction and configuration parsing.

Prints the order of the instantiated validators, the parsed exclusions/configuration, the error
messages of broken definitions and the order of the issues reported for a small rule set.
"""
import random
import traceback
from uuid import UUID

from sigma.collection import SigmaCollection
from sigma.validation import SigmaValidator
from sigma.validators.base import SigmaRuleValidator
from sigma.validators.core import validators


def show(title, value):
    print(f"--- {title}")
    print(value)


def names(validator):
    return [v.__class__.__module__ + "." + v.__class__.__name__ for v in validator.validators]


def exclusions(validator):
    return sorted(
        (str(k), sorted(c.__name__ for c in v)) for k, v in validator.exclusions.items()
    )


def attempt(title, func):
    try:
        result = func()
        show(title, result)
    except Exception as e:
        ctx = e.__context__
        show(
            title,
            f"{type(e).__name__}: {e} | context={type(ctx).__name__ if ctx else None}"
            f" | cause={type(e.__cause__).__name__ if e.__cause__ else None}",
        )


# 1. direct construction: shuffled lists, duplicates, sets, generators
classes = list(validators.values())
reference = None
for seed in range(5):
    rnd = random.Random(seed)
    shuffled = classes[:]
    rnd.shuffle(shuffled)
    for arg in (shuffled, shuffled + shuffled[:7], set(shuffled), iter(shuffled), tuple(shuffled)):
        order = names(SigmaValidator(arg))
        if reference is None:
            reference = order
        assert order == reference
show("validator order (all core validators)", "\n".join(reference))
show("empty", names(SigmaValidator([])))


# same class name in another module, and a config passed to a custom validator
class FilenameLengthValidator(SigmaRuleValidator):
    def __init__(self, marker="default"):
        self.marker = marker

    def validate(self, rule):
        return []


attempt(
    "same name in two modules, shared config -> TypeError of one of them",
    lambda: names(
        SigmaValidator(
            [FilenameLengthValidator, validators["filename_length"]],
            config={"filename_length": {"max_size": 7}},
        )
    ),
)
v = SigmaValidator(
    [validators["filename_length"], FilenameLengthValidator, validators["all_of_them_condition"]]
)
show("same name in two modules", names(v))
v = SigmaValidator(
    {validators["filename_length"], validators["tlptag"]},
    {None: {validators["tlptag"]}},
    {"filename_length": {"max_size": 7}, "unused": {"x": 1}},
)
show("config applied", [(type(x).__name__, getattr(x, "max_size", None)) for x in v.validators])
show("exclusions", exclusions(v))
show("exclusions default", sorted(v.exclusions[UUID(int=5)]))

# 2. from_dict
definitions = {
    "all": {"validators": ["all"]},
    "all minus": {"validators": ["all", "-tlptag", "-attacktag", "-cartag"]},
    "explicit": {"validators": ["number_as_string", "dangling_detection", "number_as_string"]},
    "add, remove, add": {"validators": ["tlptag", "-tlptag", "duplicate_title", "tlptag"]},
    "names then all": {"validators": ["nonexisting", "all"]},
    "no validators key": {},
    "remove from empty": {"validators": ["-tlptag"]},
    "remove nonexisting": {"validators": ["duplicate_title", "cvetag", "all_of_them_condition", "-nope"]},
    "remove twice": {"validators": ["all", "-tlptag", "-tlptag"]},
    "dash only": {"validators": ["-"]},
    "unknown": {"validators": ["tlptag", "what_is_this"]},
    "unknown removed again": {"validators": ["what_is_this", "-what_is_this", "tlptag"]},
    "non-string entry": {"validators": ["tlptag", 5]},
    "validators None": {"validators": None},
    "exclusions": {
        "validators": ["all"],
        "exclusions": {
            "c702c6c7-1393-40e5-93f8-91469f3445ad": "dangling_detection",
            "C702C6C7-1393-40E5-93F8-91469F3445AD": ["tlptag", "dangling_detection"],
            "{c702c6c7139340e593f891469f3445ad}": [],
            "bf39335e-e666-4eaf-9416-47f1955b5fb3": ["attacktag", "number_as_string"],
            None: "identifier_existence",
        },
    },
    "exclusions unknown": {
        "validators": ["all"],
        "exclusions": {"c702c6c7-1393-40e5-93f8-91469f3445ad": ["tlptag", "bogus", "more_bogus"]},
    },
    "exclusions unknown single": {"exclusions": {None: "bogus"}},
    "exclusions bad uuid": {"exclusions": {"not-a-uuid": ["tlptag"]}},
    "exclusions bad uuid and unknown": {"exclusions": {"not-a-uuid": ["bogus"]}},
    "exclusions int id": {"exclusions": {5: ["tlptag"]}},
    "exclusions unhashable name": {"exclusions": {None: [["tlptag"]]}},
    "exclusions tuple": {"exclusions": {None: ("tlptag", "cvetag")}},
    "exclusions not a dict": {"exclusions": ["tlptag"]},
    "unknown validator wins over exclusions": {
        "validators": ["bogus"],
        "exclusions": {"not-a-uuid": "tlptag"},
        "config": {"x": 1},
    },
    "exclusion error wins over config": {
        "exclusions": {None: "bogus"},
        "config": {"x": 1},
    },
    "config": {
        "validators": ["filename_length", "tlptag"],
        "config": {"filename_length": {"max_size": 12}, "tlptag": {}},
    },
    "config unknown": {"config": {"tlptag": {}, "bogus": {}, "bogus2": 1}},
    "config no dict": {"config": {"tlptag": {}, "filename_length": 12, "bogus": {}}},
    "config None": {"config": None},
    "config for unselected": {"validators": ["tlptag"], "config": {"filename_length": {"max_size": 1}}},
    "config bad parameter": {"validators": ["filename_length"], "config": {"filename_length": {"bad": 1}}},
}


def describe(definition):
    v = SigmaValidator.from_dict(definition, validators)
    return (
        names(v),
        exclusions(v),
        [(type(x).__name__, x.max_size) for x in v.validators if hasattr(x, "max_size")],
    )


for title, definition in definitions.items():
    attempt("from_dict " + title, lambda: describe(definition))
attempt("from_dict None", lambda: describe(None))

# 3. from_yaml
attempt(
    "from_yaml",
    lambda: (lambda v: (names(v), exclusions(v)))(
        SigmaValidator.from_yaml(
            """
validators:
    - all
    - -tlptag
    - -filename_length
exclusions:
    c702c6c7-1393-40e5-93f8-91469f3445ad: dangling_detection
    bf39335e-e666-4eaf-9416-47f1955b5fb3:
        - attacktag
        - number_as_string
config:
    attacktag: {}
""",
            validators,
        )
    ),
)
attempt("from_yaml empty", lambda: SigmaValidator.from_yaml("", validators))
attempt("from_yaml broken", lambda: SigmaValidator.from_yaml("validators: [all\nfoo: bar", validators))
attempt(
    "from_yaml remove nonexisting",
    lambda: SigmaValidator.from_yaml("validators: [duplicate_title, cvetag, attacktag, -tlptag]", validators),
)

# 4. issues of a rule set come in the same order
rules = SigmaCollection.from_yaml(
    """
title: Test
id: c702c6c7-1393-40e5-93f8-91469f3445ad
status: test
logsource:
    category: process_creation
tags:
    - attack.t1234
    - Attack.bogus
    - tlp.purple
    - attack.t1234
detection:
    sel:
        field|contains: "*val**ue*"
        num: "123"
    unused:
        other|re|contains: x
    condition: all of them and missing
---
title: Test
status: test
logsource:
    product: windows
    service: sysmon
references:
    - https://example.com
    - https://example.com
detection:
    sel:
        EventID: 1
        field: "a\\\\*b"
    condition: 1 of them
---
title: Third
id: c702c6c7-1393-40e5-93f8-91469f3445ad
logsource:
    category: test
detection:
    sel:
        field: "control\tchar"
    condition: sel
""",
    collect_errors=True,
)
show("rule errors", [[str(e) for e in r.errors] for r in rules])
for title, definition in {
    # attacktag and d3_fendtag need network access to load their data
    "all offline": {"validators": ["all", "-attacktag", "-d3_fendtag"]},
    "all offline with exclusions": {
        "validators": ["all", "-duplicate_title", "-attacktag", "-d3_fendtag"],
        "exclusions": {
            "C702C6C7-1393-40e5-93f8-91469f3445ad": ["tag_format", "double_wildcard"],
            "c702c6c7-1393-40e5-93f8-91469f3445ad": "tlptag",
            None: ["identifier_existence"],
        },
    },
}.items():
    v = SigmaValidator.from_dict(definition, validators)
    issues = v.validate_rules(rules)
    show("issues " + title, "\n".join(str(i) for i in issues))
