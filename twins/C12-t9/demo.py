"""Exercises set_value and case transformations (plain construction and through pipelines)."""
import math
from sigma.backends.test import TextQueryTestBackend
from sigma.collection import SigmaCollection
from sigma.exceptions import SigmaError
from sigma.processing.pipeline import ProcessingPipeline
from sigma.processing.transformations import SetValueTransformation, CaseTransformation
from sigma.types import SigmaString, SigmaCasedString, SigmaNumber, SigmaBool, SigmaNull

import sigma.types

print("imported from", sigma.types.__file__.replace("/tmp/wt10-C12", "<wt>"))


class MyStr(str):
    pass


class MyInt(int):
    pass


class Weird:
    def __repr__(self):
        return "Weird()"


def show(label, f):
    try:
        r = f()
        print(label, "->", type(r).__name__, repr(r))
    except Exception as e:  # report class, message and chained context
        ctx = e.__context__
        print(
            label,
            "-> EXC",
            type(e).__name__,
            str(e),
            "| context:",
            type(ctx).__name__ if ctx is not None else None,
            str(ctx) if ctx is not None else None,
        )


print("== SetValueTransformation construction ==")
values = [
    "abc", "", "a*b\\*c?", "123", "1.5", "%ph%", MyStr("sub"), True, False, 0, 1, -7, MyInt(5),
    1.5, -0.0, float("inf"), 10**30, None, [1, 2], {"a": 1}, (1,), b"bytes", Weird(), 1 + 2j,
]
force_types = [None, "str", "num", "bool", "", "STR", 0, ["str"], {"num": 1}, MyStr("num")]
for ft in force_types:
    for v in values:
        def build(v=v, ft=ft):
            t = SetValueTransformation(v, ft)
            sv = t.sigma_value
            return (type(sv).__name__, str(sv) if not isinstance(sv, SigmaNull) else None,
                    getattr(sv, "number", None), t.value_types, t.force_type)
        show(f"set_value value={v!r} force_type={ft!r}", build)

show("set_value nan", lambda: math.isnan(SetValueTransformation(float("nan")).sigma_value.number))
show("set_value from_dict", lambda: SetValueTransformation.from_dict({"value": "x", "force_type": ["a"]}).sigma_value)
show("set_value from_dict missing", lambda: SetValueTransformation.from_dict({"force_type": "str"}))
show("set_value failed has no sigma_value", lambda: hasattr(SetValueTransformation.__new__(SetValueTransformation), "sigma_value"))
t = SetValueTransformation("x")
show("apply_value same object", lambda: t.apply_value("f", SigmaNumber(1)) is t.sigma_value)
show("repr", lambda: repr(SetValueTransformation(1, "str")))
show("eq", lambda: SetValueTransformation(1, "str") == SetValueTransformation("1"))
show("eq2", lambda: SetValueTransformation(1, "str") == SetValueTransformation("1", "str"))

print("== CaseTransformation ==")
strings = [
    SigmaString("AbC dEf"), SigmaString("fooBarBaz*Qux?"), SigmaString(""), SigmaString("ÄÖü ß İ"),
    SigmaString("a\\*B"), SigmaString("%PlaceHolder%Xy").insert_placeholders(),
    SigmaCasedString("CamelCaseString"), SigmaString("HTTPServer2Go"),
]
for method in ["lower", "upper", "snake_case", "title", "", None, 1, ["lower"]]:
    def mk(method=method):
        return CaseTransformation(method)
    show(f"case method={method!r}", mk)
for method in ["lower", "upper", "snake_case"]:
    t = CaseTransformation(method)
    for s in strings:
        show(f"case {method} {s.s!r} ({type(s).__name__})", lambda: (lambda r: (r.s, r is s))(t.apply_string_value("f", s)))
        show(f"case {method} apply_value {s.s!r}", lambda: t.apply_value(None, s).s)
    show(f"case {method} number", lambda: t.apply_value("f", SigmaNumber(3)))
# method changed after construction (no validation any more): everything else means upper
t = CaseTransformation("lower")
for method in ["title", None, ["lower"], {"a": 1}, "snake_case", "lower", "upper", MyStr("lower")]:
    t.method = method
    show(f"case mutated method={method!r}", lambda: t.apply_string_value("f", SigmaString("fooBar Baz")).s)

print("== through pipelines ==")
rule = """
title: Test
status: test
logsource:
    category: test
detection:
    sel:
        FieldA|contains: FooBar
        FieldB:
            - 123
            - 'Some*Value'
            - null
        FieldC|re: 'A.*B'
        FieldD|windash: '-Param Value'
        FieldE|all|contains:
            - OneTwo
            - ThreeFour
    kw:
        - KeyWord One
        - 42
    condition: sel or kw
"""
pipelines = {
    "none": "name: p\npriority: 0\ntransformations: []\n",
    "set str": "name: p\npriority: 0\ntransformations:\n  - type: set_value\n    value: fixed*val\n",
    "set int": "name: p\npriority: 0\ntransformations:\n  - type: set_value\n    value: 5\n    field_name_conditions:\n      - type: include_fields\n        fields: [FieldB, FieldE]\n",
    "set float forced str": "name: p\npriority: 0\ntransformations:\n  - type: set_value\n    value: 5.25\n    force_type: str\n    field_name_conditions:\n      - type: include_fields\n        fields: [FieldA]\n",
    "set str forced num": "name: p\npriority: 0\ntransformations:\n  - type: set_value\n    value: '17'\n    force_type: num\n    field_name_conditions:\n      - type: include_fields\n        fields: [FieldB]\n",
    "set bool": "name: p\npriority: 0\ntransformations:\n  - type: set_value\n    value: true\n    field_name_conditions:\n      - type: include_fields\n        fields: [FieldB]\n",
    "set null": "name: p\npriority: 0\ntransformations:\n  - type: set_value\n    value: null\n    field_name_conditions:\n      - type: include_fields\n        fields: [FieldA]\n",
    "set nothing matches": "name: p\npriority: 0\ntransformations:\n  - type: set_value\n    value: x\n    field_name_conditions:\n      - type: include_fields\n        fields: [Nope]\n",
    "set list": "name: p\npriority: 0\ntransformations:\n  - type: set_value\n    value: [a, b]\n",
    "set bad num": "name: p\npriority: 0\ntransformations:\n  - type: set_value\n    value: abc\n    force_type: num\n",
    "set bad force": "name: p\npriority: 0\ntransformations:\n  - type: set_value\n    value: abc\n    force_type: bool\n",
    "set list force": "name: p\npriority: 0\ntransformations:\n  - type: set_value\n    value: abc\n    force_type: [str]\n",
    "set bool force": "name: p\npriority: 0\ntransformations:\n  - type: set_value\n    value: true\n    force_type: num\n    field_name_conditions:\n      - type: include_fields\n        fields: [FieldB]\n",
    "set null force": "name: p\npriority: 0\ntransformations:\n  - type: set_value\n    value: null\n    force_type: str\n",
    "case lower": "name: p\npriority: 0\ntransformations:\n  - type: case\n    method: lower\n",
    "case upper": "name: p\npriority: 0\ntransformations:\n  - type: case\n    method: upper\n",
    "case default": "name: p\npriority: 0\ntransformations:\n  - type: case\n",
    "case snake": "name: p\npriority: 0\ntransformations:\n  - type: case\n    method: snake_case\n",
    "case snake fieldA": "name: p\npriority: 0\ntransformations:\n  - type: case\n    method: snake_case\n    field_name_conditions:\n      - type: include_fields\n        fields: [FieldA, FieldE]\n",
    "case bad": "name: p\npriority: 0\ntransformations:\n  - type: case\n    method: title\n",
    "case then set": "name: p\npriority: 0\ntransformations:\n  - type: case\n    method: upper\n  - type: set_value\n    value: 1\n    force_type: str\n    detection_item_conditions:\n      - type: match_string\n        cond: any\n        pattern: 'ONE'\n",
}
for name, yaml_text in pipelines.items():
    def run(yaml_text=yaml_text):
        pipeline = ProcessingPipeline.from_yaml(yaml_text)
        return TextQueryTestBackend(pipeline).convert(SigmaCollection.from_yaml(rule))
    show(f"pipeline {name}", run)
