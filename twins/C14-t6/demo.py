"""Demo for property C14 (pipeline composition order), refactoring t6.

Prints everything it observes; the output must be the same on clean HEAD and with patch.diff applied.
"""

import itertools

import sigma.types
from sigma.backends.test import TextQueryTestBackend
from sigma.collection import SigmaCollection
from sigma.exceptions import SigmaProcessingItemError
from sigma.processing.condition_expressions import parse_condition_expression
from sigma.processing.conditions import (
    DetectionItemProcessingItemAppliedCondition,
    ExcludeFieldCondition,
    FieldNameProcessingItemAppliedCondition,
    IncludeFieldCondition,
    LogsourceCondition,
    MatchStringCondition,
)
from sigma.processing.finalization import ConcatenateQueriesFinalizer, JSONFinalizer
from sigma.processing.pipeline import (
    ProcessingItem,
    ProcessingPipeline,
    QueryPostprocessingItem,
)
from sigma.processing.postprocessing import (
    EmbedQueryTransformation,
    QuerySimpleTemplateTransformation,
    ReplaceQueryTransformation,
)
from sigma.processing.resolver import ProcessingPipelineResolver
from sigma.processing.transformations import (
    AddFieldnamePrefixTransformation,
    AddFieldnameSuffixTransformation,
    FieldMappingTransformation,
    SetStateTransformation,
)

print("sigma imported from worktree:", sigma.types.__file__.startswith("/tmp/wt7-C14/"))

RULES = """
title: Rule A
id: 11111111-1111-1111-1111-111111111111
status: test
logsource:
    category: process_creation
    product: windows
detection:
    sel:
        fieldA: valueA
        fieldB|contains: foo
        fieldC: 3
    condition: sel
---
title: Rule B
id: 22222222-2222-2222-2222-222222222222
status: test
logsource:
    category: network
    product: linux
detection:
    sel:
        fieldA:
            - x
            - y
        other|startswith: abc
    filter:
        fieldB: null
    condition: sel and not filter
"""


def pipeline_a():
    return ProcessingPipeline(
        name="a",
        priority=20,
        vars={"v": "a", "only_a": 1},
        items=[
            ProcessingItem(
                identifier="a_map",
                transformation=FieldMappingTransformation({"fieldA": "mappedA"}),
                rule_conditions=[LogsourceCondition(product="windows")],
            ),
            ProcessingItem(
                identifier="a_prefix",
                transformation=AddFieldnamePrefixTransformation("p_"),
                field_name_conditions=[IncludeFieldCondition(["fieldB", "other"])],
                detection_item_conditions=[MatchStringCondition(cond="any", pattern="^(foo|abc)")],
            ),
            ProcessingItem(
                transformation=SetStateTransformation("index", "from_a"),
            ),
        ],
        postprocessing_items=[
            QueryPostprocessingItem(
                identifier="a_embed",
                transformation=EmbedQueryTransformation(prefix="[", suffix="]"),
            ),
        ],
        finalizers=[ConcatenateQueriesFinalizer(separator=" || ", prefix="<", suffix=">")],
    )


def pipeline_b():
    return ProcessingPipeline(
        name="b",
        priority=10,
        vars={"v": "b", "only_b": 2},
        items=[
            ProcessingItem(
                identifier="b_suffix",
                transformation=AddFieldnameSuffixTransformation("_s"),
                field_name_condition_expression=parse_condition_expression("inc and not exc"),
                field_name_conditions={
                    "inc": IncludeFieldCondition(["field.*", "mapped.*"], "re"),
                    "exc": ExcludeFieldCondition(["fieldC"]),
                },
                detection_item_condition_expression=parse_condition_expression("not prefixed"),
                detection_item_conditions={
                    "prefixed": DetectionItemProcessingItemAppliedCondition("a_prefix"),
                },
                rule_condition_expression=parse_condition_expression("win or lin"),
                rule_conditions={
                    "win": LogsourceCondition(product="windows"),
                    "lin": LogsourceCondition(product="linux"),
                },
            ),
            ProcessingItem(
                identifier="b_state",
                transformation=SetStateTransformation("index", "from_b"),
                rule_conditions=[LogsourceCondition(category="network")],
            ),
        ],
        postprocessing_items=[
            QueryPostprocessingItem(
                identifier="b_tmpl",
                transformation=QuerySimpleTemplateTransformation(
                    "{rule.title}:{query}:{pipeline.state[index]}"
                ),
                rule_conditions=[LogsourceCondition(product="linux")],
            ),
            QueryPostprocessingItem(
                transformation=ReplaceQueryTransformation("valueA", "VALUE_A"),
            ),
        ],
        finalizers=[JSONFinalizer()],
    )


def pipeline_c():
    return ProcessingPipeline(
        name="c",
        priority=10,
        vars={"v": "c"},
        items=[
            ProcessingItem(
                identifier="c_map",
                transformation=FieldMappingTransformation({"fieldC": ["c1", "c2"]}),
                field_name_conditions=[FieldNameProcessingItemAppliedCondition("b_suffix")],
                field_name_condition_negation=True,
            ),
        ],
        postprocessing_items=[
            QueryPostprocessingItem(
                identifier="c_embed",
                transformation=EmbedQueryTransformation(prefix="{", suffix="}"),
                rule_conditions=[LogsourceCondition(product="windows")],
                rule_condition_negation=True,
            ),
        ],
    )


def pipeline_d():
    return ProcessingPipeline(name="d", priority=10, vars={"only_d": None})


FACTORIES = {"a": pipeline_a, "b": pipeline_b, "c": pipeline_c, "d": pipeline_d}


def owners(pipeline):
    """Check that every back-pointer of every contained object names the given pipeline."""
    result = []
    for item in pipeline.items:
        objs = [item, item.transformation]
        for conds in (
            item.rule_conditions,
            item.detection_item_conditions,
            item.field_name_conditions,
        ):
            objs.extend(conds.values() if isinstance(conds, dict) else conds)
        result.append(all(o._pipeline is pipeline for o in objs))
    for item in pipeline.postprocessing_items:
        objs = [item, item.transformation]
        conds = item.rule_conditions
        objs.extend(conds.values() if isinstance(conds, dict) else conds)
        result.append(all(o._pipeline is pipeline for o in objs))
    for finalizer in pipeline.finalizers:
        result.append(finalizer._pipeline is pipeline)
    return result


def describe(pipeline):
    return {
        "items": [i.identifier for i in pipeline.items],
        "post": [i.identifier for i in pipeline.postprocessing_items],
        "finalizers": [type(f).__name__ for f in pipeline.finalizers],
        "vars": pipeline.vars,
        "priority": pipeline.priority,
        "name": pipeline.name,
    }


def convert(pipeline, output_format=None):
    backend = TextQueryTestBackend(pipeline)
    collection = SigmaCollection.from_yaml(RULES)
    try:
        out = backend.convert(collection, output_format)
    except Exception as e:  # printed, so that differences would show up
        out = f"{type(e).__name__}: {e}"
    last = backend.last_processing_pipeline
    return {
        "output": out,
        "applied": last.applied,
        "applied_ids": sorted(last.applied_ids),
        "state": last.state,
        "field_ids": {k: sorted(v) for k, v in sorted(last.field_name_applied_ids.items())},
        "n_items": len(last.items),
        "owners_ok": all(owners(last)),
    }


print("=== 1. single pipelines")
for name, factory in FACTORIES.items():
    p = factory()
    print(name, describe(p), owners(p))
    print(name, convert(factory()))

print("=== 2. '+' in all orders of two and three operands, all bracketings")
for names in itertools.chain(
    itertools.permutations("abcd", 2), itertools.permutations("abc", 3), [tuple("abcd")]
):
    if len(names) == 2:
        p = FACTORIES[names[0]]() + FACTORIES[names[1]]()
        print("+".join(names), describe(p), owners(p))
        print("+".join(names), convert(p))
    else:
        ps = [FACTORIES[n]() for n in names]
        left = (ps[0] + ps[1]) + ps[2]
        desc_l, conv_l = describe(left), convert(left)
        ps = [FACTORIES[n]() for n in names]
        right = ps[0] + (ps[1] + ps[2])
        desc_r, conv_r = describe(right), convert(right)
        print("+".join(names), "assoc equal:", desc_l == desc_r, conv_l == conv_r)
        print("+".join(names), desc_l)
        print("+".join(names), conv_l)
        if len(names) == 4:
            ps = [FACTORIES[n]() for n in names]
            both = (ps[0] + ps[1]) + (ps[2] + ps[3])
            print("(a+b)+(c+d)", describe(both), convert(both))

print("=== 3. identity, None, 0, wrong operands")
a = pipeline_a()
print("a + None is a:", (a + None) is a, owners(a))
print("0 + a is a:", (0 + a) is a, "sum([a]) is a:", sum([a]) is a)
e = ProcessingPipeline()
ae = pipeline_a() + e
print("a + empty:", describe(ae), owners(ae), convert(ae) == convert(pipeline_a()))
ea = ProcessingPipeline() + pipeline_a()
print("empty + a:", describe(ea), owners(ea), convert(ea) == convert(pipeline_a()))
for bad in (1, "x", [pipeline_b()]):
    for op in (lambda x: pipeline_a() + x, lambda x: x + pipeline_a()):
        try:
            print("result:", op(bad))
        except Exception as ex:
            print(type(bad).__name__, "->", type(ex).__name__, ex)

print("=== 4. operands lose their items' back-pointers, result owns them; reuse")
a, b = pipeline_a(), pipeline_b()
ab = a + b
print(
    "owners ab:",
    owners(ab),
    "a's items now owned by ab:",
    [i._pipeline is ab for i in a.items],
    "b's items now owned by ab:",
    [i._pipeline is ab for i in b.items],
)
ab2 = a + b  # adding the same objects once more
print("owners ab2:", owners(ab2), "ab's items moved to ab2:", [i._pipeline is ab2 for i in ab.items])
print("ab2 converts:", convert(ab2) == convert(pipeline_a() + pipeline_b()))
try:
    ProcessingPipeline(items=ab2.items)
except SigmaProcessingItemError as ex:
    print("re-own without clearing:", type(ex).__name__, ex)
try:
    ProcessingPipeline(postprocessing_items=ab2.postprocessing_items)
except SigmaProcessingItemError as ex:
    print("re-own without clearing:", type(ex).__name__, ex)
try:
    ProcessingPipeline(finalizers=ab2.finalizers)
except Exception as ex:
    print("re-own without clearing:", type(ex).__name__, ex)
item = ProcessingItem(
    transformation=AddFieldnamePrefixTransformation("q_"),
    field_name_conditions=[IncludeFieldCondition(["f"])],
    detection_item_conditions=[MatchStringCondition(cond="any", pattern="x")],
)
fcond = item.field_name_conditions[0]
dcond = item.detection_item_conditions[0]
dcond._pipeline = "occupied"
try:
    ProcessingPipeline(items=[item])
except SigmaProcessingItemError as ex:
    print(
        "detection item condition occupied:",
        type(ex).__name__,
        ex,
        "| item set:",
        item._pipeline is not None,
        "| field cond untouched:",
        fcond._pipeline is None,
    )
item._clear_pipeline()
print("cleared:", item._pipeline, item.transformation._pipeline, dcond._pipeline, fcond._pipeline)

print("=== 5. member type checks of the pipeline constructor")
good_item = lambda: ProcessingItem(transformation=AddFieldnamePrefixTransformation("x"))
good_post = lambda: QueryPostprocessingItem(transformation=EmbedQueryTransformation("x"))
for kwargs in (
    dict(items=[AddFieldnamePrefixTransformation("x")]),
    dict(items=[good_item(), good_post()]),
    dict(postprocessing_items=[good_item()]),
    dict(postprocessing_items=[EmbedQueryTransformation("x")]),
    dict(finalizers=[good_item()]),
    dict(finalizers=["json"]),
    dict(items=[1], postprocessing_items=[2], finalizers=[3]),
    dict(items=[], postprocessing_items=[2], finalizers=[3]),
    dict(items=(), postprocessing_items=(), finalizers=[3]),
    dict(items=None, postprocessing_items=None, finalizers=[JSONFinalizer()]),
    dict(items=5),
):
    try:
        p = ProcessingPipeline(**kwargs)
        print(sorted(kwargs), "-> ok", describe(p) if p.items is not None else "items None")
    except Exception as ex:
        print(sorted(kwargs), "->", type(ex).__name__, ex)

print("=== 6. resolver: every order of the specifiers yields the same pipeline")
for n in (1, 2, 3, 4):
    for combo in itertools.combinations("abcd", n):
        seen = set()
        for perm in itertools.permutations(combo):
            resolver = ProcessingPipelineResolver.from_pipeline_list(
                [f() for f in FACTORIES.values()]
            )
            resolved = resolver.resolve(list(perm))
            seen.add(repr((describe(resolved), owners(resolved), convert(resolved))))
        print("".join(combo), "distinct results:", len(seen))
        print(sorted(seen)[0])
resolver = ProcessingPipelineResolver.from_pipeline_list([f() for f in FACTORIES.values()])
first = resolver.resolve(["a", "b", "c"])
second = resolver.resolve(["c", "b", "a"])  # same pipeline objects resolved again
print(
    "resolved twice:",
    describe(first) == describe(second),
    owners(second),
    "first's items moved to second:",
    [i._pipeline is second for i in first.items],
)
print("resolved twice converts:", convert(second))
print("resolve([]):", describe(resolver.resolve([])))
try:
    dup = resolver.resolve(["b", "b"])
    print("resolve same name twice:", describe(dup))
except Exception as ex:
    print("resolve same name twice:", type(ex).__name__, ex)

print("=== 7. backend pipeline, user pipeline, output format pipeline")
for fmt in (None, "default", "test", "str", "list_of_dict"):
    for names in (("a",), ("b", "a"), ("a", "b", "c")):
        user = None
        for n in names:
            user = FACTORIES[n]() if user is None else user + FACTORIES[n]()
        print(fmt, "+".join(names), convert(user, fmt))
print("no user pipeline:", convert(None), convert(None, "test"))
