"""Demo for C20 / t8: tracking state of ProcessingPipeline and the 'unreferenced condition items'
error message. Run in the parent process, the scenario is repeated in child processes with
different PYTHONHASHSEED / random.seed values and the sha256 of everything printed is compared."""

import hashlib
import os
import random
import subprocess
import sys

import sigma.types
from sigma.backends.test import TextQueryTestBackend
from sigma.collection import SigmaCollection
from sigma.exceptions import SigmaError
from sigma.processing.conditions import LogsourceCondition
from sigma.processing.pipeline import ProcessingPipeline, QueryPostprocessingItem
from sigma.processing.postprocessing import (
    EmbedQueryTransformation,
    NestedQueryPostprocessingTransformation,
    ReplaceQueryTransformation,
)

PIPELINE = """
name: demo
priority: 10
vars:
  v: 1
transformations:
  - id: map_one_to_many
    type: field_name_mapping
    mapping:
      User: [user.name, user.id, winlog.user]
      Image: process.executable
      CommandLine: [process.command_line, cmd]
  - id: second_mapping
    type: field_name_mapping
    mapping:
      user.name: [account, principal]
      cmd: cmdline
  - id: nested
    type: nest
    rule_cond_expr: is_proc and not is_net
    rule_conditions:
      is_proc:
        type: logsource
        category: process_creation
      is_net:
        type: logsource
        category: network_connection
    items:
      - id: nested_prefix
        type: field_name_prefix
        prefix: "x."
        field_name_conditions:
          - type: include_fields
            fields: [account, cmdline]
      - id: nested_map
        type: field_name_mapping
        mapping:
          x.account: [acct_a, acct_b]
      - type: field_name_suffix
        suffix: ".s"
        field_name_conditions:
          - type: include_fields
            fields: [process.executable]
      - id: nested_state
        type: set_state
        key: index
        val: idx_proc
  - id: add_cond
    type: add_condition
    conditions:
      tenant: t1
      index: $index
    template: true
    rule_conditions:
      - type: processing_item_applied
        processing_item_id: nested_state
  - id: only_if_mapped
    type: add_condition
    conditions:
      marker: 1
    rule_conditions:
      - type: processing_item_applied
        processing_item_id: never_applied
  - id: drop_hostname
    type: drop_detection_item
    field_name_conditions:
      - type: processing_item_applied
        processing_item_id: second_mapping
      - type: include_fields
        fields: [principal]
    field_name_cond_op: and
postprocessing:
  - id: pp_embed
    type: embed
    prefix: "["
    suffix: "]"
  - type: embed
    prefix: "<"
    suffix: ">"
finalizers:
  - type: concat
    separator: "\\n"
"""

RULES = """
title: Process rule
id: 11111111-1111-4111-8111-111111111111
status: test
logsource:
    category: process_creation
    product: windows
fields:
    - User
    - Image
    - Other
detection:
    sel:
        User|startswith: adm
        Image|endswith: '\\\\cmd.exe'
        CommandLine|contains|all:
            - ' /c '
            - 'whoami'
    flt:
        User: SYSTEM
        Host|re|i|m: '^srv-\\d+$'
    condition: sel and not flt
---
title: Network rule
id: 22222222-2222-4222-8222-222222222222
status: test
logsource:
    category: network_connection
    product: windows
detection:
    sel:
        User: [alice, bob]
        DestinationPort: 443
    kw:
        - plain keyword
    condition: sel or kw
---
title: No mapped fields
id: 33333333-3333-4333-8333-333333333333
status: test
logsource:
    category: process_creation
detection:
    sel:
        Unmapped|re|s|i: 'a.*b/c'
    condition: sel
"""

BROKEN_ITEMS = [
    # unreferenced rule conditions, several of them: rendered sorted
    """
transformations:
  - id: broken
    type: field_name_suffix
    suffix: "_x"
    rule_cond_expr: zeta
    rule_conditions:
      zeta: {type: logsource, category: a}
      alpha: {type: logsource, category: b}
      mu: {type: logsource, category: c}
      beta: {type: logsource, category: d}
      omega_9: {type: logsource, category: e}
""",
    # unreferenced field name conditions
    """
transformations:
  - type: field_name_suffix
    suffix: "_x"
    field_name_cond_expr: c2 or c2
    field_name_conditions:
      c1: {type: include_fields, fields: [a]}
      c2: {type: include_fields, fields: [b]}
      c10: {type: include_fields, fields: [c]}
""",
    # unreferenced detection item conditions
    """
transformations:
  - type: drop_detection_item
    detection_item_cond_expr: not m
    detection_item_conditions:
      m: {type: match_string, cond: any, pattern: x}
      k: {type: match_string, cond: any, pattern: y}
      a: {type: match_string, cond: any, pattern: z}
""",
    # expression with a list of conditions
    """
transformations:
  - type: field_name_suffix
    suffix: "_x"
    rule_cond_expr: a
    rule_conditions:
      - {type: logsource, category: a}
""",
    # unknown identifier in expression
    """
transformations:
  - type: field_name_suffix
    suffix: "_x"
    rule_cond_expr: a and nope
    rule_conditions:
      a: {type: logsource, category: a}
""",
    # everything referenced: fine
    """
transformations:
  - type: field_name_suffix
    suffix: "_x"
    rule_cond_expr: a and (b or not a)
    rule_conditions:
      a: {type: logsource, category: a}
      b: {type: logsource, category: b}
""",
    # postprocessing item with unreferenced conditions
    """
postprocessing:
  - type: embed
    prefix: "("
    rule_cond_expr: q
    rule_conditions:
      q: {type: logsource, category: a}
      p: {type: logsource, category: b}
      r: {type: logsource, category: b}
""",
]


def build_pipeline():
    """Pipeline from YAML plus a nested postprocessing item (built from objects)."""
    nested = QueryPostprocessingItem(
        NestedQueryPostprocessingTransformation(
            items=[
                QueryPostprocessingItem(
                    ReplaceQueryTransformation("idx_proc", "IDX"), identifier="pp_inner_replace"
                ),
                QueryPostprocessingItem(
                    EmbedQueryTransformation("net:", ""),
                    rule_conditions=[LogsourceCondition(category="network_connection")],
                    identifier="pp_inner_cond",
                ),
                QueryPostprocessingItem(EmbedQueryTransformation("{", "}")),
            ]
        ),
        identifier="pp_nest",
    )
    return ProcessingPipeline.from_yaml(PIPELINE) + ProcessingPipeline(
        postprocessing_items=[nested]
    )


def show_tracking(out, pipeline):
    out.append("  applied: %r" % (pipeline.applied,))
    out.append("  applied_ids: %r" % (sorted(pipeline.applied_ids),))
    out.append(
        "  field_name_applied_ids: %r (%s)"
        % (
            sorted((k, sorted(v)) for k, v in pipeline.field_name_applied_ids.items()),
            type(pipeline.field_name_applied_ids).__name__,
        )
    )
    out.append(
        "  field_mappings: %r"
        % (sorted(((str(k), sorted(v)) for k, v in pipeline.field_mappings.items())),)
    )
    out.append(
        "  target_fields: %r"
        % (
            sorted(
                (str(k), sorted(map(str, v))) for k, v in pipeline.field_mappings.target_fields.items()
            ),
        )
    )
    out.append("  state: %r" % (sorted(pipeline.state.items()),))


def scenario():
    out = []
    random.seed(int(os.environ.get("DEMO_RANDOM_SEED", "0")))

    # 1. Conversion with tracking
    pipeline = build_pipeline()
    backend = TextQueryTestBackend(pipeline)
    collection = SigmaCollection.from_yaml(RULES)
    for rule in collection.rules:
        out.append("rule %s" % rule.title)
        try:
            queries = backend.convert_rule(rule)
            for q in queries:
                out.append("  query: %s" % (q,))
                assert "_cond_" not in str(q) and "_filt_" not in str(q)
        except SigmaError as e:
            out.append("  error: %s: %s" % (type(e).__name__, e))
        show_tracking(out, backend.last_processing_pipeline)
        out.append("  fields: %r" % (rule.fields if hasattr(rule, "fields") else None,))
    out.append("finalised: %r" % (backend.convert(SigmaCollection.from_yaml(RULES)),))

    # 2. pipeline.apply() with and without given state, repeated (tracking is reset each time)
    p2 = build_pipeline()
    for state in (None, {}, {"index": "given", "extra": [1, 2]}, None):
        rule = SigmaCollection.from_yaml(RULES).rules[0]
        given = state
        res = p2.apply(rule, state)
        out.append("apply(state=%r) -> same rule: %r" % (given, res is rule))
        out.append("  state is copy: %r" % (p2.state is not given,))
        show_tracking(out, p2)
        q = p2.postprocess_query(rule, "q idx_proc")
        out.append("  postprocessed: %r" % (q,))
        out.append("  applied_ids after postprocessing: %r" % (sorted(p2.applied_ids),))
    try:
        p2.apply(SigmaCollection.from_yaml(RULES).rules[0], 5)
    except Exception as e:
        out.append("apply(state=5): %s: %s" % (type(e).__name__, e))
        show_tracking(out, p2)

    # 3. track_field_processing_items / field_was_processed_by directly
    p3 = ProcessingPipeline()
    calls = [
        ("a", ["a"], "id0"),
        ("a", ["b", "c"], "id1"),
        ("b", ["b", "d"], "id2"),
        ("c", [], "id3"),
        ("d", ["d"], None),
        ("d", ["e"], None),
        ("zz", ["b"], None),
        ("e", ["e", "e", "f"], "id4"),
        ("f", ("f",), "id5"),
    ]
    for src, dest, item_id in calls:
        p3.track_field_processing_items(src, dest, item_id)
        out.append(
            "track(%r, %r, %r): %r"
            % (
                src,
                dest,
                item_id,
                [(k, sorted(v)) for k, v in p3.field_name_applied_ids.items()],
            )
        )
    sets = list(p3.field_name_applied_ids.values())
    out.append(
        "distinct set objects: %r" % (len({id(s) for s in sets}) == len(sets),)
    )
    for f, i in (("b", "id1"), ("b", "id2"), ("d", "id2"), (None, "id1"), ("new", "id1")):
        out.append("field_was_processed_by(%r, %r): %r" % (f, i, p3.field_was_processed_by(f, i)))
    out.append("keys afterwards: %r" % (list(p3.field_name_applied_ids.keys()),))

    # 4. error messages of condition expression resolution
    for i, src in enumerate(BROKEN_ITEMS):
        try:
            p = ProcessingPipeline.from_yaml(src)
            out.append("broken %d: ok, %d items, %d postprocessing items" % (i, len(p.items), len(p.postprocessing_items)))
        except Exception as e:
            out.append("broken %d: %s: %s" % (i, type(e).__name__, e))

    # 5. _resolve_condition_expression called directly (branches not reachable through from_yaml)
    from sigma.processing.condition_expressions import parse_condition_expression

    item = ProcessingPipeline.from_yaml(BROKEN_ITEMS[5]).items[0]
    conds = {name: LogsourceCondition(category=name) for name in ("b", "a", "d", "c", "B", "_")}
    for expr_str, given, label in (
        (None, conds, "Nothing"),
        (None, [], "Nothing"),
        ("a", list(conds.values()), "Listed"),
        ("a", (), "Tuple"),
        ("a or b", conds, "Some"),
        ("a and b and c and d and B and _", conds, "All"),
        ("a", {}, "Empty"),
    ):
        expr = None if expr_str is None else parse_condition_expression(expr_str)
        try:
            res = item._resolve_condition_expression(expr, given, label)
            out.append("resolve(%r, %s, %r) -> %r" % (expr_str, type(given).__name__, label, res))
        except Exception as e:
            out.append(
                "resolve(%r, %s, %r): %s: %s" % (expr_str, type(given).__name__, label, type(e).__name__, e)
            )

    return "\n".join(out)


def main():
    if os.environ.get("DEMO_CHILD"):
        sys.stdout.write(hashlib.sha256(scenario().encode()).hexdigest())
        return 0
    text = scenario()
    print(text)
    digest = hashlib.sha256(text.encode()).hexdigest()
    print("sha256 parent:", digest)
    ok = True
    for hashseed, rseed in (("0", "1"), ("1", "2"), ("4711", "3"), ("random", "99"), ("123456", "0")):
        env = dict(os.environ, PYTHONHASHSEED=hashseed, DEMO_RANDOM_SEED=rseed, DEMO_CHILD="1")
        child = subprocess.run(
            [sys.executable, os.path.abspath(__file__)], env=env, capture_output=True, text=True
        )
        same = child.returncode == 0 and child.stdout == digest
        print("child PYTHONHASHSEED=%s random.seed=%s: %s" % (hashseed, rseed, "same" if same else "DIFFERENT " + child.stdout + child.stderr[-500:]))
        ok = ok and same
    return 0 if ok else 1


if __name__ == "__main__":
    pass
    sys.exit(main())
