"""Demo for C15 / t9: external-source value cache and format dispatch.

Converts probe rules after different histories (other rules, failed conversions,
second backends, changed source files) through pipelines with file/command
placeholder transformations and prints everything that is observed.
"""

import os
import sys
import tempfile

from sigma.backends.test import TextQueryTestBackend
from sigma.collection import SigmaCollection
from sigma.exceptions import SigmaError
from sigma.processing.pipeline import ProcessingPipeline
from sigma.processing.transformations.external import (
    PYSIGMA_ALLOW_EXTERNAL_SOURCES_ENV,
    CommandPlaceholderTransformation,
    FilePlaceholderTransformation,
)

os.environ.pop(PYSIGMA_ALLOW_EXTERNAL_SOURCES_ENV, None)
tmp = tempfile.mkdtemp(prefix="c15t9_", dir=os.path.dirname(os.path.abspath(__file__)))


def write(name, content):
    path = os.path.join(tmp, name)
    with open(path, "w", encoding="utf-8") as fh:
        fh.write(content)
    return path


def rule(title, detection_yaml, condition="sel"):
    return SigmaCollection.from_yaml(
        f"""
title: {title}
status: test
logsource:
    category: test
detection:
{detection_yaml}
    condition: {condition}
"""
    )


def show(label, func):
    try:
        res = func()
        print(f"{label}: OK {res!r}")
    except SigmaError as e:
        print(f"{label}: {type(e).__name__}: {str(e).replace(tmp, '<tmp>')}")
    except Exception as e:  # noqa: BLE001 - the demo prints whatever happens
        print(f"{label}: {type(e).__name__}: {str(e).replace(tmp, '<tmp>')}")


def pipeline_yaml(path, extra=""):
    return f"""
name: ext
priority: 10
transformations:
  - id: ext
    type: file_placeholders
    path: {path}
{extra}
"""


def probe():
    return rule(
        "probe",
        "    sel:\n        host|expand: '%hosts%'\n        user|expand|all:\n            - 'adm_%hosts%'\n            - '%hosts%_svc'",
    )


def other():
    return rule(
        "other",
        "    sel:\n        host|expand: 'x-%hosts%'\n    flt:\n        host|expand: '%other%'",
        "sel and not flt",
    )


def tcache(pipeline):
    return [item.transformation._values_cache for item in pipeline.items]


# --- 1. plaintext with filter: probe fresh vs after a history -----------------------------
hosts = write("hosts.txt", "alpha\n\n  beta  \n123\ngamma\n")
ymlA = pipeline_yaml(hosts, "    filter: '^[a-z]+$'\n    include: [hosts]")

pA = ProcessingPipeline.from_yaml(ymlA, allow_external_sources=True)
bA = TextQueryTestBackend(pA)
print("1 cache before:", tcache(pA))
show("1 fresh probe", lambda: bA.convert(probe()))
print("1 cache after:", tcache(pA))

pB = ProcessingPipeline.from_yaml(ymlA, allow_external_sources=True)
bB = TextQueryTestBackend(pB)
show("1 hist other", lambda: bB.convert(other()))
show("1 hist other again", lambda: bB.convert_rule(other().rules[0]))
bB2 = TextQueryTestBackend(pB)  # second backend sharing the pipeline object
show("1 hist second backend", lambda: bB2.convert(other()))
show("1 probe after history", lambda: bB.convert(probe()))
show("1 probe after history (2nd backend)", lambda: bB2.convert(probe()))
print("1 cache identical object:", pB.items[0].transformation._get_values() is tcache(pB)[0])

# the source changes after the first fetch: the cached values stay in use for this instance
write("hosts.txt", "delta\n")
show("1 probe after source change (old pipeline)", lambda: bB.convert(probe()))
pC = ProcessingPipeline.from_yaml(ymlA, allow_external_sources=True)
show("1 probe after source change (new pipeline)", lambda: TextQueryTestBackend(pC).convert(probe()))
write("hosts.txt", "alpha\n\n  beta  \n123\ngamma\n")

# --- 2. external sources disabled: failure must not poison the next conversion ----------
pD = ProcessingPipeline.from_yaml(ymlA)
bD = TextQueryTestBackend(pD)
show("2 disabled probe", lambda: bD.convert(probe()))
print("2 cache after failure:", tcache(pD))
show("2 disabled plain rule", lambda: bD.convert(rule("plain", "    sel:\n        host: 'a*'")))
for value in ("1", "true", "TRUE", "yes", "0", ""):
    os.environ[PYSIGMA_ALLOW_EXTERNAL_SOURCES_ENV] = value
    pE = ProcessingPipeline.from_yaml(ymlA)
    tr = pE.items[0].transformation
    print(f"2 env={value!r} allowed:", tr._external_sources_allowed())
    show(f"2 env={value!r} probe", lambda: TextQueryTestBackend(pE).convert(probe()))
os.environ.pop(PYSIGMA_ALLOW_EXTERNAL_SOURCES_ENV)
show("2 disabled probe again", lambda: bD.convert(probe()))
pD.items[0].transformation.allow_external_sources = 1  # truthy non-bool
print("2 truthy allowed:", pD.items[0].transformation._external_sources_allowed())
show("2 probe after enabling", lambda: bD.convert(probe()))

# --- 3. missing file, then the file appears ---------------------------------------------
late = os.path.join(tmp, "late.txt")
pF = ProcessingPipeline.from_yaml(pipeline_yaml(late), allow_external_sources=True)
bF = TextQueryTestBackend(pF)
show("3 missing file", lambda: bF.convert(probe()))
print("3 cache after failure:", tcache(pF))
write("late.txt", "one\ntwo\n")
show("3 file present", lambda: bF.convert(probe()))
print("3 cache:", tcache(pF))
write("late.txt", "")
pG = ProcessingPipeline.from_yaml(pipeline_yaml(late), allow_external_sources=True)
show("3 empty file", lambda: TextQueryTestBackend(pG).convert(probe()))
print("3 cache (empty list is cached):", tcache(pG))
write("late.txt", "now\n")
show("3 empty cache kept", lambda: TextQueryTestBackend(pG).convert(probe()))

# --- 4. every format through _parse_data, with and without filter -----------------------
csvf = write("d.csv", "name,ip\nh1,10.0.0.1\nh2,10.0.0.2\nshort\n")
jsonf = write("d.json", '{"items": [{"n": "j1"}, {"n": null}, {"n": 7}, {"n": "j2"}]}')
yamlf = write("d.yaml", "items:\n  - y1\n  - 2.5\n  - true\n")
badjson = write("bad.json", "{not json")
cases = [
    ("csv name", dict(path=csvf, format="csv", csv_column="ip")),
    ("csv idx", dict(path=csvf, format="csv", csv_column=0)),
    ("csv idx nohdr", dict(path=csvf, format="csv", csv_column=1, csv_has_header=False)),
    ("csv name nohdr", dict(path=csvf, format="csv", csv_column="ip", csv_has_header=False)),
    ("csv nocol", dict(path=csvf, format="csv")),
    ("csv badcol", dict(path=csvf, format="csv", csv_column="nope")),
    ("csv filter", dict(path=csvf, format="csv", csv_column="ip", filter=r"\.2$")),
    ("json", dict(path=jsonf, format="json", jq_expression=".items[].n")),
    ("json filter", dict(path=jsonf, format="json", jq_expression=".items[].n", filter="j")),
    ("json nonscalar", dict(path=jsonf, format="json", jq_expression=".items")),
    ("json noexpr", dict(path=jsonf, format="json")),
    ("json bad data", dict(path=badjson, format="json", jq_expression=".")),
    ("json bad expr", dict(path=jsonf, format="json", jq_expression=".[")),
    ("yaml", dict(path=yamlf, format="yaml", jq_expression=".items[]")),
    ("yaml noexpr", dict(path=yamlf, format="yaml")),
    ("yaml as plaintext", dict(path=yamlf, format="plaintext", filter="-")),
    ("unknown fmt", dict(path=yamlf, format="xml")),
    ("bad filter", dict(path=yamlf, filter="(")),
    ("empty path", dict(path="")),
]
for label, kwargs in cases:
    try:
        t = FilePlaceholderTransformation(allow_external_sources=True, **kwargs)
    except SigmaError as e:
        print(f"4 {label}: init {type(e).__name__}: {e}")
        continue
    show(f"4 {label} first", t._get_values)
    print(f"4 {label} cache:", t._values_cache)
    show(f"4 {label} second", t._get_values)
    p = ProcessingPipeline.from_dict(
        {
            "name": "p",
            "priority": 1,
            "transformations": [dict(type="file_placeholders", **kwargs)],
        },
        allow_external_sources=True,
    )
    b = TextQueryTestBackend(p)
    show(f"4 {label} other", lambda: b.convert(other()))
    show(f"4 {label} probe", lambda: b.convert(probe()))

# format changed after construction (bypasses the __post_init__ check)
t = FilePlaceholderTransformation(path=yamlf, allow_external_sources=True)
for fmt in ("xml", None, ["csv"], "yaml", "json", "plaintext"):
    t.format = fmt
    show(f"4 mutated format {fmt!r}", lambda: t._parse_data("a: [1]\nb"))
print("4 cache untouched by _parse_data:", t._values_cache)


# a subclass overriding one parser is still dispatched to
class Upper(FilePlaceholderTransformation):
    def _parse_plaintext(self, data):
        return [v.upper() for v in super()._parse_plaintext(data)]


u = Upper(path=hosts, allow_external_sources=True, filter="A")
show("4 subclass parser", u._get_values)

# --- 5. command source: failing command, then conversion of the probe again ---------------
cmd_ok = CommandPlaceholderTransformation(cmd=["printf", "c1\\nc2\\n"], allow_external_sources=True)
cmd_bad = CommandPlaceholderTransformation(cmd="echo oops >&2; exit 3", allow_external_sources=True)
cmd_off = CommandPlaceholderTransformation(cmd="echo never")
for label, t in (("ok", cmd_ok), ("bad", cmd_bad), ("off", cmd_off)):
    show(f"5 cmd {label} first", t._get_values)
    print(f"5 cmd {label} cache:", t._values_cache)
    show(f"5 cmd {label} second", t._get_values)

# --- 6. mixed collection with a failing rule in between ------------------------------------
pH = ProcessingPipeline.from_yaml(ymlA, allow_external_sources=True)
bH = TextQueryTestBackend(pH, collect_errors=True)
coll = SigmaCollection(other().rules + probe().rules + other().rules)
show("6 collection", lambda: bH.convert(coll))
print("6 errors:", [(r.title, type(e).__name__, str(e)) for r, e in bH.errors])
show("6 probe after collection", lambda: bH.convert(probe()))
fresh = TextQueryTestBackend(ProcessingPipeline.from_yaml(ymlA, allow_external_sources=True))
show("6 probe fresh", lambda: fresh.convert(probe()))

for name in os.listdir(tmp):
    os.remove(os.path.join(tmp, name))
os.rmdir(tmp)
sys.exit(0)
