"""Demo for t2: rendering of extended correlation conditions (and/or/not structure, precedence)."""

import sys

from sigma.backends.test import TextQueryTestBackend
from sigma.collection import SigmaCollection
from sigma.correlations import (
    CorrelationConditionAND,
    CorrelationConditionNOT,
    CorrelationConditionOR,
    SigmaExtendedCorrelationCondition,
    SigmaRuleReference,
)
from sigma.exceptions import SigmaError

RULE = """
title: Rule {n}
name: rule_{n}
status: test
logsource:
    category: test
detection:
    selection:
        fieldA: value_{n}
    condition: selection
---"""

CORRELATION = """
title: Correlation
status: test
correlation:
    type: {type}
    condition: {condition}
    timespan: 10m
{groupby}
"""


class ParenthesizeBackend(TextQueryTestBackend):
    parenthesize = True


class NoGroupBackend(TextQueryTestBackend):
    group_expression = None


class OtherTokensBackend(TextQueryTestBackend):
    and_token = "&&"
    or_token = "||"
    not_token = "!"
    token_separator = "  "
    group_expression = "[{expr}]"
    extended_correlation_condition_rule_reference_expression = {"test": "<{ruleid}>"}


class EmptySeparatorBackend(TextQueryTestBackend):
    token_separator = ""
    and_token = " & "
    or_token = " | "


class NoReferenceExpressionBackend(TextQueryTestBackend):
    extended_correlation_condition_rule_reference_expression = None


class OtherMethodReferenceExpressionBackend(TextQueryTestBackend):
    extended_correlation_condition_rule_reference_expression = {"other": "{ruleid}"}


class NoAndTokenBackend(TextQueryTestBackend):
    and_token = None


BACKENDS = [
    TextQueryTestBackend,
    ParenthesizeBackend,
    NoGroupBackend,
    OtherTokensBackend,
    EmptySeparatorBackend,
    NoReferenceExpressionBackend,
    OtherMethodReferenceExpressionBackend,
    NoAndTokenBackend,
]

EXPRESSIONS = [
    "rule_1",
    "rule_1 and rule_2",
    "rule_1 or rule_2",
    "not rule_1",
    "rule_1 and not rule_2",
    "not rule_1 and not rule_2",
    "not not rule_1",
    "rule_1 and rule_2 and rule_3 and rule_4",
    "rule_1 or rule_2 or rule_3 or rule_4",
    "rule_1 and rule_2 or rule_3 and rule_4",
    "rule_1 or rule_2 and rule_3 or rule_4",
    "(rule_1 or rule_2) and (rule_3 or rule_4)",
    "(rule_1 and rule_2) or (rule_3 and rule_4)",
    "not (rule_1 or rule_2)",
    "not (rule_1 and rule_2)",
    "not (rule_1 and (rule_2 or not rule_3))",
    "rule_1 and (rule_2 and rule_3)",
    "rule_1 or (rule_2 or rule_3)",
    "(rule_1)",
    "((rule_1 and rule_2))",
    "rule_1 and (rule_2 or (rule_3 and (rule_4 or not rule_1)))",
    "rule_1 and rule_1",
    "rule_4 or rule_3 and not (rule_2 or rule_1)",
    "rule_1 AND rule_2",
    "rule_1 and",
    "rule_1 and rule_9",
    "and rule_1",
    "",
]

for backend_class in BACKENDS:
    for ctype in ("temporal", "temporal_ordered"):
        for groupby in ("    group-by:\n        - user\n        - fieldA", ""):
            for expression in EXPRESSIONS:
                label = f"{backend_class.__name__} {ctype} gb={bool(groupby)} {expression!r}"
                try:
                    rules = SigmaCollection.from_yaml(
                        "".join(RULE.format(n=n) for n in range(1, 5))
                        + CORRELATION.format(type=ctype, condition=expression, groupby=groupby)
                    )
                    print(label, "->", repr(backend_class().convert(rules)))
                except (SigmaError, NotImplementedError, AttributeError, TypeError) as e:
                    print(label, "->", f"{type(e).__name__}: {e}")

# Directly rendered parse trees, including hand-built and malformed ones
ref = SigmaRuleReference


def resolved(name, rule_name, rule_id=None):
    class FakeRule:
        pass

    r = ref(name)
    r.rule = FakeRule()
    r.rule.name = rule_name
    r.rule.id = rule_id
    return r


TREES = {
    "parsed unresolved": SigmaExtendedCorrelationCondition("a and (b or not c)").parsed,
    "single AND arg": CorrelationConditionAND([ref("a")]),
    "empty AND": CorrelationConditionAND([]),
    "empty OR": CorrelationConditionOR([]),
    "empty NOT": CorrelationConditionNOT([]),
    "NOT with two args": CorrelationConditionNOT([ref("a"), ref("b")]),
    "OR in AND in OR": CorrelationConditionOR(
        [CorrelationConditionAND([CorrelationConditionOR([ref("a"), ref("b")]), ref("c")]), ref("d")]
    ),
    "AND in AND": CorrelationConditionAND([CorrelationConditionAND([ref("a"), ref("b")]), ref("c")]),
    "NOT in NOT in AND": CorrelationConditionAND(
        [CorrelationConditionNOT([CorrelationConditionNOT([ref("a")])]), ref("b")]
    ),
    "NOT of OR of three": CorrelationConditionNOT(
        [CorrelationConditionOR([ref("a"), ref("b"), ref("c")])]
    ),
    "resolved by name and id": CorrelationConditionOR(
        [resolved("x", "named_rule", "1111"), resolved("y", None, "2222"), resolved("z", "", None)]
    ),
    "string operand": CorrelationConditionAND([ref("a"), "plain string"]),
    "None operand": CorrelationConditionOR([ref("a"), None]),
    "int operand of NOT": CorrelationConditionNOT([42]),
    "string as tree": "plain string",
    "args is None": CorrelationConditionAND(None),
}
for backend_class in BACKENDS:
    backend = backend_class()
    for method in ("test", "unknown_method"):
        for name, tree in TREES.items():
            label = f"{backend_class.__name__} {method} tree[{name}]"
            try:
                print(label, "->", repr(backend.convert_extended_correlation_condition(tree, method)))
            except Exception as e:
                print(label, "->", f"{type(e).__name__}: {e}")
            try:
                grouped = backend.convert_extended_correlation_condition_group(tree, method)
                print(label, "grouped ->", repr(grouped))
            except Exception as e:
                print(label, "grouped ->", f"{type(e).__name__}: {e}")

sys.exit(0)
