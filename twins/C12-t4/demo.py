"""Placeholder expansion through pipelines and on SigmaString level (property C12)."""
import sys
from sigma.backends.test import TextQueryTestBackend
from sigma.collection import SigmaCollection
from sigma.exceptions import SigmaError
from sigma.processing.pipeline import ProcessingPipeline
from sigma.types import Placeholder, SigmaString, SigmaCasedString, SpecialChars

RULE = """
title: Test
status: test
logsource:
    category: test
detection:
    sel:
{items}
    condition: sel
"""

ITEMS = {
    "single": ["fieldA|expand: 'pre%var1%post'"],
    "two_placeholders": ["fieldA|expand: '%var1%-%var2%'"],
    "same_twice": ["fieldA|expand: '%var2%x%var2%'"],
    "list": ["fieldA|expand:", "    - '%var1%'", "    - 'plain'", "    - 'a*%var3%?b'"],
    "all": ["fieldA|expand|all:", "    - '%var1%'", "    - 'plain'", "    - 'x%var2%'"],
    "contains_all": ["fieldA|expand|contains|all:", "    - '%var2%'", "    - '%var3%'"],
    "unknown": ["fieldA|expand: 'a%unknown%b'"],
    "mixed_unknown": ["fieldA|expand: '%var1%%unknown%'"],
    "no_placeholder": ["fieldA|expand: 'a%b'", "fieldB: 100%"],
    "number_var": ["fieldA|expand: 'n%num%'"],
    "keyword": ["'|expand': '%var2%'"] ,
    "cased": ["fieldA|expand|cased: 'Ab%var1%'"],
    "regex": ["fieldA|re|expand: 'a%var2%b.*'"],
    "escaped": ["fieldA|expand: '\\\\%var1%\\*'"],
}

PIPELINES = {
    "value": """
vars:
    var1: one
    var2: [x, "y*", "z?z"]
    var3: ["3", 4]
    num: 5
    bad: [[1]]
    empty: []
transformations:
    - type: value_placeholders
""",
    "value_include": """
vars:
    var1: one
    var2: [x, y]
    var3: ["3"]
    num: 5
transformations:
    - type: value_placeholders
      include: [var1, num]
    - type: wildcard_placeholders
""",
    "value_exclude_then_wildcard": """
vars:
    var1: one
    var2: [x, y]
    var3: ["3"]
    num: 5
    unknown: u
transformations:
    - type: value_placeholders
      exclude: [var2]
    - type: wildcard_placeholders
      include: [var2]
""",
    "wildcard": """
transformations:
    - type: wildcard_placeholders
""",
    "wildcard_nomatch": """
transformations:
    - type: wildcard_placeholders
      include: [nothing]
""",
    "queryexpr": """
transformations:
    - type: query_expression_placeholders
      expression: "{field} lookup {id}"
      mapping:
          var1: mapped1
""",
    "include_and_exclude": """
transformations:
    - type: wildcard_placeholders
      include: [a]
      exclude: [b]
""",
    "bad_var": """
vars:
    var1: [[1]]
    var2: []
    var3: {a: b}
transformations:
    - type: value_placeholders
""",
}


def run(pname, iname):
    try:
        pipeline = ProcessingPipeline.from_yaml(PIPELINES[pname])
        backend = TextQueryTestBackend(pipeline)
        rule = RULE.format(items="\n".join("        " + l for l in ITEMS[iname]))
        res = backend.convert(SigmaCollection.from_yaml(rule))
        print(f"{pname:28} {iname:18} -> {res}")
    except SigmaError as e:
        print(f"{pname:28} {iname:18} !! {type(e).__name__}: {e}")


for pname in PIPELINES:
    for iname in ITEMS:
        run(pname, iname)

# SigmaString level
calls = []


def cb(p):
    calls.append(p.name)
    if p.name == "keep":
        yield p
    elif p.name == "none":
        return
    elif p.name == "str":
        yield SigmaString("s*s")
    else:
        yield "A"
        yield SpecialChars.WILDCARD_MULTI
        yield "B"


for cls in (SigmaString, SigmaCasedString):
    for text in ["", "plain", "%a%", "x%a%y%b%z", "%keep%-%a%", "%none%%a%", "%a%%none%", "*%str%?", "%a%%b%%c%"]:
        s = cls(text).insert_placeholders()
        calls.clear()
        res = s.replace_placeholders(cb)
        print(cls.__name__, repr(text), [(type(r).__name__, r.s) for r in res], "same" if len(res) == 1 and res[0] is s else "", calls)
sys.exit(0)
