"""Demo for property C11: a filter narrows exactly the rules it targets and nothing else.

Run as: PYTHONPATH=/tmp/wt10-C11 /venv/bin/python demo.py
Prints conditions, detection names and converted queries of filtered collections. The random
prefix is made reproducible by seeding (and, in one section, by scripting random.choices).
"""

import copy
import random
import sys
import textwrap

import sigma.filters
from sigma.backends.test import TextQueryTestBackend
from sigma.collection import SigmaCollection
from sigma.exceptions import SigmaError
from sigma.filters import SigmaFilter
from sigma.rule import SigmaRule

print("sigma.filters from", sigma.filters.__file__.replace("/tmp/wt10-C11/", "<wt>/"))


def rule_yaml(title, name, rid, logsource, detection):
    return (
        f"title: {title}\nname: {name}\nid: {rid}\nlogsource:\n"
        + textwrap.indent(logsource, "  ")
        + "\ndetection:\n"
        + textwrap.indent(detection, "  ")
        + "\n"
    )


def filter_yaml(title, logsource, rules, body, condition):
    return (
        f"title: {title}\nlogsource:\n"
        + textwrap.indent(logsource, "  ")
        + "\nfilter:\n  rules: "
        + rules
        + "\n"
        + textwrap.indent(body, "  ")
        + "\n  condition: '"
        + condition
        + "'\n"
    )


RULES = {
    "plain": rule_yaml(
        "Plain",
        "plain",
        "11111111-1111-1111-1111-111111111111",
        "category: process_creation\nproduct: windows",
        "selection:\n  Image: a.exe\ncondition: selection",
    ),
    "them": rule_yaml(
        "Them",
        "them_rule",
        "22222222-2222-2222-2222-222222222222",
        "category: process_creation\nproduct: windows",
        "sel_a:\n  A: 1\nsel_b:\n  B: 2\n_hidden:\n  H: 3\ncondition: 1 of them",
    ),
    "patterns": rule_yaml(
        "Patterns",
        "pattern_rule",
        "33333333-3333-3333-3333-333333333333",
        "category: process_creation\nproduct: windows\nservice: sysmon",
        "selection_one:\n  A: 1\nselection_two:\n  B: 2\nfilter_x:\n  C: 3\n"
        "condition: all of selection_* and not 1 of filter_*",
    ),
    "underscore": rule_yaml(
        "Underscore",
        "underscore_rule",
        "44444444-4444-4444-4444-444444444444",
        "product: windows",
        "_a:\n  A: 1\n_b:\n  B: 2\nnot_x:\n  N: 5\n1st:\n  O: 6\ncondition: (1 of _* or not_x) and 1st",
    ),
    "linux": rule_yaml(
        "Linux",
        "linux_rule",
        "55555555-5555-5555-5555-555555555555",
        "category: process_creation\nproduct: linux",
        "selection:\n  Image: /bin/sh\ncondition: selection",
    ),
    "multi": rule_yaml(
        "Multi",
        "multi_rule",
        "66666666-6666-6666-6666-666666666666",
        "category: process_creation\nproduct: windows",
        "selection:\n  A: 1\nother:\n  B: 2\ncondition:\n  - selection\n  - selection or other\n  - 1 of them",
    ),
    "collide": rule_yaml(
        "Collide",
        "collide_rule",
        "77777777-7777-7777-7777-777777777777",
        "category: process_creation\nproduct: windows",
        "selection:\n  A: 1\n_filt_aaaaaaaaaa_selection:\n  Z: 26\ncondition: selection or _filt_aaaaaaaaaa_selection",
    ),
}

WIN_PC = "category: process_creation\nproduct: windows"

FILTER_BODY = (
    "selection:\n  User: admin\nselection_two:\n  User: svc\nother_allow:\n  Host: h1\n"
    "them:\n  T: 1\nof:\n  O: 2\nall:\n  L: 3\nany:\n  Y: 4\n1:\n  One: 5\nnot_x:\n  N: 6\n"
    "and_more:\n  M: 7\n_private:\n  P: 8\n1st:\n  F: 9\nmy-name:\n  D: 10"
)

CONDITIONS = [
    "not selection",
    "selection",
    "not 1 of them",
    "1 of them",
    "all of them",
    "any of selection*",
    "1 of selection_*",
    "not 1 of *_allow",
    "not (selection or other_allow)",
    "not selection and not selection_two",
    "them",
    "of",
    "all",
    "any or 1",
    "not them and not of",
    "1 of of",
    "1 of them or them",
    "all of all",
    "any of any",
    "not_x",
    "not not_x",
    "and_more and not_x",
    "_private",
    "1 of _*",
    "1st and my-name",
    "1 of 1*",
    "(not(selection)and(1 of selection_*))",
    "  not   selection  ",
    "1  of   them",
    "1 of\tthem",
    "not 1 of (them)",
    "1 of",
    "all of",
    "selection | other_allow",
    "1 of sel*ion",
    "missing",
    "",
    "1 of nothing_*",
]


def describe(collection, backend_factory):
    for rule in collection.rules:
        if not isinstance(rule, SigmaRule):
            print("   ", type(rule).__name__, rule.title)
            continue
        print("    rule", rule.name)
        print("      detections:", [str(k) for k in rule.detection.detections])
        print("      condition :", rule.detection.condition)
        print("      parsed    :", [c.condition for c in rule.detection.parsed_condition])
        try:
            print("      query     :", backend_factory().convert_rule(copy.deepcopy(rule)))
        except Exception as e:  # noqa: BLE001
            print("      query     : EXC", type(e).__name__, e)


def run(label, rule_keys, filters, seed=1234, collect_filters=False, apply_later=False):
    print(f"--- {label}")
    random.seed(seed)
    try:
        docs = [RULES[k] for k in rule_keys] + filters
        collection = SigmaCollection.from_yaml(
            "\n---\n".join(docs), collect_filters=collect_filters or apply_later
        )
        if apply_later:
            collection.apply_filters(collection.filters)
        print("    filters kept:", [f.title for f in collection.filters])
        describe(collection, TextQueryTestBackend)
    except Exception as e:  # noqa: BLE001
        print("    EXC", type(e).__name__, e)
    print("    random state after:", random.random())


# 1. every filter condition shape on a plain rule
for cond in CONDITIONS:
    run(
        f"condition {cond!r}",
        ["plain"],
        [filter_yaml("F", WIN_PC, "any", FILTER_BODY, cond)],
    )

# 2. overlapping names, 'them' and patterns in the rule
for key in ("them", "patterns", "underscore", "multi"):
    for cond in ("not selection", "not 1 of them", "1 of _* or not 1 of selection*", "not_x and 1st"):
        run(
            f"rule {key} / filter {cond!r}",
            [key],
            [filter_yaml("F", "product: windows", "any", FILTER_BODY, cond)],
            seed=99,
        )

# 3. log source relations and rule lists
ALL = ["plain", "them", "patterns", "underscore", "linux"]
for ls in (
    WIN_PC,
    "product: windows",
    "category: process_creation",
    "category: process_creation\nproduct: windows\nservice: sysmon",
    "product: linux",
    "service: sysmon",
    "category: file_event\nproduct: windows",
):
    for rules in (
        "any",
        "ANY",
        "[]",
        "plain",
        "[plain, 33333333-3333-3333-3333-333333333333]",
        "[nobody]",
        "[linux_rule, them_rule, underscore_rule]",
    ):
        run(
            f"logsource {ls!r} rules {rules}",
            ALL,
            [filter_yaml("F", ls, rules, "selection:\n  User: admin", "not selection")],
            seed=7,
        )

# 4. stacked filters, deferred application, collect_filters
F1 = filter_yaml("F1", WIN_PC, "any", "selection:\n  User: admin", "not selection")
F2 = filter_yaml("F2", "product: windows", "[plain, multi_rule]", "selection:\n  Host: h\nsel2:\n  X: y", "not 1 of them")
F3 = filter_yaml("F3", "category: process_creation", "any", "_x:\n  Q: q\nthem:\n  W: w", "not (1 of _* and them)")
run("stacked F1 F2 F3", ["plain", "multi", "linux", "them"], [F1, F2, F3], seed=5)
run("stacked F3 F2 F1", ["plain", "multi", "linux", "them"], [F3, F2, F1], seed=5)
run("collected only", ["plain", "multi"], [F1, F2], seed=5, collect_filters=True)
run("applied later", ["plain", "multi"], [F1, F2], seed=5, apply_later=True)
run("same filter twice", ["plain"], [F1, F1], seed=5)

# 5. scripted draws of the prefix: collisions force another draw
real_choices = random.choices
for script in (
    ["a" * 10, "b" * 10, "a" * 10],
    ["a" * 10, "a" * 10, "a" * 10, "c" * 10, "c" * 10],
    ["z" * 10, "z" * 10],
    ["a" * 10],
):
    draws = []
    queue = list(script)

    def scripted(population, *args, k=1, **kwargs):
        value = list(queue.pop(0))
        draws.append("".join(value))
        assert len(value) == k
        return value

    random.choices = scripted
    try:
        run(f"scripted draws {script}", ["collide", "plain"], [F1], seed=1)
        print("    draws used:", draws, "left:", queue)
    finally:
        random.choices = real_choices

# stacked filters whose draws collide with the prefix of the filter applied before
draws = []
queue = ["q" * 10, "q" * 10, "r" * 10, "q" * 10, "r" * 10, "s" * 10]


def scripted2(population, *args, k=1, **kwargs):
    value = list(queue.pop(0))
    draws.append("".join(value))
    return value


random.choices = scripted2
try:
    run("stacked with colliding draws", ["plain"], [F1, F2, F3], seed=1)
    print("    draws used:", draws, "left:", queue)
finally:
    random.choices = real_choices

# 6. direct use of apply_on_rule: identity of the returned rule and of the mutated lists
random.seed(3)
rule = SigmaRule.from_yaml(RULES["multi"])
cond_list = rule.detection.condition
det_map = rule.detection.detections
flt = SigmaFilter.from_yaml(F2)
res = flt.apply_on_rule(rule)
print("--- direct apply")
print("    same rule:", res is rule, "same condition list:", rule.detection.condition is cond_list,
      "same detection map:", rule.detection.detections is det_map)
print("    condition:", cond_list)
print("    filter untouched:", flt.filter.condition, list(flt.filter.detections))
other = SigmaRule.from_yaml(RULES["linux"])
before = (list(other.detection.condition), list(other.detection.detections))
res = flt.apply_on_rule(other)
print("    untargeted unchanged:", res is other,
      before == (list(other.detection.condition), list(other.detection.detections)))
print("    random state after:", random.random())

# 7. many seeds: prefix shape and the isolation of both sides
ok = True
for seed in range(200):
    random.seed(seed)
    c = SigmaCollection.from_yaml(RULES["them"] + "\n---\n" + F3.replace("category: process_creation", "product: windows"))
    r = c.rules[0]
    names = [str(k) for k in r.detection.detections]
    q = TextQueryTestBackend().convert_rule(r)
    if seed < 5:
        print("    seed", seed, names, q)
    ok = ok and len(q) == 1 and 'H="3"' not in q[0] and q[0].count("Q=") == 1
print("--- 200 seeds consistent:", ok)
sys.exit(0)
