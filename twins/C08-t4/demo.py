"""
Demo for property C08: a failing rule never changes other rules' output; every query is
accounted for. Prints everything observed; output must be identical with and without the patch.
"""
import itertools
import sys
from typing import ClassVar

from sigma.backends.test import TextQueryTestBackend
from sigma.collection import SigmaCollection
from sigma.exceptions import SigmaError
from sigma.processing.conditions import LogsourceCondition, RuleContainsDetectionItemCondition
from sigma.processing.pipeline import ProcessingItem, ProcessingPipeline, QueryPostprocessingItem
from sigma.processing.postprocessing import EmbedQueryTransformation
from sigma.processing.transformations import (
    AddConditionTransformation,
    DetectionItemFailureTransformation,
    FieldMappingTransformation,
    RuleFailureTransformation,
    SetStateTransformation,
)


def rule_yaml(title, detection, product="windows", extra=""):
    return f"""
title: {title}
name: {title.lower().replace(' ', '_')}
status: test
logsource:
    category: test
    product: {product}
{extra}detection:
{detection}
"""


RULES = {
    "ok1": rule_yaml(
        "OK one",
        """    sel:
        fieldA: valueA
        fieldB|contains: va*l?ue
    condition: sel""",
    ),
    "ok_multi": rule_yaml(
        "OK multi",
        """    sel1:
        fieldA: [a, b, c]
    sel2:
        fieldB: 123
    filter:
        fieldC|re: 'x.*y'
    condition:
        - sel1
        - sel2 and not filter
        - 1 of sel*""",
    ),
    "ok_state": rule_yaml(
        "OK state",
        """    sel:
        fieldA|cidr: 192.168.0.0/16
    condition: sel""",
        product="stateful",
    ),
    "ok_null": rule_yaml(
        "OK null and exists",
        """    sel:
        fieldA: null
        fieldB|exists: true
        fieldC|exists: false
    condition: sel""",
    ),
    "fail_pipeline": rule_yaml(
        "Fail pipeline",
        """    sel:
        fieldA: valueA
    condition: sel""",
        product="failme",
    ),
    "fail_item": rule_yaml(
        "Fail detection item",
        """    sel:
        fieldA: valueA
        forbidden: 1
    condition: sel""",
    ),
    "fail_placeholder": rule_yaml(
        "Fail placeholder",
        """    sel:
        fieldA|expand: '%unresolved%'
    condition: sel""",
    ),
    "fail_type": rule_yaml(
        "Fail value type",
        """    sel:
        fieldA: valueA
    keywords:
        - true
    condition:
        - sel
        - keywords""",
    ),
    "fail_notimpl": rule_yaml(
        "Fail not implemented",
        """    sel:
        fieldA|fieldref: fieldB
    condition: sel""",
    ),
    "fail_cond": rule_yaml(
        "Fail condition",
        """    sel:
        fieldA: valueA
    condition:
        - sel
        - sel and missing""",
    ),
}

CORRELATION = """
title: Correlation of OK one
name: corr_ok1
status: test
correlation:
    type: event_count
    rules:
        - ok_one
    group-by:
        - fieldA
    timespan: 5m
    condition:
        gte: 10
"""

CORRELATION_GENERATE = """
title: Correlation of OK multi
name: corr_ok_multi
status: test
correlation:
    type: temporal
    rules:
        - ok_multi
        - ok_null_and_exists
    generate: true
    group-by:
        - fieldA
    timespan: 1h
"""


class DemoBackend(TextQueryTestBackend):
    # no field reference support: NotImplementedError while converting such a value
    field_equals_field_expression: ClassVar[str | None] = None


def make_pipeline():
    return ProcessingPipeline(
        name="demo",
        items=[
            ProcessingItem(
                identifier="map",
                transformation=FieldMappingTransformation({"fieldA": "mappedA"}),
            ),
            ProcessingItem(
                identifier="state",
                transformation=SetStateTransformation("index", "stateful_index"),
                rule_conditions=[LogsourceCondition(product="stateful")],
            ),
            ProcessingItem(
                identifier="fail_rule",
                transformation=RuleFailureTransformation("rule not supported"),
                rule_conditions=[LogsourceCondition(product="failme")],
            ),
            ProcessingItem(
                identifier="fail_item",
                transformation=DetectionItemFailureTransformation("item not supported"),
                rule_conditions=[RuleContainsDetectionItemCondition("forbidden", 1)],
                field_name_conditions=[],
            ),
            ProcessingItem(
                transformation=AddConditionTransformation({"added": "yes"}, name="_cond_added"),
                rule_conditions=[LogsourceCondition(product="stateful")],
                rule_condition_negation=True,
            ),
        ],
        postprocessing_items=[
            QueryPostprocessingItem(
                identifier="embed",
                transformation=EmbedQueryTransformation(prefix="<", suffix=">"),
                rule_conditions=[LogsourceCondition(product="windows")],
            )
        ],
    )


def describe_error(e):
    return f"{type(e).__name__}: {e}"


def show_rules(collection):
    for rule in collection.rules:
        print(
            "    rule",
            repr(rule.title),
            "output=",
            rule._output,
            "result=",
            repr(rule._conversion_result),
            "nstates=",
            None if rule._conversion_states is None else len(rule._conversion_states),
        )
        if rule._conversion_states is not None:
            print(
                "      states",
                [(dict(s.processing_state), len(s.deferred)) for s in rule._conversion_states],
            )


def show_pipeline(backend):
    p = backend.last_processing_pipeline
    print(
        "    pipeline applied=",
        p.applied,
        "ids=",
        sorted(p.applied_ids),
        "state=",
        p.state,
        "fields=",
        {k: sorted(v) for k, v in sorted(p.field_name_applied_ids.items()) if v},
    )


def run(label, docs, with_pipeline, collect, output_format=None, callback=None):
    print(f"== {label} pipeline={with_pipeline} collect={collect} format={output_format}")
    collection = SigmaCollection.from_yaml("---".join(docs))
    backend = DemoBackend(make_pipeline() if with_pipeline else None, collect_errors=collect)
    try:
        result = backend.convert(collection, output_format, callback=callback)
        print("    result:", repr(result))
    except Exception as e:  # noqa
        print("    raised:", describe_error(e), "args=", repr(e.args)[:300])
    print("    errors:", [(r.title, describe_error(e)) for r, e in backend.errors])
    show_rules(collection)
    show_pipeline(backend)
    return backend


def alone(name, with_pipeline, output_format=None):
    collection = SigmaCollection.from_yaml(RULES[name])
    backend = DemoBackend(make_pipeline() if with_pipeline else None, collect_errors=True)
    result = backend.convert(collection, output_format)
    return result, [(r.title, describe_error(e)) for r, e in backend.errors]


def callback_upper_drop(rule, output_format, index, cond, result):
    print("      callback", repr(rule.title), output_format, index, type(cond).__name__, repr(result))
    if index == 1:
        return None
    return None if result is None else result.upper()


def callback_boom(rule, output_format, index, cond, result):
    if rule.title == "OK multi" and index == 2:
        raise ValueError("boom in callback", "second arg")
    if rule.title == "OK null and exists":
        raise KeyError("single arg ")
    return result


def main():
    names = list(RULES)

    print("#### per-rule conversions alone")
    for with_pipeline in (False, True):
        for fmt in (None, "state"):
            for name in names:
                print(name, with_pipeline, fmt, "->", alone(name, with_pipeline, fmt))

    print("#### whole collection, all rules, several orders")
    orders = [names, list(reversed(names)), names[4:] + names[:4]]
    for order in orders:
        for with_pipeline, collect in itertools.product((False, True), (True, False)):
            run("+".join(order), [RULES[n] for n in order], with_pipeline, collect)

    print("#### every failing rule in every position between two good rules")
    failing = [n for n in names if n.startswith("fail")]
    for f in failing:
        for pos in range(3):
            order = ["ok_multi", "ok_state"]
            order.insert(pos, f)
            run("+".join(order), [RULES[n] for n in order], True, True, "state")

    print("#### output formats")
    for fmt in ("test", "state", "str", "bytes", "list_of_dict", "unknown_format"):
        run("formats", [RULES[n] for n in ("ok_state", "fail_cond", "ok1", "ok_multi")], True, True, fmt)
        run("formats", [RULES[n] for n in ("ok_state", "ok1")], True, False, fmt)

    print("#### callbacks")
    for collect in (True, False):
        run(
            "callback upper/drop",
            [RULES[n] for n in ("ok_multi", "fail_type", "ok1", "ok_null")],
            True,
            collect,
            None,
            callback_upper_drop,
        )
        run(
            "callback boom",
            [RULES[n] for n in ("ok1", "ok_multi", "ok_null")],
            False,
            collect,
            "test",
            callback_boom,
        )
        run("callback boom 2", [RULES[n] for n in ("ok1", "ok_null")], False, collect, None, callback_boom)

    print("#### correlation rules")
    for collect in (True, False):
        for with_pipeline in (False, True):
            run(
                "correlations",
                [RULES["ok1"], RULES["fail_cond"], CORRELATION, RULES["ok_multi"], RULES["ok_null"],
                 CORRELATION_GENERATE, RULES["ok_state"]],
                with_pipeline,
                collect,
            )
            run(
                "correlation with failing referenced rule",
                [RULES["ok_multi"].replace("fieldB: 123", "fieldB|fieldref: other"), RULES["ok_null"],
                 CORRELATION_GENERATE, RULES["ok1"]],
                with_pipeline,
                collect,
            )
    # unsupported correlation method
    collection = SigmaCollection.from_yaml("---".join([RULES["ok1"], CORRELATION, RULES["ok_state"]]))
    for collect in (True, False):
        backend = DemoBackend(make_pipeline(), collect_errors=collect)
        try:
            print("    result:", backend.convert(collection, "state", correlation_method="nonexistent"))
        except Exception as e:  # noqa
            print("    raised:", describe_error(e))
        print("    errors:", [(r.title, describe_error(e)) for r, e in backend.errors])

    print("#### convert_rule directly, backend reused across formats")
    backend = DemoBackend(make_pipeline(), collect_errors=True)
    collection = SigmaCollection.from_yaml("---".join(RULES[n] for n in names))
    for fmt in (None, "state", "state", "test", None, "nope"):
        for rule in collection.rules:
            try:
                print("   ", fmt, repr(rule.title), "->", backend.convert_rule(rule, fmt))
            except Exception as e:  # noqa
                print("   ", fmt, repr(rule.title), "raised", describe_error(e))
        print("    format now:", backend.last_processing_pipeline_format)
    print("    errors:", [(r.title, describe_error(e)) for r, e in backend.errors])
    backend2 = DemoBackend(None, collect_errors=False)
    print("    has pipeline before:", hasattr(backend2, "last_processing_pipeline"))
    print("    ", backend2.convert_rule(SigmaCollection.from_yaml(RULES["ok_multi"]).rules[0]))
    backend2.last_processing_pipeline = None
    print("    ", backend2.convert_rule(SigmaCollection.from_yaml(RULES["ok1"]).rules[0], "test"))
    print("    format now:", backend2.last_processing_pipeline_format)
    try:
        backend2.convert_rule(SigmaCollection.from_yaml(RULES["fail_notimpl"]).rules[0])
    except Exception as e:  # noqa
        print("    raised", describe_error(e))


if __name__ == "__main__":
    main()
    sys.exit(0)
