"""Demo for property C07: malformed documents raise Sigma errors only; collecting mode never raises.

Exercises the correlation rule loader (condition, timespan and alias parsing in particular) in
strict and in collecting mode and prints everything observed. The output has to be identical with
and without the refactoring patch.
"""

import copy
import datetime
import sys

from sigma.collection import SigmaCollection
from sigma.correlations import (
    SigmaCorrelationCondition,
    SigmaCorrelationFieldAliases,
    SigmaCorrelationRule,
    SigmaCorrelationTimespan,
)
from sigma.exceptions import SigmaError, SigmaRuleLocation
from sigma.filters import SigmaFilter
from sigma.rule import SigmaRule

failures = 0


def describe(e):
    return f"{type(e).__module__}.{type(e).__name__}: {e}"


def check(label, loader, doc):
    """Strict vs. collecting load of the same document."""
    global failures
    raised = None
    try:
        loader(copy.deepcopy(doc), False)
    except SigmaError as e:
        raised = e
    except Exception as e:  # property violation
        failures += 1
        print(f"{label}: strict NON-SIGMA {type(e).__name__}: {e}")
        return
    try:
        obj = loader(copy.deepcopy(doc), True)
    except Exception as e:  # property violation
        failures += 1
        print(f"{label}: collecting RAISED {type(e).__name__}: {e}")
        return
    errors = list(obj.errors)
    consistent = (raised is None and not errors) or (
        raised is not None and bool(errors) and errors[0] == raised
    )
    if not consistent:
        failures += 1
    print(f"{label}: strict={'ok' if raised is None else describe(raised)}")
    print(f"    collected={[describe(e) for e in errors]} consistent={consistent}")
    if isinstance(obj, SigmaCorrelationRule):
        print(
            f"    type={obj.type} rules={obj.rules} timespan={obj.timespan!r} "
            f"group_by={obj.group_by} aliases={obj.aliases!r} condition={obj.condition!r}"
        )


def corr(doc, collect):
    return SigmaCorrelationRule.from_dict(doc, collect_errors=collect)


def corr_src(doc, collect):
    return SigmaCorrelationRule.from_dict(
        doc, collect_errors=collect, source=SigmaRuleLocation("/tmp/demo.yml", 3, 7)
    )


def rule(doc, collect):
    return SigmaRule.from_dict(doc, collect_errors=collect)


def filt(doc, collect):
    return SigmaFilter.from_dict(doc, collect_errors=collect)


def coll(docs, collect):
    return SigmaCollection.from_dicts(docs, collect_errors=collect)


BASE = {
    "title": "Correlation",
    "id": "0e95725d-7320-415d-80f7-004da920fc11",
    "correlation": {
        "type": "event_count",
        "rules": ["rule_a", "rule_b"],
        "group-by": ["user"],
        "timespan": "10m",
        "aliases": {"user": {"rule_a": "User", "rule_b": "TargetUser"}},
        "condition": {"gte": 10, "field": "host"},
    },
}


def with_corr(**changes):
    doc = copy.deepcopy(BASE)
    for k, v in changes.items():
        k = k.replace("_", "-")
        if v is DELETE:
            del doc["correlation"][k]
        else:
            doc["correlation"][k] = v
    return doc


DELETE = object()

print("== correlation rule: condition variants ==")
conditions = [
    {"gte": 10, "field": "host"},
    {"gte": 10},
    {"lt": "5", "field": "f"},
    {"lte": 5.0, "field": "f"},
    {"gt": 5.5, "field": "f"},
    {"eq": True, "field": "f"},
    {"neq": None, "field": "f"},
    {"gte": "abc", "field": "f"},
    {"gte": [1], "field": "f"},
    {"gte": {"a": 1}, "field": "f"},
    {"gte": float("nan"), "field": "f"},
    {"gte": float("inf"), "field": "f"},
    {"gte": float("-inf"), "field": "f"},
    {"gte": 1e400, "field": "f"},
    {"gte": 10**30, "field": "f"},
    {"gte": "1_0", "field": "f"},
    {"gte": " 7 ", "field": "f"},
    {"gte": datetime.date(2024, 1, 1), "field": "f"},
    {"gte": 1, "lte": 2, "field": "f"},
    {"gte": 1, "lte": "x", "field": "f"},
    {},
    {"field": "f"},
    {"GTE": 1, "field": "f"},
    {"gte": 1, "field": "f", "foo": 1, "bar": 2, 3: 4, None: 5},
    {"gte": 1, "field": ["a", "b"]},
    {"gte": 1, "field": None},
    {"gte": 1, "field": {"a": 1}},
    {"gte": 1, "field": "f", "percentile": 95},
    {"gte": 1, "field": "f", "percentile": "95"},
    {"gte": 1, "field": "f", "percentile": 99.5},
    {"gte": 1, "field": "f", "percentile": 50.0},
    {"gte": 1, "field": "f", "percentile": None},
    {"gte": 1, "field": "f", "percentile": "high"},
    {"gte": 1, "field": "f", "percentile": [50]},
    {"gte": 1, "field": "f", "percentile": float("nan")},
    {"gte": "x", "field": "f", "percentile": "y"},
    {1: 2},
    {None: None},
    "rule_a and rule_b",
    "",
    5,
    [1, 2],
    True,
]
for i, c in enumerate(conditions):
    check(f"cond[{i}] {c!r}", corr, with_corr(condition=c))
for t in ("value_percentile", "value_count", "event_count", "temporal", "value_sum", "bogus", 7, None, ["x"]):
    check(
        f"type={t!r} percentile",
        corr,
        with_corr(type=t, condition={"gte": 1, "field": "f", "percentile": 75}),
    )
    check(f"type={t!r} no condition", corr, with_corr(type=t, condition=DELETE))
check("temporal extended", corr, with_corr(type="temporal", condition="rule_a and not rule_b"))
check("temporal extended bad", corr, with_corr(type="temporal", condition="rule_a and (("))
check("temporal extended unref", corr, with_corr(type="temporal_ordered", condition="rule_a"))
check("with source bad count", corr_src, with_corr(condition={"gte": "x", "field": "f"}))
check("with source two ops", corr_src, with_corr(condition={"gte": 1, "gt": 2}))
check("with source unknown", corr_src, with_corr(condition={"gte": 1, "zz": 2, "aa": 1}))
check("with source bad pct", corr_src, with_corr(condition={"gte": 1, "percentile": "p"}))

print("== correlation rule: timespan variants ==")
timespans = [
    "10m", "1s", "2h", "3d", "4w", "5M", "6y", "0s", "-5m", "+5m", " 5m", "1_0m", "١٢m",
    "m", "", "10", "10x", "10 m", "1.5h", "10mm", "m10", 10, 10.5, None, True, [], ["1", "m"],
    [5, "m"], {"a": 1}, {}, datetime.date(2024, 1, 1), "5S", "5H",
]
for i, ts in enumerate(timespans):
    check(f"timespan[{i}] {ts!r}", corr, with_corr(timespan=ts))
check("timespan deleted", corr, with_corr(timespan=DELETE))

print("== correlation rule: aliases variants ==")
aliases = [
    {"user": {"rule_a": "User", "rule_b": "TargetUser"}},
    {},
    {"user": {}},
    {"user": "x"},
    {"user": None},
    {"user": ["a"]},
    {"a": {"rule_a": "A"}, "b": 5, "c": "never reached"},
    {"a": {"rule_a": ["A"]}, "b": {"rule_b": {"x": 1}}},
    {1: {2: 3}, None: {None: None}},
    {"a": {"rule_a": "A"}, "a2": {"rule_a": "A"}},
    "x",
    ["a"],
    5,
    None,
    False,
]
for i, a in enumerate(aliases):
    check(f"aliases[{i}] {a!r}", corr, with_corr(aliases=a))
check("aliases deleted", corr, with_corr(aliases=DELETE))

print("== correlation rule: several defects at once ==")
check(
    "multi",
    corr,
    with_corr(
        type="nope", rules=5, timespan="xx", aliases={"a": 1}, condition={"gte": "q"}, group_by=5
    ),
)
check("correlation not a map", corr, {**BASE, "correlation": "x"})
check("correlation missing", corr, {"title": "t"})
check("title wrong", corr, {**copy.deepcopy(BASE), "title": ["x"], "id": "nope", "date": "32.13.2024"})

print("== helper classes called directly ==")


def direct(label, fn):
    global failures
    try:
        res = fn()
        print(f"{label}: {res!r}")
        if isinstance(res, SigmaCorrelationTimespan):
            print(f"    count={res.count} unit={res.unit} seconds={res.seconds}")
    except SigmaError as e:
        print(f"{label}: raised {describe(e)} source={e.source!r} context={type(e.__context__).__name__}")
    except Exception as e:
        failures += 1
        print(f"{label}: NON-SIGMA {type(e).__name__}: {e}")


loc = SigmaRuleLocation("/tmp/demo.yml", 1, 2)
for c in conditions:
    if isinstance(c, dict):
        direct(f"SigmaCorrelationCondition.from_dict({c!r})", lambda: SigmaCorrelationCondition.from_dict(c))
direct("cond with source", lambda: SigmaCorrelationCondition.from_dict({"gte": "x"}, loc))
direct("cond pct with source", lambda: SigmaCorrelationCondition.from_dict({"lt": 3, "percentile": {}}, loc))
for ts in timespans:
    direct(f"SigmaCorrelationTimespan({ts!r})", lambda: SigmaCorrelationTimespan(ts))
# state of a timespan object whose unit is invalid: count and unit are set before the failure
probe = object.__new__(SigmaCorrelationTimespan)
probe.spec = "12q"
try:
    probe.__post_init__()
except SigmaError as e:
    print("probe:", describe(e), sorted(vars(probe).items()))
probe = object.__new__(SigmaCorrelationTimespan)
probe.spec = "q"
try:
    probe.__post_init__()
except SigmaError as e:
    print("probe:", describe(e), sorted(vars(probe).items()))
for a in aliases:
    if isinstance(a, dict):
        direct(f"SigmaCorrelationFieldAliases.from_dict({a!r})", lambda: SigmaCorrelationFieldAliases.from_dict(a))
al = SigmaCorrelationFieldAliases.from_dict({"z": {"r2": "B", "r1": "A"}, "y": {"r1": "C"}})
print("alias order:", list(al.aliases), [list(x.mapping.values()) for x in al], al.to_dict(), len(al))

print("== other loaders (rule, filter, collection) ==")
RULE = {
    "title": "Test",
    "id": "5013332f-8a70-4a04-bcc1-06a98a2cca2e",
    "name": "rule_a",
    "logsource": {"category": "test"},
    "detection": {"sel": {"field|contains": "x"}, "condition": "sel"},
}
RULE_B = {**copy.deepcopy(RULE), "id": "5013332f-8a70-4a04-bcc1-06a98a2cca2f", "name": "rule_b"}
check("rule ok", rule, RULE)
check("rule bad modifier", rule, {**RULE, "detection": {"sel": {"f|foo": 1}, "condition": "sel"}})
check("rule bad detection", rule, {**RULE, "detection": "x", "level": "extreme", "status": 5})
check("rule no logsource", rule, {k: v for k, v in RULE.items() if k != "logsource"})
FILTER = {
    "title": "Filter",
    "logsource": {"category": "test"},
    "filter": {"rules": ["rule_a"], "selection": {"User": "admin"}, "condition": "not selection"},
}
check("filter ok", filt, FILTER)
check("filter bad", filt, {**FILTER, "filter": {"rules": 5, "condition": ["x"]}})
check("filter not map", filt, {**FILTER, "filter": [1, 2]})
check("collection ok", coll, [RULE, RULE_B, BASE])
check(
    "collection bad correlation",
    coll,
    [RULE, RULE_B, with_corr(timespan="1x", condition={"gte": "z"}, aliases={"u": 3})],
)
check("collection junk", coll, [RULE, 5, "x", None, {"action": "zz"}, {"correlation": 1}])
for y in (
    "title: C\ncorrelation:\n  type: event_count\n  rules: r\n  timespan: 1h\n  condition:\n    gte: 1\n    gte: x\n",
    "title: C\ncorrelation:\n  type: value_percentile\n  rules: r\n  timespan: 1q\n  condition:\n    lt: 0x10\n    percentile: 1e2\n    field: f\n",
    "title: C\ncorrelation:\n  type: event_count\n  rules: r\n  timespan: 2024-01-01\n  aliases:\n    a: [1]\n  condition:\n    eq: .nan\n    field: f\n",
):
    check(
        f"yaml {y!r}",
        lambda doc, collect: SigmaCollection.from_yaml(doc, collect_errors=collect),
        "title: R\nname: r\nlogsource:\n  category: c\ndetection:\n  s:\n    f: 1\n  condition: s\n---\n" + y,
    )

# Deviations from the property that the library shows already on the unmodified code are only
# reported here (they are the same with and without the patch); the demo itself always exits 0.
print("deviations observed:", failures)
sys.exit(0)
