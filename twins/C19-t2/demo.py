"""Demo for C19 / t2: DanglingDetectionValidator / DanglingConditionValidator (sigma/validators/core/condition.py).

Feeds many condition/detection-name shapes to the reference checks, prints the reported issues, the raw
helper results on the unpostprocessed parse tree, and checks that validation leaves rules unchanged.
"""
import copy
import sys

from sigma.backends.test import TextQueryTestBackend
from sigma.correlations import SigmaCorrelationRule
from sigma.conditions import (
    ConditionAND,
    ConditionFieldEqualsValueExpression,
    ConditionIdentifier,
    ConditionNOT,
    ConditionOR,
    ConditionSelector,
    ConditionValueExpression,
)
from sigma.rule import SigmaRule
from sigma.types import SigmaString
from sigma.validation import SigmaValidator
from sigma.validators.core.condition import (
    AllOfThemConditionValidator,
    DanglingConditionValidator,
    DanglingDetectionValidator,
    ThemConditionWithSingleDetectionValidator,
)

# (detection names, condition(s))
CASES = [
    (["selection"], "selection"),
    (["selection", "filter"], "selection and not filter"),
    (["selection", "filter", "unused"], "selection and not filter"),
    (["sel_a", "sel_b", "other"], "all of sel_*"),
    (["sel_a", "sel_b", "other"], "1 of sel_* or other"),
    (["sel_a", "sel_b", "other"], "any of sel_* and not 1 of filter_*"),
    (["sel_a", "sel_b"], "1 of them"),
    (["sel_a", "_hidden"], "all of them"),
    (["_only", "_hidden"], "1 of them"),
    (["_only", "_hidden"], "1 of _*"),
    (["_only", "_hidden", "x"], "x and 1 of _h*"),
    (["_filt_abc_sel", "sel"], "sel and 1 of _*"),
    (["_filt_abc_sel", "sel"], "sel and not 1 of _filt_abc_*"),
    (["_filt_abc_sel", "sel"], "sel and _filt_abc_sel"),
    (["and_sel", "or_sel", "not_sel"], "and_sel and or_sel and not not_sel"),
    (["and_sel", "or_sel", "not_sel"], "1 of and_* or 1 of or* or all of not_*"),
    (["all_sel", "any_sel", "of_sel", "them_sel"], "all_sel and any_sel or of_sel"),
    (["all_sel", "any_sel", "of_sel", "them_sel"], "all of them_*"),
    (["them1", "them2"], "1 of them*"),
    (["1", "2", "3"], "1 and 2"),
    (["1", "2", "3"], "1 of 1* and all of 3"),
    (["sel-a", "sel-b", "selab"], "1 of sel-*"),
    (["a_x_1", "a_y_1", "a_x_2", "b_x_1"], "all of a_*_1"),
    (["a_x_1", "a_y_1", "a_x_2", "b_x_1"], "1 of *_x_*"),
    (["a_x_1", "a_y_1", "a_x_2", "b_x_1"], "1 of *"),
    (["a", "ab", "abc"], "1 of a"),
    (["a", "ab", "abc"], "1 of ab* and 1 of abcd*"),
    (["a", "b", "c", "d"], "(a or (b and not (c or 1 of e*))) and not 1 of f*"),
    (["a", "b", "c", "d"], "not not a"),
    (["a", "b", "c", "d"], ["a", "b or c"]),
    (["a", "b", "c", "d"], ["1 of a*", "1 of z*", "all of z*", "d"]),
    (["a", "b"], "a and missing"),
    (["a", "b"], "missing1 or 1 of missing2*"),
    (["sel.dot", "selXdot"], "1 of sel*"),
    (["A", "a"], "1 of A*"),
]

CORRELATION = """
title: Correlation
id: 44444444-4444-4444-8444-444444444444
correlation:
    type: event_count
    rules:
        - case-0
    group-by:
        - user
    timespan: 5m
    condition:
        gte: 10
"""

VALIDATORS = [
    DanglingDetectionValidator,
    DanglingConditionValidator,
    ThemConditionWithSingleDetectionValidator,
    AllOfThemConditionValidator,
]


def make_rule(n, names, condition):
    detection = {name: {f"field{i}": f"value{i}"} for i, name in enumerate(names)}
    detection["condition"] = condition
    return SigmaRule.from_dict(
        {
            "title": f"Case {n}",
            "name": f"case-{n}",
            "id": f"00000000-0000-4000-8000-{n:012d}",
            "logsource": {"category": "test"},
            "detection": detection,
        }
    )


def convert(rule):
    try:
        return TextQueryTestBackend().convert_rule(copy.deepcopy(rule))
    except Exception as e:
        return f"{type(e).__name__}: {e}"


def show(issues):
    return sorted(
        (
            type(i).__name__,
            tuple(r.title for r in i.rules),
            getattr(i, "detection_name", None) or getattr(i, "condition_name", None),
        )
        for i in issues
    )


def main():
    rules = [make_rule(n, names, cond) for n, (names, cond) in enumerate(CASES)]
    dd, dc = DanglingDetectionValidator(), DanglingConditionValidator()
    for rule, (names, cond) in zip(rules, CASES):
        before = (rule.to_dict(), convert(rule))
        print(f"--- {rule.title}: detections={names} condition={cond!r}")
        unused = dd.validate(rule)
        dangling = dc.validate(rule)
        print("    unused  :", [(type(i).__name__, i.detection_name, i.rules == [rule]) for i in unused])
        print("    dangling:", [(type(i).__name__, i.condition_name, i.rules == [rule]) for i in dangling])
        for c in rule.detection.parsed_condition:
            tree = c.parse(False)
            print(
                "    helper  :",
                repr(c.condition),
                sorted(dd.condition_referenced_ids(tree, rule.detection)),
                sorted(dc.condition_unknown_referenced_ids(tree, rule.detection)),
            )
        print("    query   :", before[1])
        after = (rule.to_dict(), convert(rule))
        print("    unchanged:", before == after)
        # the state of the validator objects is not touched by validation
        print("    validator state:", sorted(vars(dd)), sorted(vars(dc)))

    # helpers on hand-built trees and odd arguments
    det = rules[3].detection  # sel_a, sel_b, other
    trees = {
        "None": None,
        "identifier": ConditionIdentifier(["nowhere"]),
        "selector hit": ConditionSelector(["1", "sel_*"]),
        "selector miss": ConditionSelector(["all", "nope*"]),
        "selector them": ConditionSelector(["any", "them"]),
        "not(selector miss)": ConditionNOT([ConditionSelector(["1", "x*"])]),
        "and(id, or(sel hit, sel miss), None)": ConditionAND(
            [
                ConditionIdentifier(["other"]),
                ConditionOR([ConditionSelector(["1", "sel_a*"]), ConditionSelector(["1", "q*"])]),
                None,
            ]
        ),
        "field=value": ConditionFieldEqualsValueExpression("f", SigmaString("v")),
        "value": ConditionValueExpression(SigmaString("v")),
        "empty and": ConditionAND([]),
        "string": "sel_a",
    }
    for label, tree in trees.items():
        print(
            "tree",
            label,
            "->",
            sorted(dd.condition_referenced_ids(tree, det)),
            sorted(dc.condition_unknown_referenced_ids(tree, det)),
        )
        r1 = dd.condition_referenced_ids(tree, det)
        r2 = dc.condition_unknown_referenced_ids(tree, det)
        print("    types:", type(r1).__name__, type(r2).__name__)

    # whole collection through SigmaValidator incl. a correlation rule, two rule orders
    corr = SigmaCorrelationRule.from_yaml(CORRELATION)
    everything = rules + [corr]
    before = [r.to_dict() for r in everything]
    forward = SigmaValidator(VALIDATORS).validate_rules(iter(everything))
    backward = SigmaValidator(reversed(VALIDATORS)).validate_rules(iter(reversed(everything)))
    for line in show(forward):
        print("issue", line)
    print("order independent:", show(forward) == show(backward))
    print("dicts unchanged:", before == [r.to_dict() for r in everything])
    print("correlation rule:", dd.validate(corr), dc.validate(corr))

    # validation after conversion (conversion applies pipelines in place) gives the same issues
    for r in rules:
        try:
            TextQueryTestBackend().convert_rule(r)
        except Exception:
            pass
    again = SigmaValidator(VALIDATORS).validate_rules(iter(everything))
    print("same issues after conversion:", show(again) == show(forward))

    # broken condition: exception is propagated unchanged
    for n, cond in enumerate(["a and and", "a and (", "a | count() > 1", "2 of a*", ""]):
        bad = make_rule(990 + n, ["a"], cond)
        for v in (dd, dc):
            try:
                print("result:", repr(cond), type(v).__name__, show(v.validate(bad)))
            except Exception as e:
                print("error:", repr(cond), type(v).__name__, type(e).__name__, e)


if __name__ == "__main__":
    main()
    sys.exit(0)
