"""Demo for property C19: validation only observes; exclusions, reference checks and uniqueness.

Prints everything it observes; the output must be identical with and without the patch.
"""
import itertools
import sys
from uuid import UUID

from sigma.backends.test import TextQueryTestBackend
from sigma.collection import SigmaCollection
from sigma.exceptions import SigmaConfigurationError, SigmaError
from sigma.rule import SigmaRule
from sigma.validation import SigmaValidator
from sigma.validators.base import SigmaRuleValidator, SigmaValidationIssue
from sigma.validators.core import validators as _BUILTIN

# attacktag / d3_fendtag download MITRE data on first use: no network here, leave them out
ALL = {k: v for k, v in _BUILTIN.items() if k not in ("attacktag", "d3_fendtag")}

RULES = {
    "plain": """
title: Plain
id: 11111111-1111-1111-1111-111111111111
status: test
logsource: {category: process_creation, product: windows}
detection:
    selection:
        CommandLine|contains: 'foo'
    filter_main:
        Image|endswith: '\\\\bar.exe'
    unused_one:
        User: admin
    condition: selection and not 1 of filter_*
""",
    "dangling": """
title: Dangling
id: 22222222-2222-2222-2222-222222222222
logsource: {category: test}
detection:
    sel_a:
        a: 1
    _underscore:
        b: '2'
    keywords:
        - 'foo*'
        - '*bar*'
    condition: sel_a and 1 of missing_* and all of them
""",
    "dup_id_1": """
title: Same Title
id: 11111111-1111-1111-1111-111111111111
logsource: {product: windows, service: security}
detection:
    not_this:
        EventID: 4688
    all_sel:
        f|all: ['*a*', '*b*']
    condition: not_this or all_sel
""",
    "dup_title": """
title: Same Title
id: 33333333-3333-3333-3333-333333333333
logsource: {product: windows, service: sysmon}
detection:
    selection:
        EventID: [1, 255, 7]
        p|base64offset: 'abc'
        q|contains|contains: 'x**y'
        r: "tab\\there\there"
        s: '\\*esc'
    condition: 1 of them
""",
    "no_id": """
title: No Id
logsource: {category: test, zzz: custom}
detection:
    a:
        - f1: v1
          f2|startswith: 'v*'
        - f3: '*v3'
    b:
        f: '123'
    condition:
        - a
        - 1 of b*
""",
    "no_id2": """
title: No Id
logsource: {category: test}
tags: [attack.t1234, attack.T1234, foo.bar, attack.t1234]
detection:
    selection:
        f|windash|all: ['-a', '-b']
    condition: all of them
""",
}

CORRELATION = """
title: Base
name: base_rule
id: 44444444-4444-4444-4444-444444444444
logsource: {category: test}
detection:
    selection: {f: v}
    unused: {g: '1'}
    condition: selection
---
title: Corr
id: 55555555-5555-5555-5555-555555555555
tags: [foo.bar, tlp.purple]
correlation:
    type: event_count
    rules: [base_rule]
    group-by: [f]
    timespan: 5m
    condition: {gte: 10}
"""


def show(issue: SigmaValidationIssue, sort_rules: bool = False) -> str:
    extra = {
        k: (sorted(map(repr, v)) if isinstance(v, (set, frozenset)) else str(v))
        for k, v in vars(issue).items()
        if k != "rules"
    }
    titles = [r.title for r in issue.rules]
    return f"{type(issue).__name__} rules={sorted(titles) if sort_rules else titles} {extra}"


def load(names):
    return [SigmaRule.from_yaml(RULES[n]) for n in names]


def snapshot(rules):
    backend = TextQueryTestBackend()
    out = []
    for r in rules:
        try:
            q = backend.convert_rule(r)
        except SigmaError as e:
            q = f"{type(e).__name__}: {e}"
        out.append((repr(r.to_dict()), repr(q)))
    return out


def section(t):
    print(f"\n===== {t} =====")


# ---------------------------------------------------------------- 1: all validators
section("1 all validators, issue list in order; rules unchanged")
names = list(RULES)
rules = load(names)
before = snapshot(load(names))
v = SigmaValidator(ALL.values())
print("validator order:", [type(x).__name__ for x in v.validators])
issues = v.validate_rules(iter(rules))
for i in issues:
    print(" ", show(i))
print("str() of first issues:")
for i in issues[:6]:
    print("   ", str(i))
after = snapshot(rules)
print("rules unchanged (dict, query):", before == after)
print("validate after conversion gives same issues:",
      [show(i) for i in SigmaValidator(ALL.values()).validate_rules(iter(rules))] == [show(i) for i in issues])

# ---------------------------------------------------------------- 2: orders
section("2 issue multiset independent of rule order and validator order")
ref = sorted(show(i, True) for i in issues)
ok = True
count = 0
for k, perm in enumerate(itertools.permutations(names)):
    if k % 37:
        continue
    cls = list(ALL.values())
    cls = cls[k % len(cls):] + cls[: k % len(cls)]
    if k % 2:
        cls.reverse()
    got = sorted(show(i, True) for i in SigmaValidator(cls + cls[:3]).validate_rules(iter(load(perm))))
    ok = ok and got == ref
    count += 1
print("sampled orders:", count, "all agree (groups compared as sets of rules):", ok)

# ---------------------------------------------------------------- 3: from_dict
section("3 from_dict: validators / exclusions / config")
CONFIGS = [
    {"validators": ["all"]},
    {"validators": ["all", "-dangling_detection", "-number_as_string"]},
    {"validators": ["dangling_detection", "dangling_condition", "identifier_uniqueness", "duplicate_title"]},
    {"validators": ["dangling_detection", "all", "-all_of_them_condition"]},
    {"validators": ["dangling_detection", "-dangling_detection", "duplicate_title", "duplicate_title"]},
    {},
    {"validators": []},
    {
        "validators": ["all"],
        "exclusions": {
            "11111111-1111-1111-1111-111111111111": ["dangling_detection", "identifier_uniqueness"],
            "{22222222-2222-2222-2222-222222222222}": "dangling_condition",
            "22222222222222222222222222222222": ["dangling_detection"],
            "urn:uuid:22222222-2222-2222-2222-222222222222": ["all_of_them_condition", "dangling_detection"],
            "33333333-3333-3333-3333-333333333333": [],
            None: ["identifier_existence", "duplicate_title"],
        },
    },
    {
        "validators": ["dangling_detection", "number_as_string"],
        "exclusions": {"99999999-9999-9999-9999-999999999999": "dangling_detection"},
        "config": {"number_as_string": {}, "dangling_detection": {}},
    },
    {"validators": ["all"], "config": {"tlptag": {}}},
    # error cases
    {"validators": ["-dangling_detection"]},
    {"validators": ["duplicate_title", "all_of_them_condition", "-nonexistent"]},
    {"validators": ["nonexistent"]},
    {"validators": ["all", "nonexistent", "-nonexistent", "zzz"]},
    {"validators": ["all"], "exclusions": {"11111111-1111-1111-1111-111111111111": "nonexistent"}},
    {"validators": ["all"], "exclusions": {"11111111-1111-1111-1111-111111111111": ["dangling_detection", "nope"]}},
    {"validators": ["all"], "exclusions": {"not-a-uuid": "dangling_detection"}},
    {"validators": ["all"], "exclusions": {12345: "dangling_detection"}},
    {"validators": ["nonexistent"], "exclusions": {"not-a-uuid": "nope"}, "config": {"nope": 1}},
    {"validators": ["all"], "config": {"nonexistent": {}}},
    {"validators": ["all"], "config": {"dangling_detection": "notadict"}},
    {"validators": ["all"], "config": {"dangling_detection": {"unexpected": 1}}},
    {"validators": ["all"], "config": {"number_as_string": {}, "nonexistent": [], "dangling_detection": 1}},
    {"validators": [1]},
]
for n, cfg in enumerate(CONFIGS):
    print(f"-- config {n}: {cfg}")
    try:
        sv = SigmaValidator.from_dict(cfg, ALL)
    except Exception as e:  # noqa
        ctx = type(e.__context__).__name__ if e.__context__ is not None else None
        print(f"   raised {type(e).__name__}: {e} (context {ctx})")
        continue
    print("   validators:", [type(x).__name__ for x in sv.validators])
    print("   exclusions:", type(sv.exclusions).__name__,
          sorted((str(k), sorted(c.__name__ for c in s)) for k, s in sv.exclusions.items()))
    rules = load(names)
    before = snapshot(load(names))
    per_rule = [(r.title, [show(i) for i in sv.validate_rule(r)]) for r in rules]
    fin = [show(i) for i in sv.finalize()]
    print("   #issues per rule:", [(t, len(l)) for t, l in per_rule], "finalize:", len(fin))
    for t, l in per_rule:
        for s in l:
            if "Dangling" in s or "AllOfThem" in s or "IdentifierExistence" in s:
                print("     ", s)
    for s in fin:
        print("     ", s)
    print("   rules unchanged:", snapshot(rules) == before)
    print("   exclusion keys after run:", sorted(str(k) for k in sv.exclusions))

# ---------------------------------------------------------------- 4: from_yaml
section("4 from_yaml")
sv = SigmaValidator.from_yaml(
    """
validators:
    - all
    - -dangling_detection
exclusions:
    11111111-1111-1111-1111-111111111111:
        - identifier_uniqueness
    22222222-2222-2222-2222-222222222222: dangling_condition
config:
    number_as_string: {}
""",
    ALL,
)
print(len(sv.validators), sorted((str(k), sorted(c.__name__ for c in s)) for k, s in sv.exclusions.items()))
for i in sv.validate_rules(iter(load(names))):
    if "Dangling" in show(i) or "Uniq" in show(i):
        print(" ", show(i))

# ---------------------------------------------------------------- 5: constructor
section("5 constructor: duplicates, generators, config, custom validators")


class CountingValidator(SigmaRuleValidator):
    def __init__(self, start=0, step=1):
        self.count = start
        self.step = step
        self.seen = []

    def validate(self, rule):
        super().validate(rule)
        self.count += self.step
        self.seen.append(rule.title)
        return []

    def finalize(self):
        print("   CountingValidator finalize:", self.count, self.seen)
        return []


class ABCValidator(SigmaRuleValidator):
    def validate(self, rule):
        return []


sv = SigmaValidator(
    (c for c in [CountingValidator, ALL["dangling_detection"], ABCValidator, CountingValidator]),
    {UUID("11111111-1111-1111-1111-111111111111"): {CountingValidator}},
    {"counting": {"start": 10, "step": 5}, "abc": {}, "unused": {"x": 1}},
)
print("   validators:", [type(x).__name__ for x in sv.validators])
res = sv.validate_rules(iter(load(names)))
print("   issues:", [show(i) for i in res])
try:
    SigmaValidator([CountingValidator], config={"counting": {"bogus": 1}})
except TypeError as e:
    print("   TypeError:", e)
try:
    SigmaValidator([ABCValidator, CountingValidator], config={"abc": {"bogus": 1}, "counting": {"bogus": 2}})
except TypeError as e:
    print("   TypeError:", e)
print("   empty:", SigmaValidator([]).validate_rules(iter(load(names))))

# ---------------------------------------------------------------- 6: correlation rules
section("6 collection with correlation rule")
coll = SigmaCollection.from_yaml(CORRELATION)
d_before = [repr(r.to_dict()) for r in coll.rules]
corr_issues = SigmaValidator(ALL.values()).validate_rules(iter(coll.rules))
print("number of issues:", len(corr_issues))
for i in corr_issues:
    print(" ", show(i))
print("unchanged:", d_before == [repr(r.to_dict()) for r in coll.rules])

# ---------------------------------------------------------------- 7: traversal details
section("7 nested detections / value traversal per validator")
for vname in ["double_wildcard", "number_as_string", "control_character", "escaped_wildcard",
              "wildcards_instead_of_modifiers", "invalid_modifier_combinations",
              "specific_instead_of_generic_logsource", "fieldname_logsource",
              "duplicate_tag", "tlptag", "namespace_tag", "dangling_detection", "dangling_condition"]:
    if vname not in ALL:
        print(vname, "not available")
        continue
    inst = ALL[vname]()
    rules = load(names)
    for r in rules:
        got = inst.validate(r)
        print(f"  {vname} / {r.title}: {type(got).__name__} {[show(i) for i in got]}")
        print(f"      .rule is rule: {getattr(inst, 'rule', None) is r}")
    print(f"  {vname} finalize: {[show(i) for i in inst.finalize()]}")

print("\ndone")
sys.exit(0)
