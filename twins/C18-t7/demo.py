"""Demo for C18: CIDR expansion into wildcard patterns and its use in conversion."""

import random
from ipaddress import IPv4Address, IPv6Address, ip_network

import sigma.types
from sigma.backends.test import TextQueryTestBackend
from sigma.collection import SigmaCollection
from sigma.exceptions import SigmaError
from sigma.types import SigmaCIDRExpression

print("module:", sigma.types.__file__.replace("\\", "/").split("/")[-2:])


def show(cidr, *args, **kwargs):
    try:
        res = SigmaCIDRExpression(cidr).expand(*args, **kwargs)
        if len(res) > 12:
            print(f"{cidr!r} {args} {kwargs} -> {len(res)} patterns: {res[:4]} ... {res[-3:]}")
        else:
            print(f"{cidr!r} {args} {kwargs} -> {res}")
    except Exception as e:  # exception class and message are part of the behaviour
        print(f"{cidr!r} {args} {kwargs} !! {type(e).__name__}: {e}")


print("== IPv4, every prefix length ==")
for plen in range(33):
    net = ip_network(f"203.0.113.77/{plen}", strict=False)
    show(str(net))

print("== IPv4 boundaries ==")
for c in ["0.0.0.0/0", "255.255.255.255/32", "0.0.0.0/32", "255.128.0.0/9", "10.0.0.0/8",
          "192.168.0.0/16", "192.168.1.0/24", "192.168.1.128/25", "192.168.1.252/31", "1.2.3.4"]:
    show(c)

print("== IPv6, every prefix length, with zero runs ==")
base_addrs = ["2001:db8:85a3:1:2:8a2e:370:7334", "fe80::", "::", "::1", "2001:db8::1:0:0:1",
              "1:0:0:2:0:0:0:3", "ffff:ffff:ffff:ffff:ffff:ffff:ffff:ffff", "0:0:1::", "1::"]
for plen in range(129):
    for a in base_addrs:
        net = ip_network(f"{a}/{plen}", strict=False)
        show(str(net))

print("== IPv6 special spellings ==")
for c in ["::/0", "::1/128", "::1", "FE80::/10", "2001:0db8:0000:0000:0000:0000:0000:0000/32",
          "::ffff:192.168.1.0/120", "::ffff:0:0/96", "64:ff9b::/96", "fe80::/64", "fe80::/65"]:
    show(c)

print("== other wildcard strings ==")
for w in ["%", "", ".*", "**"]:
    for c in ["10.0.0.0/7", "10.1.0.0/16", "10.1.2.3/32", "0.0.0.0/0", "fe80::/63", "fe80::/64",
              "::1/128", "::/1"]:
        show(c, w)
        show(c, wildcard=w)

print("== wildcard of an unexpected type ==")
for c in ["0.0.0.0/0", "0.0.0.0/3", "10.0.0.0/8", "10.1.2.3/32", "::1/128", "fe80::/64", "::/3"]:
    show(c, None)
    show(c, 5)

print("== invalid ==")
for c in ["", "1.2.3.4/33", "1.2.3.4/24", "1.2.3/24", "fe80::1%eth0/128", "fe80::%1/64", "::/129",
          "fe80::1/64", "foo", "1.2.3.0/24/8", "10.0.0.0/-1", " 10.0.0.0/8", "10.0.0.0/255.0.0.0",
          "10.0.0.0/0.255.255.255", "%", "1.2.3.4%5/32"]:
    show(c)
for bad in [None, 5, b"\x01\x02\x03\x04", ("1.2.3.0", 24)]:
    try:
        print(repr(bad), "->", SigmaCIDRExpression(bad).expand())
    except Exception as e:
        print(repr(bad), "!!", type(e).__name__, e)

print("== random sample, digest of results ==")
rnd = random.Random(18)
acc = []
for _ in range(400):
    plen = rnd.randint(0, 32)
    net = ip_network((int(IPv4Address(rnd.getrandbits(32))), plen), strict=False)
    acc.append((str(net), SigmaCIDRExpression(str(net)).expand()))
for _ in range(600):
    plen = rnd.randint(0, 128)
    val = rnd.getrandbits(128)
    for _ in range(rnd.randint(0, 4)):  # punch zero groups
        val &= ~(0xFFFF << (16 * rnd.randint(0, 7)))
    net = ip_network((int(IPv6Address(val)), plen), strict=False)
    acc.append((str(net), SigmaCIDRExpression(str(net)).expand("?")))
import hashlib

print(len(acc), hashlib.sha256(repr(acc).encode()).hexdigest())
for item in acc[::97]:
    print(item)

print("== object state after expand ==")
e = SigmaCIDRExpression("192.168.0.0/14")
before = (e.cidr, e.network, e.source)
r1 = e.expand()
r2 = e.expand()
print(r1 == r2, r1 is r2, type(r1).__name__, before == (e.cidr, e.network, e.source), str(e))

print("== conversion ==")


class NoCIDRBackend(TextQueryTestBackend):
    cidr_expression = None


RULE = """
title: t
status: test
logsource:
    category: test
detection:
    sel:
        {field}: {value}
    other:
        fieldB: x
    condition: {cond}
"""
for backend_cls in (NoCIDRBackend, TextQueryTestBackend):
    for value in ["192.168.0.0/14", "10.0.0.0/8", "10.1.2.3/32", "0.0.0.0/0", "fe80::/10",
                  "::1/128", "2001:db8::/47", "['10.0.0.0/8', '192.168.0.0/23']", "10.1.2.3/24",
                  "fe80::1%eth0/128"]:
        for cond in ["sel", "sel and other", "not sel", "sel or other"]:
            try:
                rule = SigmaCollection.from_yaml(
                    RULE.format(field="ip|cidr", value=value, cond=cond)
                )
                print(backend_cls.__name__, value, cond, "->", backend_cls().convert(rule))
            except SigmaError as e:
                print(backend_cls.__name__, value, cond, "!!", type(e).__name__, e)
