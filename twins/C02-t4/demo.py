"""Demo for property C02: condition text parses to the boolean function it spells.

Builds rules' detection sections from dicts, parses conditions (with and without
postprocessing), dumps the resulting trees (including parent links and sources) and
their truth tables over all assignments of the named detections.
"""
import itertools
import sys

from sigma.conditions import (
    ConditionAND,
    ConditionFieldEqualsValueExpression,
    ConditionIdentifier,
    ConditionItem,
    ConditionNOT,
    ConditionOR,
    ConditionSelector,
    ConditionValueExpression,
    SigmaCondition,
)
from sigma.exceptions import SigmaError, SigmaRuleLocation
from sigma.rule.detection import SigmaDetection, SigmaDetectionItem, SigmaDetections
from sigma.types import SigmaNull, SigmaString


def leaf_name(node):
    if isinstance(node, ConditionFieldEqualsValueExpression):
        return f"{node.field}={node.value!s}" if not isinstance(node.value, SigmaNull) else f"{node.field}=<null>"
    return f"kw:{node.value!s}"


def dump(node, indent=0):
    """Structural dump including the class of the parent link and the source."""
    pad = "  " * indent
    parent = type(node.parent).__name__ if getattr(node, "parent", None) is not None else "-"
    src = getattr(node, "source", "<unset>")
    if node is None:
        return [pad + "None"]
    if isinstance(node, (ConditionFieldEqualsValueExpression, ConditionValueExpression)):
        return [f"{pad}{leaf_name(node)} parent={parent} src={src}"]
    if isinstance(node, ConditionSelector):
        return [f"{pad}Selector({node.args!r}, {node.cond_class.__name__}, {node.pattern!r}) parent={parent} src={src}"]
    if isinstance(node, ConditionIdentifier):
        return [f"{pad}Identifier({node.identifier!r}) parent={parent} src={src}"]
    lines = [f"{pad}{type(node).__name__} parent={parent} src={src}"]
    for arg in node.args:
        lines.extend(dump(arg, indent + 1))
    return lines


def evaluate(node, truth):
    """Evaluate a postprocessed tree; truth maps leaf name -> bool."""
    if node is None:
        return None
    if isinstance(node, (ConditionFieldEqualsValueExpression, ConditionValueExpression)):
        return truth[leaf_name(node)]
    if isinstance(node, ConditionNOT):
        return not evaluate(node.args[0], truth)
    if isinstance(node, ConditionAND):
        return all(evaluate(a, truth) for a in node.args)
    if isinstance(node, ConditionOR):
        return any(evaluate(a, truth) for a in node.args)
    raise TypeError(type(node))


def leaves(node, acc):
    if node is None:
        return acc
    if isinstance(node, (ConditionFieldEqualsValueExpression, ConditionValueExpression)):
        if leaf_name(node) not in acc:
            acc.append(leaf_name(node))
        return acc
    for a in node.args:
        leaves(a, acc)
    return acc


def truth_table(tree):
    names = sorted(leaves(tree, []))
    bits = []
    for values in itertools.product([False, True], repeat=len(names)):
        r = evaluate(tree, dict(zip(names, values)))
        bits.append("-" if r is None else str(int(r)))
    return names, "".join(bits)


def show(detections_dict, conditions, source=None):
    print("=" * 70)
    print("detections:", detections_dict)
    for cond in conditions:
        print("-- condition:", repr(cond))
        d = dict(detections_dict)
        d["condition"] = cond
        try:
            dets = SigmaDetections.from_dict(d, source)
        except SigmaError as e:
            print("   from_dict error:", type(e).__name__, str(e))
            continue
        for sc in dets.parsed_condition:
            for post in (False, True):
                try:
                    tree = sc.parse(post)
                except SigmaError as e:
                    print(f"   parse({post}) error:", type(e).__name__, str(e))
                    continue
                except Exception as e:  # unexpected classes are shown as well
                    print(f"   parse({post}) EXC:", type(e).__name__, str(e))
                    continue
                for line in dump(tree, 2) if tree is not None else ["    None"]:
                    print(line)
                if post:
                    print("   truth:", truth_table(tree))
            # .parsed twice: no caching side effects, equal trees
            try:
                print("   parsed==parsed:", sc.parsed == sc.parsed)
            except SigmaError as e:
                print("   parsed error:", type(e).__name__, str(e))


# 1. simple field detections; every detection name is its own field name
names = ["sel", "sel1", "sel2", "selection_a", "filter", "notable", "android", "oracle",
         "all_x", "any1", "of", "them", "1st", "a-b", "_hidden", "_filt_ab_x", "x1y"]
simple = {n: {n: "v"} for n in names}
conds = [
    "sel", "not sel", "not not sel", "sel and sel1 or sel2", "sel or sel1 and sel2",
    "not sel and sel1", "not (sel and sel1)", "sel and not sel1 or not sel2 and filter",
    "(sel or sel1) and (sel2 or filter)", "sel and sel1 and sel2", "sel or sel1 or sel2",
    "((sel))", "notable and android or oracle", "not notable", "nota", "sel andsel1",
    "all_x and any1", "them", "of", "1st", "a-b and not x1y", "_hidden or _filt_ab_x",
    "1 of sel*", "all of sel*", "any of sel*", "1 of them", "all of them", "any of them",
    "1 of *", "all of *1", "1 of s*l*", "1 of *e*", "1 of _*", "all of _*", "1 of _filt_*",
    "all of _hid*", "1 of sel", "1 of nomatch*", "all of x*y", "not 1 of sel* and all of a*",
    "1 of sel* or not all of them", "(1 of sel1*) and not (any of *2)", "2 of sel*",
    "1 of", "all them", "sel |count() > 5", "", "sel and", "and sel", "sel sel1", "(sel",
    "1 of sel.*", "SEL", "sel AND sel1", "not\tsel   or\n sel1", "unknown", "sel and unknown",
    "1 of (sel)", "all of all_x", "any of any*", "1 of of", "all of them and them",
]
show(simple, conds, SigmaRuleLocation("demo.yml"))

# 2. detections with several items/values, keywords, lists of maps, nulls, modifiers
rich = {
    "multi": {"fa": ["v1", "v2", "v3"]},
    "multi_all": {"fb|all": ["v1", "v2"]},
    "two_fields": {"fc": "x", "fd": [1, 2]},
    "kw": ["kw1", "kw2"],
    "kw_single": "only",
    "nullf": {"fe": None},
    "emptylist": {"ff": []},
    "listmaps": [{"fg": "a"}, {"fh": ["b", "c"], "fi": None}],
    "contains": {"fj|contains|all": ["p", "q"]},
    "re": {"fk|re": "a.*b"},
    "wild": {"fl": "a*b?c"},
}
rich_conds = [
    "multi", "not multi_all", "two_fields and kw", "kw_single or nullf", "emptylist",
    "listmaps and not contains", "re or wild", "1 of multi*", "all of *", "1 of them",
    "not 1 of kw* and all of *f", "all of them", "1 of l*s or 1 of e*t",
]
show(rich, rich_conds)

# 3. several conditions in one rule, condition type errors, missing condition
show({"a": {"a": 1}, "b": {"b": 2}}, [["a and b", "1 of them", "not a"], ["a", 1], []])
try:
    SigmaDetections.from_dict({"a": {"a": 1}})
except SigmaError as e:
    print("no condition:", type(e).__name__, str(e))
try:
    SigmaDetections.from_dict({"condition": "a"})
except SigmaError as e:
    print("no detections:", type(e).__name__, str(e))

# 4. direct construction of the objects involved
print("=" * 70)
for args in (["1", "x*"], ["any", "them"], ["all", "_a"], ["2", "x"], ["ALL", "x"], ["", "x"],
             [1, "x"], [None, "x"], ["all"], ["of", "all"]):
    try:
        s = ConditionSelector(list(args))
        print("selector", args, "->", s.cond_class.__name__, repr(s.pattern), s.args, s.source, s.parent)
    except Exception as e:
        print("selector", args, "->", type(e).__name__, str(e), getattr(e, "source", None))
try:
    ConditionSelector(["some", "x"], SigmaRuleLocation("loc.yml"))
except Exception as e:
    print("selector with source ->", type(e).__name__, str(e))
print(ConditionSelector.from_parsed("", 0, ["all", "of", "p*"]))
print(ConditionSelector(["1", "a*"]) == ConditionSelector(["any", "a*"]),
      ConditionSelector(["1", "a*"]) == ConditionSelector(["1", "a*"]))
print([f.name for f in __import__("dataclasses").fields(ConditionSelector)])
print([f.name for f in __import__("dataclasses").fields(SigmaDetectionItem)])
print([f.name for f in __import__("dataclasses").fields(SigmaDetection)])

dets = SigmaDetections.from_dict({"a1": {"f": 1}, "a2": {"g": 2}, "_a3": {"h": 3}, "condition": "a1"})
for args in (["1", "a*"], ["all", "them"], ["any", "_*"], ["all", "*a*"], ["1", "zz*"]):
    sel = ConditionSelector(list(args))
    print(args, [i.identifier for i in sel.resolve_referenced_detections(dets)])
    parent = ConditionNOT([sel])
    try:
        res = sel.postprocess(dets, parent, SigmaRuleLocation("p.yml"))
        print("\n".join(dump(res, 1)))
        print("  selector parent:", type(sel.parent).__name__, "result parent is given parent:", res.parent is parent)
    except SigmaError as e:
        print("  error:", type(e).__name__, str(e), "| selector parent:", type(sel.parent).__name__)

# detection items postprocessed directly
loc = SigmaRuleLocation("item.yml")
item_cases = [
    SigmaDetectionItem("f", [], [], source=loc),
    SigmaDetectionItem(None, [], []),
    SigmaDetectionItem("f", [], [SigmaString("a")]),
    SigmaDetectionItem(None, [], [SigmaString("a")], source=loc),
    SigmaDetectionItem("f", [], [SigmaString("a"), SigmaString("b")]),
    SigmaDetectionItem(None, [], [SigmaString("a"), SigmaString("b")], ConditionAND, source=loc),
    SigmaDetectionItem("f", [], [SigmaString("a"), SigmaString("b"), SigmaNull()], ConditionAND),
    SigmaDetectionItem("f", [], [SigmaString("a")], negated=True, source=loc),
    SigmaDetectionItem("f", [], [SigmaString("a"), SigmaString("b")], negated=True),
    SigmaDetectionItem(None, [], [], negated=True),
    SigmaDetectionItem("f", [], [], negated=True),
]
for item in item_cases:
    parent = ConditionOR([])
    try:
        res = item.postprocess(dets, parent, SigmaRuleLocation("given.yml"))
        print("item", item.field, [str(v) for v in item.value], item.value_linking.__name__, item.negated)
        print("\n".join(dump(res, 1)))
        print("  item parent is given:", item.parent is parent, "item source:", item.source)
    except SigmaError as e:
        print("item error:", type(e).__name__, str(e), "| item parent is given:", item.parent is parent)

# detections postprocessed directly (incl. one emptied after construction and nested ones)
d1 = SigmaDetection([item_cases[2]])
d2 = SigmaDetection([item_cases[2], item_cases[4]], loc)
d3 = SigmaDetection([d1, d2])
d4 = SigmaDetection([item_cases[2]], item_linking=ConditionOR)
d5 = SigmaDetection([item_cases[2], item_cases[3]], item_linking=ConditionOR)
d6 = SigmaDetection([item_cases[2]])
d6.detection_items = []
d7 = SigmaDetection([d6, d1])
d8 = SigmaDetection([d6, d6])
for d in (d1, d2, d3, d4, d5, d6, d7, d8):
    parent = ConditionNOT([])
    res = d.postprocess(dets, parent, SigmaRuleLocation("det.yml"))
    print("detection", d.item_linking.__name__, len(d.detection_items), "source:", d.source)
    print("\n".join(dump(res, 1)) if res is not None else "  None")
    print("  detection parent is given:", d.parent is parent)

sys.exit(0)
