"""Demo for C16: opt-in gates of external-source transformations and template vars files.

Prints, for a grid of pipeline documents x caller arguments x environment values, what happened:
result of conversion or the exception class and message, the capability flags on the instantiated
items and the security relevant audit events (process start, open of the source/vars file).
Temporary directory names are replaced by <TMP> to make the output reproducible.
"""

import os
import sys
import tempfile
import textwrap

from sigma.backends.test import TextQueryTestBackend
from sigma.collection import SigmaCollection
from sigma.processing.pipeline import ProcessingPipeline
from sigma.processing.templates import TemplateBase, PYSIGMA_ALLOW_VARS_EXECUTION_ENV
from sigma.processing.transformations.external import (
    ExternalSourceBaseTransformation,
    PYSIGMA_ALLOW_EXTERNAL_SOURCES_ENV,
)
from sigma.processing.finalization import TemplateFinalizer
from sigma.processing.postprocessing import QueryTemplateTransformation
from sigma.processing.transformations import (
    FilePlaceholderTransformation,
    CommandPlaceholderTransformation,
)

tmp = os.path.realpath(tempfile.mkdtemp(prefix="c16demo"))
inside = os.path.join(tmp, "allowed")
prefix_sharing = os.path.join(tmp, "allowed_not")
outside = os.path.join(tmp, "elsewhere")
for directory in (inside, prefix_sharing, outside):
    os.mkdir(directory)

source_file = os.path.join(inside, "values.txt")
with open(source_file, "w") as f:
    f.write("alpha\nbeta\n")

VARS_SRC = "print('VARS FILE EXECUTED')\nvars = {'shout': lambda s: str(s).upper()}\n"
vars_files = {}
for label, directory in (("inside", inside), ("prefix", prefix_sharing), ("outside", outside)):
    vars_files[label] = os.path.join(directory, "helpers.py")
    with open(vars_files[label], "w") as f:
        f.write(VARS_SRC)
vars_files["symlink"] = os.path.join(inside, "link.py")
os.symlink(vars_files["outside"], vars_files["symlink"])
pipeline_file = os.path.join(inside, "pipeline.yml")

events = []
watching = False


def audit(event, args):
    if not watching:
        return
    if event in ("subprocess.Popen", "os.system", "os.posix_spawn", "socket.connect"):
        events.append(event)
    elif event == "open" and isinstance(args[0], str) and args[0].startswith(tmp):
        events.append("open " + args[0])
    elif event == "exec":
        filename = getattr(args[0], "co_filename", "")
        if isinstance(filename, str) and filename.startswith(tmp):
            events.append("exec " + filename)


sys.addaudithook(audit)


def clean(s):
    return str(s).replace(tmp, "<TMP>")


RULE = """
title: Test
status: test
logsource:
    category: test
detection:
    sel:
        field|expand: "%ph%"
    condition: sel
"""

PLAIN_RULE = RULE.replace('field|expand: "%ph%"', "field: value")

OPT_IN = "allow_external_sources: true\nallow_template_vars: yes\nvars_allowed_paths: ['/']\n"


def indent(s, n):
    return textwrap.indent(s, " " * n)


def external_doc(kind, nested):
    if kind == "file":
        body = f"type: file_placeholders\npath: {source_file}\n"
    else:
        body = "type: command_placeholders\ncmd: echo gamma\n"
    body += OPT_IN
    if nested:
        item = "type: nest\n" + OPT_IN + "items:\n  - " + indent(body, 4).lstrip()
    else:
        item = body
    return "name: ext\npriority: 10\ntransformations:\n  - " + indent(item, 4).lstrip()


def template_doc(where, vars_path):
    tmpl = f"type: template\ntemplate: \"{{{{ shout(X) }}}}\"\nvars: {vars_path}\n" + OPT_IN
    if where == "postprocessing":
        tmpl = tmpl.replace("X", "query")
        return "name: t\npriority: 10\npostprocessing:\n  - " + indent(tmpl, 4).lstrip()
    if where == "nested_postprocessing":
        tmpl = tmpl.replace("X", "query")
        item = "type: nest\n" + OPT_IN + "items:\n  - " + indent(tmpl, 4).lstrip()
        return "name: t\npriority: 10\npostprocessing:\n  - " + indent(item, 4).lstrip()
    tmpl = tmpl.replace("X", "queries|join('+')")
    if where == "finalizer":
        return "name: t\npriority: 10\nfinalizers:\n  - " + indent(tmpl, 4).lstrip()
    item = "type: nested\n" + OPT_IN + "finalizers:\n  - " + indent(tmpl, 4).lstrip()
    return "name: t\npriority: 10\nfinalizers:\n  - " + indent(item, 4).lstrip()


def flags(pipeline):
    found = []

    def visit(obj):
        if isinstance(obj, ExternalSourceBaseTransformation):
            found.append(("ext", obj.allow_external_sources, obj._external_sources_allowed()))
        if isinstance(obj, TemplateBase):
            found.append(
                (
                    "tmpl",
                    obj.allow_template_vars,
                    clean(obj.vars_allowed_paths),
                    obj._vars_execution_allowed(),
                )
            )
        nested = getattr(obj, "_nested_pipeline", None)
        if nested is not None:
            walk(nested)

    def walk(p):
        for item in p.items + p.postprocessing_items:
            visit(item.transformation)
        for fin in p.finalizers:
            visit(fin)

    walk(pipeline)
    return found


def run(label, doc, env, rule=RULE, **kwargs):
    global watching
    for name in (PYSIGMA_ALLOW_EXTERNAL_SOURCES_ENV, PYSIGMA_ALLOW_VARS_EXECUTION_ENV):
        os.environ.pop(name, None)
    os.environ.update(env)
    del events[:]
    watching = True
    try:
        try:
            pipeline = ProcessingPipeline.from_yaml(doc, **kwargs)
            loaded = "loaded " + repr(flags(pipeline))
            backend = TextQueryTestBackend(pipeline)
            out = backend.convert(SigmaCollection.from_yaml(rule))
            result = "result " + clean(out)
        except Exception as e:
            loaded = locals().get("loaded", "not loaded")
            result = f"{type(e).__name__}: {clean(e)}"
            cause = e.__cause__
            if cause is not None:
                result += f" <- {type(cause).__name__}"
    finally:
        watching = False
    shown_env = ",".join(f"{k[8:]}={v}" for k, v in sorted(env.items())) or "-"
    shown_kw = ",".join(f"{k}={clean(v)}" for k, v in sorted(kwargs.items())) or "-"
    print(f"[{label}] env:{shown_env} args:{shown_kw}")
    print("   ", loaded)
    print("   ", result)
    print("    events:", [clean(ev) for ev in events])


ENV_VALUES = [None, "", "0", "1", "true", "TRUE", "True", "tRuE", "yes", "on", " 1", "1 ", "11", "false"]

print("== external sources ==")
for kind in ("file", "command"):
    for nested in (False, True):
        doc = external_doc(kind, nested)
        label = f"{kind}{'/nest' if nested else ''}"
        for value in ENV_VALUES:
            env = {} if value is None else {PYSIGMA_ALLOW_EXTERNAL_SOURCES_ENV: value}
            run(label, doc, env)
        # the other variable does not open this gate
        run(label, doc, {PYSIGMA_ALLOW_VARS_EXECUTION_ENV: "1"})
        run(label, doc, {}, allow_template_vars=True)
        run(label, doc, {}, allow_external_sources=True)
        run(label, doc, {PYSIGMA_ALLOW_EXTERNAL_SOURCES_ENV: "0"}, allow_external_sources=True)
        run(label, doc, {}, allow_external_sources=1)
        run(label, doc, {}, allow_external_sources="no")
        run(label, doc, {}, allow_external_sources=0)
        run(label, doc, {}, allow_external_sources=None)

print("== template vars ==")
for where in ("postprocessing", "nested_postprocessing", "finalizer", "nested_finalizer"):
    for place in ("inside", "outside", "prefix", "symlink"):
        if where == "nested_postprocessing" and place != "inside":
            continue  # items given as dicts are rejected while loading, one place is enough
        doc = template_doc(where, vars_files[place])
        label = f"{where}/{place}"
        for value in (None, "0", "1", "TRUE", "yes"):
            env = {} if value is None else {PYSIGMA_ALLOW_VARS_EXECUTION_ENV: value}
            run(label, doc, env, PLAIN_RULE)
            run(label, doc, env, PLAIN_RULE, source_path=pipeline_file)
        run(label, doc, {PYSIGMA_ALLOW_EXTERNAL_SOURCES_ENV: "1"}, PLAIN_RULE)
        run(label, doc, {}, PLAIN_RULE, allow_external_sources=True)
        run(label, doc, {}, PLAIN_RULE, allow_template_vars=True)
        run(label, doc, {}, PLAIN_RULE, allow_template_vars=True, source_path=pipeline_file)
        run(label, doc, {}, PLAIN_RULE, allow_template_vars=True, vars_allowed_paths=(inside,))
        run(label, doc, {}, PLAIN_RULE, allow_template_vars=True, vars_allowed_paths=(outside, inside))
        run(label, doc, {}, PLAIN_RULE, allow_template_vars="x", vars_allowed_paths=())
        run(label, doc, {PYSIGMA_ALLOW_VARS_EXECUTION_ENV: "true"}, PLAIN_RULE, vars_allowed_paths=(inside,))

print("== direct construction ==")
for name in (PYSIGMA_ALLOW_EXTERNAL_SOURCES_ENV, PYSIGMA_ALLOW_VARS_EXECUTION_ENV):
    os.environ.pop(name, None)
for flag in (False, True, 0, 1, "", "0", None, [], [0]):
    t = FilePlaceholderTransformation(path=source_file, allow_external_sources=flag)
    c = CommandPlaceholderTransformation(cmd="echo x", allow_external_sources=flag)
    row = [repr(flag), t._external_sources_allowed(), c._external_sources_allowed()]
    for cls in (TemplateFinalizer, QueryTemplateTransformation):
        try:
            obj = cls(template="x", allow_template_vars=flag)
            row.append(obj._vars_execution_allowed())
        except Exception as e:
            row.append(type(e).__name__)
    for value in ("1", "True", "2"):
        os.environ[PYSIGMA_ALLOW_EXTERNAL_SOURCES_ENV] = value
        row.append(t._external_sources_allowed())
        del os.environ[PYSIGMA_ALLOW_EXTERNAL_SOURCES_ENV]
    for r in row[1:]:
        assert type(r) in (bool, str), r
    print(row)
