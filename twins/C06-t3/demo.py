"""
Demo for t3: SigmaRuleBase.to_dict (sigma/rule/base.py), the rule metadata writer shared by rules,
correlation rules and filters.

Loads documents with all metadata fields (dates in both accepted spellings and as YAML dates and
timestamps, tags, related, custom attributes), prints the dict and YAML form, reloads both and
compares the dict forms and the generated queries. Also sets dates programmatically to unusual
values and shows what is written or raised.
"""

import datetime as dt
import sys

import yaml

from sigma.backends.test import TextQueryTestBackend
from sigma.collection import SigmaCollection
from sigma.correlations import SigmaCorrelationRule
from sigma.exceptions import SigmaError
from sigma.filters import SigmaFilter
from sigma.processing.pipeline import ProcessingItem, ProcessingPipeline
from sigma.processing.transformations import SetCustomAttributeTransformation
from sigma.rule import SigmaRule

mismatches = 0


def show(label, func):
    try:
        result = func()
        print(f"{label} -> {result!r}")
        return result
    except Exception as e:  # the class and the message are part of the observed behaviour
        print(f"{label} !! {type(e).__name__}: {e}")
        return None


def check(label, cond):
    global mismatches
    print(f"{label}: {'ok' if cond else 'MISMATCH'}")
    if not cond:
        mismatches += 1


base_rule = """
title: Test rule
logsource:
    category: process_creation
    product: windows
detection:
    sel:
        Image|endswith: '\\cmd.exe'
    condition: sel
"""

full_metadata = """
id: 9a6e5b8c-3a56-4b53-a4f1-0d1c4c2f7a11
name: test_rule
status: experimental
level: high
author: Some One, Another One
description: |
    Multi line
    description: with colon
license: MIT
references:
    - https://example.com/a
    - https://example.com/b?x=*
fields:
    - Image
    - CommandLine
falsepositives:
    - Admins
scope:
    - server
tags:
    - attack.t1059.001
    - attack.execution
    - cve.2024-12345
    - custom.tag
related:
    - id: 08fbc97d-0a2f-491c-ae21-8ffcfd3174e9
      type: derived
    - id: 929a690e-bef0-4204-a928-ef5e620d6fcc
      type: obsolete
custom_key: custom value
custom_list: [1, two, 3.0]
custom_map:
    nested: true
date: 2024-02-29
modified: 2024/3/1
"""

date_variants = [
    ("date: 2020-01-02", "unquoted dash date (YAML date)"),
    ("date: '2020-01-02'", "quoted dash date"),
    ("date: 2020/01/02", "slash date"),
    ("date: 2020/1/2", "slash date short"),
    ("date: 2020/12/5\nmodified: 2021/1/31", "both slash"),
    ("date: 1000-01-01\nmodified: 3999-12-31", "range limits"),
    ("date: 2020-01-02 03:04:05", "YAML timestamp with space"),
    ("date: 2020-01-02T03:04:05Z", "YAML timestamp utc"),
    ("date: 2020-01-02T23:30:00-05:00", "YAML timestamp with offset"),
    ("modified: 2020-01-02T03:04:05.123456", "YAML timestamp with fraction, modified only"),
    ("date: 2020-1-2", "ambiguous dash date"),
    ("date: 20/1/2", "short year"),
    ("date: 2020/13/40", "invalid slash date"),
    ("date: 0999-01-01", "year below range (YAML date)"),
    ("date: yesterday\nmodified: 5", "nonsense"),
    ("date: null\nmodified: ~", "nulls"),
    ("date: ''", "empty string"),
    ("date: [2020-01-02]", "list"),
]

backend = TextQueryTestBackend()


def round_trip(label, cls, text, convert=True):
    print(f"-- {label}")
    try:
        obj = cls.from_yaml(text)
    except SigmaError as e:
        print(f"load !! {type(e).__name__}: {e}")
        obj = cls.from_yaml(text, collect_errors=True)
        print("collected errors:", [f"{type(err).__name__}: {err}" for err in obj.errors])
    d = show("to_dict", obj.to_dict)
    if d is None:
        return
    print("key order:", list(d))
    dumped = yaml.safe_dump(d, sort_keys=False)
    print(dumped, end="")
    try:
        from_dict = cls.from_dict(d)
        from_yaml = cls.from_yaml(dumped)
    except SigmaError as e:
        print(f"reload !! {type(e).__name__}: {e}")
        return
    check("reloaded dict equal", from_dict.to_dict() == d)
    check("yaml reloaded dict equal", from_yaml.to_dict() == d)
    check("second generation yaml equal", yaml.safe_dump(from_yaml.to_dict(), sort_keys=False) == dumped)
    check("dates equal", (from_dict.date, from_dict.modified) == (from_yaml.date, from_yaml.modified))
    print("dates after reload:", repr(from_dict.date), repr(from_dict.modified))
    if convert:
        queries = [
            show(f"convert {name}", lambda r=r: backend.convert(SigmaCollection([r])))
            for name, r in (("original", obj), ("reloaded", from_dict), ("yaml", from_yaml))
        ]
        check("same queries", queries[0] == queries[1] == queries[2])


print("== rules ==")
round_trip("minimal", SigmaRule, base_rule)
round_trip("full metadata", SigmaRule, base_rule + full_metadata)
for text, label in date_variants:
    round_trip(label, SigmaRule, base_rule + text + "\n")

print("== correlation rules ==")
correlation = """
title: Correlation
correlation:
    type: event_count
    rules:
        - test_rule
    group-by:
        - User
    timespan: 5m
    condition:
        gte: 10
"""
round_trip("correlation minimal", SigmaCorrelationRule, correlation, convert=False)
round_trip("correlation full metadata", SigmaCorrelationRule, correlation + full_metadata.replace("name: test_rule", "name: corr_rule"), convert=False)
for text, label in date_variants[:10]:
    round_trip("correlation " + label, SigmaCorrelationRule, correlation + text + "\n", convert=False)

print("== filters ==")
sigma_filter = """
title: Filter
logsource:
    category: process_creation
    product: windows
filter:
    rules:
        - test_rule
    selection:
        User|startswith: 'adm_'
    condition: not selection
"""
round_trip("filter minimal", SigmaFilter, sigma_filter, convert=False)
round_trip("filter full metadata", SigmaFilter, sigma_filter + full_metadata.replace("name: test_rule", "name: the_filter"), convert=False)
for text, label in date_variants[:10]:
    round_trip("filter " + label, SigmaFilter, sigma_filter + text + "\n", convert=False)

print("== dates set programmatically ==")


class MyDate(dt.date):
    def isoformat(self):
        return "my-" + super().isoformat()


class MyDateTime(dt.datetime):
    pass


tz = dt.timezone(dt.timedelta(hours=-11))
programmatic = [
    dt.date(2021, 5, 6),
    dt.date.min,
    dt.date.max,
    dt.datetime(2021, 5, 6, 23, 59, 59),
    dt.datetime(2021, 5, 6, 23, 59, 59, 999999, tzinfo=tz),
    dt.datetime(2021, 5, 6, 0, 0, tzinfo=dt.timezone.utc),
    dt.datetime.min,
    MyDate(2021, 5, 6),
    MyDateTime(2021, 5, 6, 7, 8, 9),
    "2021-05-06",
    20210506,
    0,
    False,
    dt.time(1, 2, 3),
    dt.timedelta(days=1),
    None,
]
for cls, text in ((SigmaRule, base_rule), (SigmaCorrelationRule, correlation), (SigmaFilter, sigma_filter)):
    for value in programmatic:
        for other in (None, dt.date(2022, 1, 1)):
            obj = cls.from_yaml(text)
            obj.date = value
            obj.modified = other
            show(f"{cls.__name__} date={value!r} modified={other!r}", lambda: {k: v for k, v in obj.to_dict().items() if k in ("date", "modified")})
            obj.date = other
            obj.modified = value
            d = show(f"{cls.__name__} date={other!r} modified={value!r}", obj.to_dict)
            if d is not None:
                print("  key order:", list(d))
                try:
                    again = cls.from_dict(d)
                    check("  reloaded dict equal", again.to_dict() == d)
                except SigmaError as e:
                    print(f"  reload !! {type(e).__name__}: {e}")

print("== rule after a pipeline transformation ==")
rule = SigmaRule.from_yaml(base_rule + full_metadata)
ProcessingPipeline(
    [
        ProcessingItem(SetCustomAttributeTransformation("date", "not a date")),
        ProcessingItem(SetCustomAttributeTransformation("extra", "x")),
    ]
).apply(rule)
d = show("custom attribute named date", rule.to_dict)
if d is not None:
    print("key order:", list(d))
    show("reload", lambda: SigmaRule.from_dict(d).to_dict())

# Mismatches are observations about HEAD (the property is known not to hold everywhere); the demo only
# has to show that the observations are the same with and without the patch.
print("observed mismatches:", mismatches)
sys.exit(0)
