"""Demo for C01/t4: conversion under NOT in not-equals mode (template swap on the backend class)."""
import re
import sys
from typing import ClassVar

from sigma.backends.test import TextQueryTestBackend
from sigma.collection import SigmaCollection

SWAPPED = (
    "eq_expression",
    "re_expression",
    "cidr_expression",
    "startswith_expression",
    "case_sensitive_startswith_expression",
    "endswith_expression",
    "case_sensitive_endswith_expression",
    "contains_expression",
    "case_sensitive_contains_expression",
)


class NotEqBackend(TextQueryTestBackend):
    """All negated templates defined."""

    convert_not_as_not_eq: ClassVar[bool] = True
    not_eq_token: ClassVar[str] = "!="
    not_eq_expression: ClassVar[str] = "{field}{backend.not_eq_token}{value}"
    not_startswith_expression: ClassVar[str] = "{field} not_startswith {value}"
    not_endswith_expression: ClassVar[str] = "{field} not_endswith {value}"
    not_contains_expression: ClassVar[str] = "{field} not_contains {value}"
    not_re_expression: ClassVar[str] = "{field}!=/{regex}/"
    not_cidr_expression: ClassVar[str] = "not_cidrmatch('{field}', \"{value}\")"
    case_sensitive_not_startswith_expression: ClassVar[str] = "{field} not_startswith_cased {value}"
    case_sensitive_not_endswith_expression: ClassVar[str] = "{field} not_endswith_cased {value}"
    case_sensitive_not_contains_expression: ClassVar[str] = "{field} not_contains_cased {value}"


class NotEqPartialBackend(TextQueryTestBackend):
    """Only the equality template has a negated form: the other negated templates are None."""

    convert_not_as_not_eq: ClassVar[bool] = True
    not_eq_token: ClassVar[str] = "<>"
    convert_or_as_in: ClassVar[bool] = False
    convert_and_as_in: ClassVar[bool] = False


class NotEqParenBackend(NotEqBackend):
    parenthesize: bool = True
    field_not_exists_expression: ClassVar[None] = None  # not exists converts into NOT exists


class PlainNotBackend(TextQueryTestBackend):
    """Reference: NOT is spelled with the not token."""


DETECTIONS = """
    sel_eq:
        fieldA: value1
    sel_multi:
        fieldA: value1
        fieldB|contains: mid
    sel_list:
        fieldA:
            - v1
            - v2*
            - "*v3"
    sel_all:
        fieldA|contains|all:
            - a
            - b
    sel_sw:
        fieldA|startswith: pre
    sel_ew:
        fieldA|endswith: post
    sel_re:
        fieldA|re: fo+bar/x
    sel_cidr:
        fieldA|cidr: 192.168.0.0/14
    sel_cased:
        fieldA|cased|startswith: Pre
        fieldB|cased|endswith: Post
        fieldC|cased|contains: Mid
    sel_num:
        fieldN: 42
    sel_null:
        fieldA: null
    sel_exists:
        fieldA|exists: false
    sel_neq:
        fieldA|neq: value1
    sel_kw:
        - keyword1
        - key*word2
    sel_lom:
        - fieldA: x
          fieldB: y
        - fieldC|endswith: z
    sel_wild:
        fieldA: "a*b?c"
"""

CONDITIONS = [
    "sel_eq",
    "not sel_eq",
    "not not sel_eq",
    "not sel_multi",
    "not sel_list",
    "not sel_all",
    "not sel_sw",
    "not sel_ew",
    "not sel_re",
    "not sel_cidr",
    "not sel_cased",
    "not sel_num",
    "not sel_null",
    "not sel_exists",
    "not sel_neq",
    "not sel_kw",
    "not sel_lom",
    "not sel_wild",
    "sel_eq and not sel_sw",
    "not sel_eq or sel_ew",
    "not (sel_eq or sel_sw) and sel_re",
    "not (sel_eq and not sel_cidr)",
    "sel_eq and not (sel_multi or not sel_cased)",
    "not 1 of sel_*",
    "not all of sel_e*",
    "1 of sel_e* and not all of sel_c*",
]


def rule(condition):
    return f"""
title: Test
status: test
logsource:
    category: test_category
    product: test_product
detection:{DETECTIONS}
    condition: {condition}
"""


def snapshot(cls):
    return {name: getattr(cls, name) for name in SWAPPED}


def main():
    failures = 0
    for backend_class in (NotEqBackend, NotEqPartialBackend, NotEqParenBackend, PlainNotBackend):
        print(f"=== {backend_class.__name__}")
        before = snapshot(backend_class)
        base_before = snapshot(TextQueryTestBackend)
        for condition in CONDITIONS:
            backend = backend_class()
            try:
                result = backend.convert(SigmaCollection.from_yaml(rule(condition)))
            except Exception as e:  # the class and message are part of the observed behaviour
                result = f"{e.__class__.__name__}: {e}"
            after = snapshot(backend_class)
            restored = after == before and snapshot(TextQueryTestBackend) == base_before
            own = sorted(name for name in SWAPPED if name in vars(backend_class))
            print(f"{condition!r:55} -> {result!r} restored={restored}")
            if not restored:
                failures += 1
        print("own swapped attributes afterwards:", own)

    # Instance attributes shadowing the class templates (the way the test suite configures backends)
    print("=== instance-level configuration")
    backend = TextQueryTestBackend()
    backend.convert_not_as_not_eq = True
    backend.not_eq_token = "!="
    backend.not_eq_expression = "{field} NEQ {value}"
    backend.not_startswith_expression = "{field} NSW {value}"
    for condition in ("not sel_eq", "not sel_sw", "not sel_multi", "sel_eq and not sel_list"):
        before = snapshot(TextQueryTestBackend)
        try:
            result = backend.convert(SigmaCollection.from_yaml(rule(condition)))
        except Exception as e:
            result = f"{e.__class__.__name__}: {e}"
        print(f"{condition!r:55} -> {result!r} restored={snapshot(TextQueryTestBackend) == before}")

    # The context manager on its own: state inside, state after, state after an exception inside
    print("=== context manager")
    backend = NotEqBackend()
    before = snapshot(NotEqBackend)
    with backend.not_equals_context_manager(use_negated_expressions=False):
        print("inactive:", snapshot(NotEqBackend) == before)
    with backend.not_equals_context_manager(use_negated_expressions=True):
        for name, value in snapshot(NotEqBackend).items():
            print(f"  inside {name} = {value!r}")
    print("after:", snapshot(NotEqBackend) == before)
    try:
        with backend.not_equals_context_manager(True):
            raise RuntimeError("boom")
    except RuntimeError as e:
        print("exception passed through:", e, "restored:", snapshot(NotEqBackend) == before)
    with backend.not_equals_context_manager(True):
        with backend.not_equals_context_manager(True):
            inner = snapshot(NotEqBackend)
        print("nested, after inner:", snapshot(NotEqBackend) == inner)
    print("nested, after outer:", snapshot(NotEqBackend) == before)

    return 1 if failures else 0


if __name__ == "__main__":
    sys.exit(main())
