"""Demo for property C01: converts a set of rules with several backend configurations and prints
the queries (or the exception class and message). The output must be identical with and without
the patch."""

import sys

from sigma.backends.test import TextQueryTestBackend
from sigma.collection import SigmaCollection
from sigma.conditions import (
    ConditionAND,
    ConditionFieldEqualsValueExpression,
    ConditionNOT,
    ConditionOR,
    ConditionValueExpression,
)
from sigma.conversion.deferred import DeferredTextQueryExpression
from sigma.conversion.state import ConversionState
from sigma.types import SigmaExists, SigmaExpansion, SigmaNumber, SigmaString

HEADER = """
title: Test
status: test
logsource:
    category: test_category
    product: test_product
detection:
"""

DETECTIONS = {
    "single": """
    sel:
        fieldA: value1
    condition: sel
""",
    "and_or_not": """
    sel1:
        fieldA: value1
        fieldB: value2
    sel2:
        fieldC: value3
    sel3:
        fieldD|contains: foo
    condition: (sel1 or sel2) and not sel3
""",
    "or_under_and_under_not": """
    sel1:
        fieldA:
            - value1
            - value2
            - val*ue3
    sel2:
        fieldB|startswith: abc
        fieldC|endswith: xyz
    sel3:
        fieldD: 5
    condition: not (sel1 and (sel2 or sel3))
""",
    "not_or": """
    sel1:
        fieldA: value1
    sel2:
        fieldB: value2
    condition: not (sel1 or sel2) and not sel1
""",
    "double_not": """
    sel1:
        fieldA: value1
    sel2:
        fieldB|contains: value2
    condition: not (not sel1 and sel2)
""",
    "all_modifier": """
    sel:
        fieldA|contains|all:
            - a1
            - a2
        fieldB|all:
            - b1
            - b2
    condition: sel
""",
    "list_of_maps": """
    sel:
        - fieldA: value1
          fieldB: value2
        - fieldA: value3
        - fieldC|re: 'fo+.*bar'
    condition: sel
""",
    "keywords": """
    keywords:
        - word1
        - 'wo*rd2'
        - 123
    sel:
        fieldA: value1
    condition: keywords and sel
""",
    "keywords_all_not": """
    keywords:
        '|all':
            - word1
            - word2
    condition: not keywords
""",
    "null_and_empty": """
    sel1:
        fieldA: null
    sel2:
        fieldB: ''
    sel3:
        fieldC: []
    condition: sel1 or sel2 and not sel3
""",
    "exists": """
    sel1:
        fieldA|exists: true
    sel2:
        fieldB|exists: false
    sel3:
        fieldC: x
    condition: sel1 and sel2 or not sel2 and sel3
""",
    "cased_in_list": """
    sel:
        fieldA|cased:
            - Value1
            - vaLue2
        fieldB|cased|startswith: Pre
    condition: sel
""",
    "mixed_in_list": """
    sel:
        fieldA:
            - value1
            - 2
            - 3.5
            - 'val?'
    condition: sel
""",
    "cidr_and_compare": """
    sel1:
        fieldA|cidr:
            - 192.168.0.0/16
            - 10.0.0.0/8
    sel2:
        fieldB|gte: 10
        fieldC|lt: 3
    condition: sel1 and not sel2
""",
    "fieldref_bool": """
    sel:
        fieldA|fieldref: fieldB
        fieldC: true
    condition: not sel
""",
    "windash_expansion": """
    sel1:
        fieldA|windash|contains:
            - '-foo'
            - '/bar'
    sel2:
        fieldB: x
    condition: sel1 and sel2
""",
    "selectors": """
    sel_a:
        fieldA: value1
    sel_b:
        fieldB: value2
    sel_c:
        fieldC: value3
    filter_x:
        fieldD: value4
    condition: 1 of sel_* and not all of filter_*
""",
    "all_of_them": """
    sel_a:
        fieldA:
            - v1
            - v2
    sel_b:
        fieldB|endswith:
            - e1
            - e2
    condition: all of them
""",
    "multi_condition": """
    sel1:
        fieldA: value1
    sel2:
        fieldB: value2
    condition:
        - sel1
        - sel1 and sel2
        - not sel1 or sel2
""",
    "special_chars": """
    sel:
        'field name': 'va"l\\*ue:&x'
        fieldB|contains: 'a*b?c'
        fieldC|startswith: '*'
    condition: sel
""",
    "base64_re_flags": """
    sel:
        fieldA|base64offset|contains: secret
        fieldB|re|i: 'a.*b'
    condition: sel
""",
    "unbound_null": """
    keywords:
        - null
    condition: keywords
""",
    "negated_in_map_values": """
    sel1:
        fieldA:
            - 1
            - 2
    sel2:
        fieldA|all:
            - 3
            - 4
    condition: not sel1 and not sel2
""",
}


def backend_class(name, **attrs):
    return type(name, (TextQueryTestBackend,), attrs)


CONFIGS = {
    "default": backend_class("DefaultBackend"),
    "parenthesize": backend_class("ParenthesizeBackend", parenthesize=True),
    "precedence_or_first": backend_class(
        "OrFirstBackend", precedence=(ConditionNOT, ConditionOR, ConditionAND)
    ),
    "precedence_not_last": backend_class(
        "NotLastBackend", precedence=(ConditionAND, ConditionOR, ConditionNOT)
    ),
    "no_in": backend_class("NoInBackend", convert_or_as_in=False, convert_and_as_in=False),
    "in_without_wildcards": backend_class(
        "InNoWildcardBackend", in_expressions_allow_wildcards=False, convert_and_as_in=False
    ),
    "separator_is_and": backend_class("SeparatorAndBackend", token_separator=" ", and_token=" "),
    "no_shortcuts": backend_class(
        "NoShortcutBackend",
        startswith_expression=None,
        endswith_expression=None,
        contains_expression=None,
        wildcard_match_expression=None,
        case_sensitive_startswith_expression=None,
        case_sensitive_endswith_expression=None,
        case_sensitive_contains_expression=None,
    ),
    "no_not_exists": backend_class("NoNotExistsBackend", field_not_exists_expression=None),
    "no_case_sensitive": backend_class(
        "NoCasedBackend",
        case_sensitive_match_expression=None,
        case_sensitive_startswith_expression=None,
        case_sensitive_endswith_expression=None,
        case_sensitive_contains_expression=None,
    ),
    "no_group": backend_class("NoGroupBackend", group_expression=None),
    "no_in_list_expression": backend_class("NoInListBackend", field_in_list_expression=None),
    "no_or_token": backend_class("NoOrTokenBackend", or_token=None, convert_or_as_in=False),
    "not_eq": backend_class(
        "NotEqBackend",
        convert_not_as_not_eq=True,
        not_eq_token="!=",
        not_eq_expression="{field}{backend.not_eq_token}{value}",
        not_startswith_expression="{field} not_startswith {value}",
        not_endswith_expression="{field} not_endswith {value}",
        not_contains_expression="{field} not_contains {value}",
        not_re_expression="{field}!=/{regex}/",
        not_cidr_expression="cidrnotmatch('{field}', \"{value}\")",
        case_sensitive_not_startswith_expression="{field} not_startswith_cased {value}",
        case_sensitive_not_endswith_expression="{field} not_endswith_cased {value}",
        case_sensitive_not_contains_expression="{field} not_contains_cased {value}",
    ),
    "unquoted_fields_strings": backend_class(
        "UnquotedBackend", field_quote=None, str_quote="", field_escape="\\"
    ),
}


class DeferredTestExpression(DeferredTextQueryExpression):
    template = '{field}{op}"{value}"'
    operators = {True: "!=", False: "="}
    default_field = "_"


class DeferredBackend(TextQueryTestBackend):
    """Regular expressions are deferred, so AND/OR/NOT see deferred expressions as arguments."""

    re_expression = "{regex}"
    re_escape = tuple()

    def convert_condition_field_eq_val_re(self, cond, state):
        return DeferredTestExpression(
            state, cond.field, super().convert_condition_field_eq_val_re(cond, state)
        )


class EmptyStringBackend(TextQueryTestBackend):
    """Numbers convert into empty strings: falsy, but still arguments that are joined."""

    def convert_condition_field_eq_val_num(self, cond, state):
        return ""


class NonStringBackend(TextQueryTestBackend):
    """Booleans convert into something that isn't a string: the join fails with a TypeError."""

    def convert_condition_field_eq_val_bool(self, cond, state):
        return 42


CONFIGS["deferred"] = DeferredBackend
CONFIGS["empty_expressions"] = backend_class(
    "EmptyExprBackend", empty_or_expression="<nothing>", empty_and_expression="<everything>"
)
CONFIGS["empty_string_args"] = EmptyStringBackend
CONFIGS["non_string_args"] = NonStringBackend
CONFIGS["separator_is_or"] = backend_class(
    "SeparatorOrBackend", token_separator="|", or_token="|", convert_or_as_in=False
)

DETECTIONS["deferred_positions"] = """
    sel1:
        fieldA|re: 'a.*'
        fieldB: b
    sel2:
        fieldC|re:
            - 'c1.*'
            - 'c2.*'
    sel3:
        fieldD|re: 'd.*'
    condition: sel1 and (sel2 or not sel3)
"""
DETECTIONS["only_deferred"] = """
    sel1:
        fieldA|re: 'a.*'
    sel2:
        fieldB|re: 'b.*'
    condition: sel1 or sel2
"""
DETECTIONS["numbers_and_bools"] = """
    sel1:
        fieldA: 1
        fieldB: 2
    sel2:
        fieldC: true
        fieldD: x
    condition: sel1 or sel2
"""


def convert_rules():
    for config_name, cls in CONFIGS.items():
        for rule_name, detection in DETECTIONS.items():
            try:
                backend = cls()
                result = backend.convert(SigmaCollection.from_yaml(HEADER + detection))
                print(f"[{config_name}] {rule_name}: {result!r}")
            except Exception as e:
                print(f"[{config_name}] {rule_name}: EXC {type(e).__name__}: {e}")
            # class-level templates must be restored after each conversion
            print(
                f"    templates: eq={cls.eq_expression!r} sw={cls.startswith_expression!r} "
                f"re={cls.re_expression!r}"
            )


def convert_hand_built_conditions():
    """Condition trees that the rule parser never builds: empty operators, None arguments,
    single-argument operators, expansion values below every operator, value-only expansions."""

    def fev(field, value):
        return ConditionFieldEqualsValueExpression(field, value)

    expansion = SigmaExpansion([SigmaString("e1"), SigmaString("e2*")])
    trees = {
        "empty_or": ConditionOR([]),
        "empty_and": ConditionAND([]),
        "or_of_none": ConditionOR([None, None]),
        "and_with_none": ConditionAND([None, fev("f", SigmaString("v"))]),
        "not_none": ConditionNOT([None]),
        "not_empty_or": ConditionNOT([ConditionOR([])]),
        "single_arg_or_in_and": ConditionAND(
            [ConditionOR([fev("f", SigmaString("v"))]), fev("g", SigmaNumber(1))]
        ),
        "expansion_in_and": ConditionAND([fev("f", expansion), fev("g", SigmaString("x"))]),
        "expansion_in_or": ConditionOR([fev("f", expansion), fev("g", SigmaString("x"))]),
        "expansion_in_not": ConditionNOT([fev("f", expansion)]),
        "value_expansion_in_and": ConditionAND(
            [ConditionValueExpression(expansion), ConditionValueExpression(SigmaString("kw"))]
        ),
        "not_exists_in_and": ConditionAND(
            [fev("f", SigmaExists(False)), fev("g", SigmaExists(True))]
        ),
        "not_not_exists": ConditionNOT([fev("f", SigmaExists(False))]),
        "in_list_different_fields": ConditionOR(
            [fev("f", SigmaString("a")), fev("g", SigmaString("b"))]
        ),
        "in_list_same_field_nested": ConditionAND(
            [
                ConditionOR([fev("f", SigmaString("a")), fev("f", SigmaNumber(2))]),
                ConditionAND([fev("f", SigmaString("c")), fev("f", SigmaString("d*"))]),
                ConditionNOT([ConditionOR([fev("h", SigmaString("x")), fev("h", SigmaString("y"))])]),
            ]
        ),
        "deep_nesting": ConditionOR(
            [
                ConditionAND(
                    [
                        ConditionNOT(
                            [ConditionAND([fev("a", SigmaNumber(1)), fev("b", SigmaNumber(2))])]
                        ),
                        ConditionOR([fev("c", SigmaNumber(3)), fev("d", SigmaNumber(4))]),
                    ]
                ),
                ConditionNOT([ConditionNOT([fev("e", SigmaNumber(5))])]),
            ]
        ),
    }
    def link(node, parent=None):
        """Set parent links and sources like postprocessing does, but keep the shape of the tree."""
        if node is None:
            return
        node.parent = parent
        node.source = None
        for arg in getattr(node, "args", []):
            link(arg, node)

    for tree in trees.values():
        link(tree)

    for config_name, cls in CONFIGS.items():
        for tree_name, tree in trees.items():
            try:
                backend = cls()
                result = backend.convert_condition(tree, ConversionState())
                print(f"[{config_name}] tree {tree_name}: {result!r}")
            except Exception as e:
                print(f"[{config_name}] tree {tree_name}: EXC {type(e).__name__}: {e}")
            for outer in (ConditionOR([]), ConditionAND([]), ConditionNOT([])):
                for inner in (tree, None):
                    try:
                        r = cls().compare_precedence(outer, inner)
                    except Exception as e:
                        r = f"EXC {type(e).__name__}: {e}"
                    print(
                        f"    precedence {type(outer).__name__} > "
                        f"{tree_name if inner is not None else None}: {r}"
                    )


def precedence_matrix():
    """compare_precedence for every pair of operator classes (regular and correlation), rule
    references, expressions, None and an outer class that isn't part of the precedence tuple."""
    from sigma.correlations import (
        CorrelationConditionAND,
        CorrelationConditionNOT,
        CorrelationConditionOR,
        SigmaRuleReference,
    )

    outers = [
        ConditionOR([]),
        ConditionAND([]),
        ConditionNOT([]),
        CorrelationConditionOR([]),
        CorrelationConditionAND([]),
        CorrelationConditionNOT([]),
        ConditionValueExpression(SigmaString("not an operator")),
    ]
    inners = outers + [
        SigmaRuleReference("rule"),
        ConditionFieldEqualsValueExpression("f", SigmaString("v")),
        ConditionFieldEqualsValueExpression("f", SigmaExists(False)),
        ConditionFieldEqualsValueExpression("f", SigmaExists(True)),
        ConditionFieldEqualsValueExpression("f", SigmaExpansion([SigmaString("v")])),
        ConditionValueExpression(SigmaExpansion([SigmaString("v")])),
        None,
        "a string",
    ]
    for config_name in ("default", "parenthesize", "precedence_or_first", "no_not_exists"):
        backend = CONFIGS[config_name]()
        for outer in outers:
            row = []
            for inner in inners:
                try:
                    row.append(str(backend.compare_precedence(outer, inner)))
                except Exception as e:
                    row.append(f"EXC {type(e).__name__}: {e}")
            print(f"[{config_name}] matrix {type(outer).__name__}: {' | '.join(row)}")
    print("precedence map unchanged:", CONFIGS["default"].precedence)


if __name__ == "__main__":
    convert_rules()
    precedence_matrix()
    convert_hand_built_conditions()
    sys.exit(0)
