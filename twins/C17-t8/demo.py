"""Placeholder expansion: parsing (expand modifier), cross product replacement and conversion."""
import itertools
import yaml

from sigma.backends.test import TextQueryTestBackend
from sigma.collection import SigmaCollection
from sigma.exceptions import SigmaError
from sigma.processing.pipeline import ProcessingPipeline
from sigma.types import (
    Placeholder,
    SigmaCasedString,
    SigmaRegularExpression,
    SigmaString,
    SpecialChars,
)


def show(label, fn):
    try:
        res = fn()
    except SigmaError as e:
        res = f"{type(e).__name__}: {e}"
    except Exception as e:  # unexpected ones are printed too, the outputs are compared
        res = f"!{type(e).__name__}: {e}"
    print(f"{label} -> {res}")


# 1. insert_placeholders on many raw strings
RAW = [
    "",
    "plain",
    "%a%",
    "%a%%b%",
    "x%a%y%b%z",
    "%a%*%b%?%c%",
    "*%a%",
    "\\%a%",
    "\\%a\\%",
    "%a\\%",
    "100\\%",
    "\\%%a%\\%",
    "%%",
    "%%a%%",
    "% %",
    "%a b%",
    "%a%b%",
    "%a%b%c%",
    "%a\\b%",
    "50% of %a% and 20%",
    "\\\\%a%",
    "\\*%a%\\?",
    "%ä%-%a.b%-%1%",
    "%a%\n%b%",
    "%\n%",
]
for raw in RAW:
    for cls in (SigmaString, SigmaCasedString):
        def run():
            orig = cls(raw)
            before = list(orig.s)
            res = orig.insert_placeholders()
            return (
                type(res).__name__,
                res.s,
                res is orig,
                orig.s == before,
                res.original,
                str(res),
            )
        show(f"insert {cls.__name__} {raw!r}", run)

# parts given directly (several string parts, special characters and placeholders in between)
s = SigmaString()
s.s = ["a%x%", SpecialChars.WILDCARD_MULTI, "%y%b\\%", Placeholder("kept"), "%", "z%"]
show("insert parts", lambda: s.insert_placeholders().s)
show("insert regex", lambda: repr(SigmaRegularExpression("a%x%.*\\%b%y%[%]").insert_placeholders()))


# 2. replace_placeholders with callbacks
def cb_values(p):
    yield from {"a": ["1", "2"], "b": ["x*", SigmaString("y?z")], "c": []}.get(p.name, [p])


def cb_wild(p):
    return iter([SpecialChars.WILDCARD_MULTI])


calls = []


def cb_recording(p):
    calls.append(p.name)
    yield "v-" + p.name
    yield SpecialChars.WILDCARD_SINGLE


for raw in ["%a%", "p%a%-%b%s", "%a%%a%", "%a%%c%", "%u%%a%", "no", "*%b%*", "%a%\\%x\\%%b%"]:
    for cls in (SigmaString, SigmaCasedString):
        v = cls(raw).insert_placeholders()
        show(
            f"replace values {cls.__name__} {raw!r}",
            lambda: [(type(r).__name__, r.s) for r in v.replace_placeholders(cb_values)],
        )
        show(f"replace wild {raw!r}", lambda: [r.s for r in v.replace_placeholders(cb_wild)])
        calls.clear()
        show(f"replace rec {raw!r}", lambda: [r.s for r in v.replace_placeholders(cb_recording)])
        print("   calls", calls, "unchanged", v.s)
plain = SigmaString("abc")
show("replace identity", lambda: plain.replace_placeholders(cb_values)[0] is plain)
rx = SigmaRegularExpression("^%a%.%b%$").insert_placeholders()
show("replace regex", lambda: [repr(r) for r in rx.replace_placeholders(cb_values)])
show("replace regex wild", lambda: [repr(r) for r in rx.replace_placeholders(cb_wild)])

# 3. whole conversion
RULE = """
title: t
logsource: {category: test}
detection:
  sel: %s
  condition: sel
"""
PIPELINES = {
    "none": "transformations: []",
    "values": """
vars: {a: [1, "two*"], b: "x", c: [], bad: [{k: v}]}
transformations:
- type: value_placeholders
""",
    "values_incl_a": """
vars: {a: [1, "two*"], b: "x"}
transformations:
- type: value_placeholders
  include: [a]
""",
    "values_excl_a_then_wild": """
vars: {a: [1, "two*"], b: ["x", "y"]}
transformations:
- type: value_placeholders
  exclude: [a]
- type: wildcard_placeholders
""",
    "wild": """
transformations:
- type: wildcard_placeholders
""",
    "query": """
transformations:
- type: query_expression_placeholders
  expression: "{field} lookup {id}"
  mapping: {a: list_a}
""",
}
SELECTIONS = [
    {"f|expand": "%a%"},
    {"f|expand": "p%a%m%b%s"},
    {"f|expand": ["%b%", "lit", "%a%\\%b\\%"]},
    {"f|expand|contains|all": ["%a%", "%b%"]},
    {"f|expand|startswith": "%b%\\%"},
    {"f|expand|endswith": "%c%x"},
    {"f|expand": "%bad%"},
    {"f|expand": "%undefined%"},
    {"f|re|expand": "^%a%\\.%b%$"},
    {"f|expand": "100\\% %%"},
    ["%a% kw", "*%b%"],
    {"|expand": ["%a% kw", "*%b%"]},
    {"f": "%a%"},
]
for (pname, ptext), sel in itertools.product(PIPELINES.items(), SELECTIONS):
    def run():
        backend = TextQueryTestBackend(ProcessingPipeline.from_yaml(ptext))
        rules = SigmaCollection.from_yaml(RULE % yaml.safe_dump(sel, default_flow_style=True).strip())
        return backend.convert(rules)
    show(f"convert {pname} {sel!r}", run)
