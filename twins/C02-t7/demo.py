"""Demo for property C02: condition text parses to the boolean function it spells.

Exercises SigmaCondition.parse()/.parsed (parse cache, error translation, postprocessing) on
rules built from dicts and prints truth tables, parse trees and error messages.
"""

import itertools
import sys

import sigma.conditions as sc
from sigma.conditions import (
    ConditionAND,
    ConditionFieldEqualsValueExpression,
    ConditionNOT,
    ConditionOR,
    SigmaCondition,
)
from sigma.exceptions import SigmaConditionError, SigmaRuleLocation
from sigma.rule import SigmaRule
from sigma.rule.detection import SigmaDetections

print("module:", sc.__file__.replace("/tmp/wt8-C02/", ""))

NAMES = [
    "sel",
    "sel1",
    "sel_2",
    "notable",
    "android",
    "oracle",
    "all_in",
    "anything",
    "of_x",
    "themselves",
    "filter-main",
    "_hidden",
    "_hid2",
    "_filt_abc_x",
    "1x",
]


def make_detections(names, condition):
    d = {n: {"f_" + n: "v"} for n in names}
    d["condition"] = condition
    return SigmaDetections.from_dict(d)


def evaluate(node, assignment):
    if isinstance(node, ConditionAND):
        return all(evaluate(a, assignment) for a in node.args)
    if isinstance(node, ConditionOR):
        return any(evaluate(a, assignment) for a in node.args)
    if isinstance(node, ConditionNOT):
        return not evaluate(node.args[0], assignment)
    if isinstance(node, ConditionFieldEqualsValueExpression):
        return assignment[node.field[2:]]
    raise TypeError(type(node))


def leaves(node):
    if isinstance(node, ConditionFieldEqualsValueExpression):
        return [node.field[2:]]
    return [l for a in node.args for l in leaves(a)]


def shape(node):
    """Structural rendering of a tree (parse tree or condition tree)."""
    if node is None:
        return "None"
    if isinstance(node, ConditionFieldEqualsValueExpression):
        return node.field[2:]
    if isinstance(node, sc.ConditionIdentifier):
        return "id:" + node.identifier
    if isinstance(node, sc.ConditionSelector):
        return "sel:%s/%s/%s" % (node.args[0], node.pattern, node.cond_class.__name__)
    return "%s(%s)" % (type(node).__name__[9:], ", ".join(shape(a) for a in node.args))


def parent_ok(node, parent=None):
    """Check parent links of operators in the postprocessed tree."""
    if isinstance(node, ConditionFieldEqualsValueExpression):
        return True
    return node.parent is parent and all(parent_ok(a, node) for a in node.args)


def truth_table(tree, used):
    bits = []
    for values in itertools.product([False, True], repeat=len(used)):
        bits.append("1" if evaluate(tree, dict(zip(used, values))) else "0")
    return "".join(bits)


def show(names, condition, source=None):
    dets = make_detections(names, condition)
    cond = SigmaCondition(condition, dets, source)
    try:
        raw = cond.parse(False)
        tree = cond.parsed
    except SigmaConditionError as e:
        print(
            "  %-48r -> %s: %s | source=%r | context=%s"
            % (
                condition if len(condition) < 60 else condition[:20] + "...(%d)" % len(condition),
                type(e).__name__,
                str(e)[:150],
                e.source,
                type(e.__context__).__name__,
            )
        )
        return
    used = sorted(set(leaves(tree)))
    if len(used) <= 5:
        tt = truth_table(tree, used)
    else:
        tt = "(%d vars)" % len(used)
    print("  %-48r -> raw %s" % (condition, shape(raw)))
    print("  %-48s    tree %s | vars %s | tt %s | parents %s" % ("", shape(tree), used, tt, parent_ok(tree)))


print("== precedence / associativity / parentheses")
for c in [
    "sel",
    "not sel",
    "not not sel",
    "sel or sel1 and sel_2",
    "sel and sel1 or sel_2",
    "not sel and sel1",
    "not sel or sel1",
    "not (sel or sel1)",
    "(sel or sel1) and sel_2",
    "sel and (sel1 or sel_2)",
    "sel or sel1 or sel_2",
    "sel and sel1 and sel_2 and notable",
    "sel and not sel1 or not sel_2 and notable",
    "((sel))",
    "(sel) and ((sel1) or (not (sel_2)))",
    "  sel   and\tsel1  ",
    "sel and sel",
]:
    show(NAMES, c)

print("== names beginning with keywords")
for c in [
    "notable",
    "not notable",
    "notable and android",
    "android or oracle",
    "not android and not oracle",
    "all_in or anything",
    "of_x and themselves",
    "not all_in and (anything or of_x)",
    "filter-main and not 1x",
    "1x",
]:
    show(NAMES, c)

print("== selectors")
for c in [
    "1 of sel*",
    "any of sel*",
    "all of sel*",
    "all of them",
    "1 of them",
    "1 of *",
    "all of s*l*",
    "1 of *2",
    "1 of *d*",
    "1 of _*",
    "all of _hid*",
    "1 of _filt_*",
    "1 of _filt_abc_*",
    "1 of sel",
    "all of sel1",
    "not 1 of sel*",
    "not all of sel* and notable",
    "1 of sel* and not all of a*",
    "(1 of sel*) or (all of o*)",
    "1 of a* or 1 of o*",
    "all of 1*",
    "1 of filter-*",
]:
    show(NAMES, c)

print("== errors")
loc = SigmaRuleLocation("demo-rule.yml")
for c, src in [
    ("sel | count() > 5", None),
    ("sel | count() > 5", loc),
    ("sel and", None),
    ("sel and", loc),
    ("and sel", None),
    ("sel sel1", loc),
    ("(sel or sel1", None),
    ("sel or sel1)", None),
    ("", None),
    ("   ", loc),
    ("not", None),
    ("sel && sel1", None),
    ("1 of", None),
    ("2 of sel*", None),
    ("some of sel*", loc),
    ("1 of zz*", None),
    ("1 of zz*", loc),
    ("all of _nothing*", None),
    ("missing", None),
    ("missing", loc),
    ("sel and missing", loc),
    ("not " * 3000 + "sel", None),
    ("not " * 3000 + "sel", loc),
    ("(" * 2000 + "sel" + ")" * 2000, loc),
    (" and ".join(["(sel or (sel1"] * 400) + "))" * 400, None),
]:
    show(NAMES, c, src)

print("== empty detections (arguments dropped)")
dets = make_detections(["a", "b", "c"], "a and b")
dets.detections["b"].detection_items.clear()
dets.detections["c"].detection_items.clear()
for c in ["a and b", "a or b", "b", "not b", "b and c", "a and (b or c)", "not (b or c) and a", "1 of *", "all of b*"]:
    t = SigmaCondition(c, dets).parsed
    print("  %-24r -> %s" % (c, shape(t)))

print("== parse cache: results are independent copies")
dets = make_detections(["a", "b", "c"], "a and (b or c)")
sc._parse_condition_string.cache_clear()
c1 = SigmaCondition("a and (b or c)", dets)
r1 = c1.parse(False)
r2 = c1.parse(False)
print("  equal:", r1 == r2, "| same object:", r1 is r2, "| same child:", r1.args[1] is r2.args[1])
r1.args.pop()
r1.args[0].identifier = "mutated"
r3 = c1.parse(False)
print("  after mutation of first result:", shape(r1), "|", shape(r3))
p1 = c1.parsed
p1.args.clear()
print("  postprocessed after clearing first tree:", shape(c1.parsed))
info = sc._parse_condition_string.cache_info()
print("  cache info: hits=%d misses=%d maxsize=%d currsize=%d" % (info.hits, info.misses, info.maxsize, info.currsize))
c_bad = SigmaCondition("a and and b", dets)
for _ in range(2):
    try:
        c_bad.parse()
    except SigmaConditionError as e:
        print("  bad twice:", e)
info = sc._parse_condition_string.cache_info()
print("  cache info: hits=%d misses=%d currsize=%d" % (info.hits, info.misses, info.currsize))

print("== source propagation")
dets = make_detections(["a", "b"], "a and not b")
t = SigmaCondition("a and not b", dets, loc).parsed
print("  root source:", t.source, "| not source:", t.args[1].source, "| leaf source:", t.args[0].source)
t = SigmaCondition("a and not b", dets).parsed
print("  root source:", t.source, "| not source:", t.args[1].source, "| leaf source:", t.args[0].source)
raw = SigmaCondition("a and not b", dets, loc).parse(False)
print("  raw root source:", raw.source, "| raw parent:", raw.parent)
leaf = ConditionFieldEqualsValueExpression("f", "v")
print("  fresh leaf has source attr:", hasattr(leaf, "source"))
leaf.postprocess(dets)
print("  after postprocess():", leaf.source, leaf.parent)
leaf.postprocess(dets, t, loc)
print("  after postprocess(parent, loc):", leaf.source, leaf.parent is t)
leaf.postprocess(dets)
print("  after postprocess() again:", leaf.source, leaf.parent)

print("== full rule from dict")
rule = SigmaRule.from_dict(
    {
        "title": "demo",
        "logsource": {"category": "test"},
        "detection": {
            "selection_a": {"x": 1},
            "selection_b": {"y": [2, 3]},
            "notfilter": {"z": "q*"},
            "_internal": {"w": 0},
            "condition": ["1 of selection_* and not notfilter", "all of them"],
        },
    }
)
for pc in rule.detection.parsed_condition:
    t = pc.parsed
    print("  %r -> %r" % (pc.condition, t))

print("== exhaustive small expressions over (notable, android, oracle)")
V = ["notable", "android", "oracle"]


def exprs(depth):
    if depth == 0:
        for v in V:
            yield v
        return
    for e in exprs(depth - 1):
        yield e
        yield "not " + e
        yield "(" + e + ")"
    subs = list(exprs(depth - 1))
    for a in subs:
        for b in V:
            yield a + " and " + b
            yield a + " or " + b
            yield b + " or " + a
            yield "not " + b + " and (" + a + ")"


seen = set()
lines = []
for e in exprs(2):
    if e in seen:
        continue
    seen.add(e)
    dets = make_detections(V, e)
    tree = SigmaCondition(e, dets).parsed
    lines.append("%s => %s" % (e, truth_table(tree, V)))
import hashlib

print("  expressions:", len(lines))
print("  digest:", hashlib.sha256("\n".join(lines).encode()).hexdigest())
for l in lines[:: max(1, len(lines) // 25)]:
    print("  ", l)

sys.exit(0)
