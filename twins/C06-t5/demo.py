"""Round trip of correlation rules (and, for completeness, filters and plain rules) through
to_dict()/YAML and back, including conversion with the test backend."""
import yaml
from sigma.collection import SigmaCollection
from sigma.correlations import (
    SigmaCorrelationRule,
    SigmaCorrelationCondition,
    SigmaCorrelationConditionOperator,
    SigmaCorrelationFieldAliases,
    SigmaCorrelationFieldAlias,
    SigmaCorrelationTimespan,
    SigmaCorrelationType,
    SigmaRuleReference,
)
from sigma.filters import SigmaFilter
from sigma.rule import SigmaRule
from sigma.exceptions import SigmaError
from sigma.backends.test import TextQueryTestBackend
from sigma.processing.pipeline import ProcessingPipeline, ProcessingItem
from sigma.processing.transformations import FieldMappingTransformation, SetCustomAttributeTransformation


def show(label, fn):
    try:
        print(label, "->", repr(fn()))
    except SigmaError as e:
        print(label, "-> SigmaError", type(e).__name__, str(e))
    except Exception as e:
        print(label, "-> Exception", type(e).__name__, str(e))


BASE_RULES = [
    {
        "title": "Failed logon",
        "name": "failed_logon",
        "logsource": {"product": "windows", "service": "security"},
        "detection": {"selection": {"EventID": 4625}, "condition": "selection"},
    },
    {
        "title": "Successful logon",
        "name": "successful_logon",
        "logsource": {"product": "windows", "service": "security"},
        "detection": {"selection": {"EventID": 4624}, "condition": "selection"},
    },
]

META = {
    "title": "Correlation",
    "id": "0e95725d-7320-415d-80f7-004da920fc11",
    "name": "corr",
    "status": "test",
    "level": "high",
    "author": "me",
    "description": "desc",
    "license": "MIT",
    "references": ["https://example.org"],
    "falsepositives": ["none"],
    "tags": ["attack.t1110", "cve.2024-1234"],
    "related": [{"id": "929a690e-bef0-4204-a928-ef5e620d6fcc", "type": "derived"}],
    "custom": {"x": [1, 2]},
}

CORRELATIONS = {
    "event_count": (
        {**META, "date": "2024-01-02", "modified": "2024/03/04"},
        {
            "type": "event_count",
            "rules": ["failed_logon"],
            "group-by": ["TargetUserName", "TargetDomainName"],
            "timespan": "5m",
            "condition": {"gte": 10},
        },
    ),
    "event_count minimal": (
        {"title": "min"},
        {"type": "event_count", "rules": "failed_logon", "timespan": "1h", "condition": {"gt": 1}},
    ),
    "value_count with field": (
        {"title": "vc", "date": "2024/01/02"},
        {
            "type": "value_count",
            "rules": ["failed_logon", "successful_logon"],
            "group-by": "ComputerName",
            "timespan": "1d",
            "condition": {"lt": 3, "field": "TargetUserName"},
        },
    ),
    "value_count field list": (
        {"title": "vc2"},
        {
            "type": "value_count",
            "rules": ["failed_logon"],
            "timespan": "2w",
            "condition": {"lte": 3.5, "field": ["TargetUserName", "IpAddress"]},
        },
    ),
    "value_percentile": (
        {"title": "pct"},
        {
            "type": "value_percentile",
            "rules": ["failed_logon"],
            "group-by": ["SourceIP"],
            "timespan": "15m",
            "condition": {"gte": 500, "field": "Latency", "percentile": 95},
        },
    ),
    "value_percentile zero / float": (
        {"title": "pct0"},
        {
            "type": "value_percentile",
            "rules": ["failed_logon"],
            "timespan": "15m",
            "condition": {"eq": 0, "field": "Latency", "percentile": 0},
        },
    ),
    "value_median float percentile": (
        {"title": "med"},
        {
            "type": "value_median",
            "rules": ["failed_logon"],
            "timespan": "30s",
            "condition": {"neq": 1.0, "field": "Latency", "percentile": 99.9},
        },
    ),
    "value_sum": (
        {"title": "sum"},
        {
            "type": "value_sum",
            "rules": ["failed_logon"],
            "timespan": "1M",
            "condition": {"gt": 1000, "field": "Bytes"},
        },
    ),
    "value_avg": (
        {"title": "avg"},
        {
            "type": "value_avg",
            "rules": ["failed_logon"],
            "timespan": "1y",
            "condition": {"gt": 10, "field": "Bytes"},
        },
    ),
    "temporal with aliases + generate": (
        {"title": "temporal"},
        {
            "type": "temporal",
            "rules": ["failed_logon", "successful_logon"],
            "generate": True,
            "group-by": ["user"],
            "timespan": "10m",
            "aliases": {
                "user": {"failed_logon": "TargetUserName", "successful_logon": "SubjectUserName"},
                "host": {"failed_logon": "ComputerName"},
            },
        },
    ),
    "temporal generate false": (
        {"title": "temporal"},
        {
            "type": "temporal",
            "rules": ["failed_logon", "successful_logon"],
            "generate": False,
            "timespan": "10m",
            "aliases": {},
        },
    ),
    "temporal_ordered with condition": (
        {"title": "ordered"},
        {
            "type": "temporal_ordered",
            "rules": ["failed_logon", "successful_logon"],
            "group-by": ["TargetUserName"],
            "timespan": "10m",
            "condition": {"gte": 2},
        },
    ),
    "temporal extended condition, no rules": (
        {"title": "ext"},
        {
            "type": "temporal",
            "group-by": ["TargetUserName"],
            "timespan": "5m",
            "condition": "failed_logon and not successful_logon",
        },
    ),
    "temporal extended condition with rules": (
        {"title": "ext2"},
        {
            "type": "temporal_ordered",
            "rules": ["failed_logon", "successful_logon"],
            "timespan": "5m",
            "condition": "failed_logon or successful_logon",
        },
    ),
    "invalid: value_count without field": (
        {"title": "bad"},
        {"type": "value_count", "rules": ["failed_logon"], "timespan": "5m", "condition": {"gte": 1}},
    ),
    "invalid: two operators": (
        {"title": "bad"},
        {"type": "event_count", "rules": ["failed_logon"], "timespan": "5m", "condition": {"gte": 1, "lt": 2}},
    ),
    "invalid: alias mapping": (
        {"title": "bad"},
        {"type": "temporal", "rules": ["failed_logon"], "timespan": "5m", "aliases": {"user": "x"}},
    ),
}

backend = TextQueryTestBackend()


def collection(corr_dict):
    return SigmaCollection.from_dicts([*BASE_RULES, corr_dict])


print("== correlation rule round trips")
for name, (meta, corr) in CORRELATIONS.items():
    doc = {**meta, "correlation": corr}

    def roundtrip():
        rule = SigmaCorrelationRule.from_dict(doc)
        d = rule.to_dict()
        rule2 = SigmaCorrelationRule.from_dict(d)
        y = yaml.safe_dump(d, sort_keys=False)
        rule3 = SigmaCorrelationRule.from_yaml(y)
        return d, list(d["correlation"].keys()), rule2.to_dict() == d, rule3.to_dict() == d, rule2 == rule

    show(name, roundtrip)

    def convert():
        rule = SigmaCorrelationRule.from_dict(doc)
        q1 = backend.convert(collection(doc))
        q2 = backend.convert(collection(rule.to_dict()))
        return q1, q1 == q2

    show(name + " [convert]", convert)

print("== collected errors")
for name in ("invalid: value_count without field", "invalid: two operators", "invalid: alias mapping"):
    meta, corr = CORRELATIONS[name]

    def collected():
        rule = SigmaCorrelationRule.from_dict({**meta, "correlation": corr}, collect_errors=True)
        return [type(e).__name__ for e in rule.errors], rule.to_dict()

    show(name, collected)
show("no correlation section", lambda: SigmaCorrelationRule.from_dict({"title": "x"}, collect_errors=True).to_dict())
show("empty document", lambda: SigmaCorrelationRule.from_dict({}, collect_errors=True).to_dict())

print("== programmatically built objects")
for op in SigmaCorrelationConditionOperator:
    for fieldref in (None, "", "f", [], ["f", "g"]):
        for percentile in (None, 0, 50, 99.5):
            show(
                f"cond {op.name} {fieldref!r} {percentile!r}",
                lambda: SigmaCorrelationCondition(op, 5, fieldref, percentile).to_dict(),
            )
a = SigmaCorrelationFieldAliases(
    {
        "u": SigmaCorrelationFieldAlias("u", {SigmaRuleReference("r1"): "f1", SigmaRuleReference("r2"): "f2"}),
        "empty": SigmaCorrelationFieldAlias("empty", {}),
    }
)
show("aliases", lambda: a.to_dict())
show("no aliases", lambda: SigmaCorrelationFieldAliases().to_dict())
show(
    "rule object",
    lambda: SigmaCorrelationRule(
        title="obj",
        type=SigmaCorrelationType.EVENT_COUNT,
        rules=[SigmaRuleReference("r1")],
        timespan=SigmaCorrelationTimespan("3h"),
        group_by=None,
        aliases=a,
        condition=SigmaCorrelationCondition(SigmaCorrelationConditionOperator.LT, 2),
    ).to_dict(),
)
show(
    "rule object, aliases None, generate",
    lambda: SigmaCorrelationRule(
        title="obj",
        type=SigmaCorrelationType.TEMPORAL,
        rules=[],
        generate=True,
        aliases=None,
    ).to_dict(),
)
show("rule object, defaults", lambda: SigmaCorrelationRule(title="obj", rules=[]).to_dict())

print("== after a pipeline")
for name in ("event_count", "temporal with aliases + generate", "value_percentile"):
    meta, corr = CORRELATIONS[name]

    def piped():
        coll = collection({**meta, "correlation": corr})
        pipeline = ProcessingPipeline(
            [
                ProcessingItem(FieldMappingTransformation({"TargetUserName": "user.name", "Latency": "lat"})),
                ProcessingItem(SetCustomAttributeTransformation("marker", "set")),
            ]
        )
        for rule in coll.rules:
            pipeline.apply(rule)
        d = coll.rules[-1].to_dict()
        return d, SigmaCorrelationRule.from_dict(d).to_dict() == d

    show(name, piped)

print("== filter and rule round trips")
FILTER = {
    "title": "Filter admins",
    "id": "1e95725d-7320-415d-80f7-004da920fc12",
    "date": "2024-05-06",
    "logsource": {"product": "windows", "service": "security", "extra": "x"},
    "filter": {"rules": ["failed_logon"], "selection": {"User|startswith": "adm_"}, "condition": "not selection"},
}


def filter_roundtrip(doc):
    f = SigmaFilter.from_dict(doc)
    d = f.to_dict()
    return d, SigmaFilter.from_dict(d).to_dict() == d, SigmaFilter.from_yaml(yaml.safe_dump(d)).to_dict() == d


show("filter", lambda: filter_roundtrip(FILTER))
show("filter any", lambda: filter_roundtrip({**FILTER, "filter": {**FILTER["filter"], "rules": "any"}}))
for r in BASE_RULES:
    def rule_roundtrip():
        rule = SigmaRule.from_dict(r)
        d = rule.to_dict()
        return d, SigmaRule.from_dict(d).to_dict() == d

    show("rule " + r["name"], rule_roundtrip)
