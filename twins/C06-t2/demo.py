"""
Demo for t2: SigmaString.to_plain (sigma/types.py), the per-type plain value of strings.

Sweeps strings built from plain text, backslashes, wildcards, escaped wildcards and placeholders,
prints the plain form with and without regex mode (and what depends on it: str(), bytes(), the regex
variant), reloads the plain form and compares, then does the same through whole rules (dict and YAML
round trip and conversion with the test backend) and for strings a pipeline has changed.
"""

import itertools
import sys

import yaml

from sigma.backends.test import TextQueryTestBackend
from sigma.collection import SigmaCollection
from sigma.exceptions import SigmaError
from sigma.processing.pipeline import ProcessingItem, ProcessingPipeline
from sigma.processing.transformations import (
    QueryExpressionPlaceholderTransformation,
    ReplaceStringTransformation,
    WildcardPlaceholderTransformation,
)
from sigma.rule import SigmaRule
from sigma.types import (
    Placeholder,
    SigmaCasedString,
    SigmaRegularExpression,
    SigmaString,
    SpecialChars,
    sigma_type,
)

mismatches = 0


def show(label, func):
    try:
        result = func()
        print(f"{label} -> {result!r}")
        return result
    except Exception as e:  # the class and the message are part of the observed behaviour
        print(f"{label} !! {type(e).__name__}: {e}")
        return None


def check(label, cond):
    global mismatches
    print(f"{label}: {'ok' if cond else 'MISMATCH'}")
    if not cond:
        mismatches += 1


print("== strings from text ==")
atoms = ["a", "*", "?", "\\", "\\*", "\\?", "\\\\", "%", " ", "é", "%ph%"]
texts = [""] + ["".join(parts) for n in (1, 2, 3) for parts in itertools.product(atoms, repeat=n)]
texts += [
    r"C:\Windows\System32\*\cmd.exe",
    r"\\server\share\?",
    r"100%\*",
    "%a%%b%",
    "%notclosed",
    "tab\tnew\nline",
    "*" * 5,
    "\\" * 7 + "*",
    "\\" * 8 + "?",
]
print(len(texts), "texts")
for text in texts:
    s = SigmaString(text)
    plain = s.to_plain()
    regex = s.to_plain(True)
    print(f"{text!r}: parts={s.s!r} plain={plain!r} regex={regex!r}")
    check(
        "  str/bytes/to_plain_regex/keyword forms agree",
        str(s) == plain
        and s.to_plain(regex=False) == plain
        and s.to_plain_regex() == regex
        and s.to_plain(regex=1) == regex
        and bytes(s) == regex.encode()
        and type(plain) is str
        and type(regex) is str,
    )
    check("  reload of plain form gives the same string", SigmaString(plain) == s)
    check("  sigma_type(plain).to_plain() == plain", sigma_type(plain).to_plain() == plain)

print("== strings with placeholders inserted ==")
for text in ["%user%", r"x\%user%*", "%a%?%b%", r"\*%a%\?", "%%", "%a b%", r"%a\%"]:
    s = SigmaString(text).insert_placeholders()
    show(f"{text!r} parts={s.s!r} plain", s.to_plain)
    show(f"{text!r} regex", lambda: s.to_plain(True))

print("== programmatically built strings ==")


def build(parts):
    s = SigmaString()
    s.s = parts
    return s


built = [
    [],
    ["plain*?"],
    ["a", "b*", "?c"],
    [SpecialChars.WILDCARD_MULTI],
    [SpecialChars.WILDCARD_SINGLE, SpecialChars.WILDCARD_MULTI, "x\\"],
    ["\\", SpecialChars.WILDCARD_MULTI],
    [Placeholder("name")],
    [Placeholder(""), "*", Placeholder("a%b")],
    [Placeholder(5)],
    [Placeholder(None), "?"],
    ["ok", 5],
    [None],
    ["*", b"bytes"],
    [SpecialChars.WILDCARD_MULTI, object],
    ("tuple*", SpecialChars.WILDCARD_SINGLE),
]
for parts in built:
    s = build(parts)
    show(f"{parts!r} plain", s.to_plain)
    show(f"{parts!r} regex", lambda: s.to_plain(True))
    show(f"{parts!r} str", lambda: str(s))


class MyStr(str):
    pass


s = build([MyStr("sub*class"), MyStr("?")])
for regex in (False, True):
    r = s.to_plain(regex)
    print(f"str subclass parts, regex={regex}: {r!r} {type(r).__name__}")
s = build([MyStr("only")])
for regex in (False, True):
    r = s.to_plain(regex)
    print(f"single str subclass part, regex={regex}: {r!r} {type(r).__name__}")

print("== other string types ==")
show("cased", SigmaCasedString("Ab*C\\*d").to_plain)
show("cased regex", lambda: SigmaCasedString("Ab*C\\*d").to_plain(True))
show("regular expression", SigmaRegularExpression(r"^a\*b*\d?\\$").to_plain)
show("concatenation", (SigmaString("a*") + "b?" + SpecialChars.WILDCARD_SINGLE + Placeholder("p")).to_plain)
show("concatenation left", ("*x" + SigmaString("\\*y")).to_plain)

print("== rules: dict and YAML round trip, conversion ==")
rule_template = """
title: Round trip {n}
status: test
logsource:
    product: windows
detection:
    sel:
        field{modifiers}: {value}
    kw:
        - {value}
        - other
    condition: sel or kw
"""
yaml_values = [
    r"'plain'",
    r"'wild*card?'",
    r"'literal\*star\?'",
    r"'backslash\\*wild'",
    r"'two\\\*literal'",
    r"'C:\Windows\*\cmd.exe'",
    r"'trailing\'",
    r"'trailing\\'",
    r"'%ph%\*'",
    r"''",
]
backend = TextQueryTestBackend()
for n, (modifiers, value) in enumerate(
    itertools.product(["", "|contains", "|endswith", "|re", "|cased", "|base64"], yaml_values)
):
    try:
        rule = SigmaRule.from_yaml(rule_template.format(n=n, modifiers=modifiers, value=value))
    except SigmaError as e:
        print(f"rule {n} ({modifiers} {value}) load !! {type(e).__name__}: {e}")
        continue
    d = show(f"rule {n} ({modifiers} {value}) detection dict", lambda: rule.to_dict()["detection"])
    if d is None:
        continue
    dumped = yaml.safe_dump(rule.to_dict()["detection"], sort_keys=False)
    print(dumped, end="")
    try:
        reloaded = SigmaRule.from_dict(rule.to_dict())
        from_yaml = SigmaRule.from_yaml(yaml.safe_dump(rule.to_dict(), sort_keys=False))
    except SigmaError as e:
        print(f"rule {n} reload !! {type(e).__name__}: {e}")
        continue
    check(f"rule {n} reloaded dict equal", reloaded.to_dict() == rule.to_dict())
    check(f"rule {n} yaml reloaded dict equal", from_yaml.to_dict() == rule.to_dict())
    queries = [
        show(f"rule {n} convert {name}", lambda r=r: backend.convert(SigmaCollection([r])))
        for name, r in (("original", rule), ("reloaded", reloaded), ("yaml", from_yaml))
    ]
    check(f"rule {n} same queries", queries[0] == queries[1] == queries[2])

print("== rules after a pipeline transformation ==")
pipelines = {
    "replace string": ProcessingPipeline(
        [ProcessingItem(ReplaceStringTransformation(regex="a", replacement="*b?"))]
    ),
    "wildcard placeholders": ProcessingPipeline(
        [ProcessingItem(WildcardPlaceholderTransformation())]
    ),
    "query expression placeholders": ProcessingPipeline(
        [
            ProcessingItem(
                QueryExpressionPlaceholderTransformation(
                    expression="{field} lookup {id}", mapping={"ph": "mapped"}
                )
            )
        ]
    ),
}
for name, pipeline in pipelines.items():
    for n, value in enumerate(yaml_values):
        for modifiers in ("", "|expand"):
            rule = SigmaRule.from_yaml(rule_template.format(n=n, modifiers=modifiers, value=value))
            try:
                pipeline.apply(rule)
            except SigmaError as e:
                print(f"{name} / {modifiers} {value} apply !! {type(e).__name__}: {e}")
                continue
            show(f"{name} / {modifiers} {value} detection dict", lambda: rule.to_dict()["detection"])
            show(
                f"{name} / {modifiers} {value} values",
                lambda: [
                    (str(v), v.to_plain(True)) if isinstance(v, SigmaString) else repr(v)
                    for item in rule.detection.detections["sel"].detection_items
                    for v in item.value
                ],
            )

# Mismatches are observations about HEAD (the property is known not to hold everywhere); the demo only
# has to show that the observations are the same with and without the patch.
print("observed mismatches:", mismatches)
sys.exit(0)
