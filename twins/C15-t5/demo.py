"""Demo for property C15: converting a rule gives the same result whatever was converted before.

Exercises the two process-wide caches the property names: the LRU cache of condition parses
(sigma.conditions) and the per-class cache of modifier type hints (sigma.modifiers). Rules that
share condition strings, detection names and field names are parsed / converted after various
histories; everything observed is printed.
"""

import sys
from typing import Any, Union

import sigma.conditions
import sigma.modifiers
from sigma.backends.test import TextQueryTestBackend
from sigma.collection import SigmaCollection
from sigma.conditions import SigmaCondition, _parse_condition_string
from sigma.exceptions import SigmaError
from sigma.modifiers import SigmaModifier, SigmaValueModifier, modifier_mapping
from sigma.processing.pipeline import ProcessingPipeline
from sigma.rule import SigmaDetectionItem, SigmaRule
from sigma.types import SigmaNumber, SigmaString

pass

PIPELINE = """
name: demo
priority: 10
transformations:
  - id: map
    type: field_name_mapping
    mapping:
      User: user.name
  - id: drop
    type: drop_detection_item
    field_name_conditions:
      - type: include_fields
        fields:
          - Noise
"""

HEAD = "title: {t}\nlogsource:\n    product: windows\ndetection:\n"


def mk(title, detection):
    return HEAD.format(t=title) + detection


# Rules deliberately share condition strings and detection names but differ in content.
RULES = {
    "a1": mk("a1", "    sel:\n        User: admin\n    filter:\n        Image|endswith: x.exe\n    condition: sel and not filter\n"),
    "a2": mk("a2", "    sel:\n        - foo\n        - bar\n    filter:\n        Other|re: 'a.*b'\n    condition: sel and not filter\n"),
    "a3": mk("a3", "    sel:\n        Noise: 1\n    filter:\n        Noise: 2\n    condition: sel and not filter\n"),
    "b1": mk("b1", "    sel1:\n        a: 1\n    sel2:\n        b: 2\n    other:\n        c: 3\n    condition: 1 of sel* or all of them\n"),
    "b2": mk("b2", "    sel1:\n        x|contains|all:\n            - p\n            - q\n    selfoo:\n        y|base64offset|contains: secret\n    condition: 1 of sel* or all of them\n"),
    "c1": mk("c1", "    sel:\n        f|cidr: 192.168.0.0/16\n        g|gte: 5\n        h|exists: true\n    condition: (sel)\n"),
    "c2": mk("c2", "    sel:\n        f|windash|contains: ' -x'\n        g|wide|base64: hi\n        h|expand: '%var%'\n    condition: (sel)\n"),
    "not50": mk("not50", "    sel:\n        a: 1\n    condition: " + "not " * 50 + "sel\n"),
    "not400": mk("not400", "    sel:\n        a: 1\n    condition: " + "not " * 400 + "sel\n"),
    "paren8": mk("paren8", "    sel:\n        a: 1\n    condition: " + "(" * 8 + "sel" + ")" * 8 + "\n"),
    "paren50": mk("paren50", "    sel:\n        a: 1\n    condition: " + "(" * 50 + "sel" + ")" * 50 + "\n"),
    "e_missing": mk("e_missing", "    sel:\n        User: admin\n    condition: sel and not filter\n"),
    "e_syntax": mk("e_syntax", "    sel:\n        User: admin\n    condition: sel and not\n"),
    "e_pipe": mk("e_pipe", "    sel:\n        User: admin\n    condition: sel | count() by User > 2\n"),
    "e_nomatch": mk("e_nomatch", "    sel:\n        User: admin\n    condition: 1 of nothing*\n"),
    "e_type1": mk("e_type1", "    sel:\n        User|re|contains: 'a.*'\n    condition: sel\n"),
    "e_type2": mk("e_type2", "    sel:\n        User|base64: 123\n    condition: sel\n"),
    "e_type3": mk("e_type3", "    sel:\n        User|cidr|startswith: 10.0.0.0/8\n    condition: sel\n"),
    "e_type4": mk("e_type4", "    sel:\n        User|contains|all: single\n    condition: sel and not filter\n"),
    "e_value": mk("e_value", "    sel:\n        User|gt: abc\n    condition: sel\n"),
}


def describe(exc):
    return f"{type(exc).__name__}: {exc}"


def tree(node):
    """Structural description of a condition / parse tree."""
    args = getattr(node, "args", None)
    if args is not None:
        return (type(node).__name__, [tree(a) for a in args])
    if hasattr(node, "field"):
        return (type(node).__name__, node.field, str(node.value))
    if hasattr(node, "value"):
        return (type(node).__name__, str(node.value))
    return (type(node).__name__, repr(node))


def observe(backend, name):
    """Load, parse (both modes) and convert a rule; describe everything observable."""
    out = {}
    n_errors = len(backend.errors)
    try:
        r = SigmaRule.from_yaml(RULES[name])
    except Exception as e:  # noqa
        return {"load": describe(e)}
    cond = r.detection.parsed_condition[0]
    for label, pp in (("raw", False), ("post", True)):
        try:
            t1 = cond.parse(pp)
            t2 = cond.parse(pp)
            out[label] = (tree(t1)[0], str(tree(t1))[:300], t1 is not t2, tree(t1) == tree(t2))
            if not pp:
                cached = _parse_condition_string(cond.condition)
                out["raw_is_private_copy"] = t1 is not cached and tree(cached) == tree(t1)
                out["cached_parent_untouched"] = getattr(cached, "parent", None) is None
        except Exception as e:  # noqa
            out[label] = describe(e)
    try:
        out["convert_rule"] = backend.convert_rule(r)
    except Exception as e:  # noqa
        out["convert_rule"] = describe(e)
    r2 = SigmaRule.from_yaml(RULES[name])
    try:
        out["convert"] = backend.convert(SigmaCollection([r2]), "test")
    except Exception as e:  # noqa
        out["convert"] = describe(e)
    out["errors"] = [(e[0].title, describe(e[1])) for e in backend.errors[n_errors:]]
    return out


def fresh_backend(collect=False):
    _parse_condition_string.cache_clear()
    SigmaModifier._type_hint_cache.clear()
    return TextQueryTestBackend(ProcessingPipeline.from_yaml(PIPELINE), collect_errors=collect)


HISTORIES = [
    ["a1"],
    ["a2", "a3", "e_missing", "e_type4"],
    ["e_syntax", "e_pipe", "e_nomatch", "e_type1", "e_type2", "e_type3", "e_value", "not400"],
    ["b1", "b2", "c1", "c2", "not50", "paren8", "paren50", "a1"],
]

mismatches = 0
for collect in (False, True):
    for probe in RULES:
        reference = observe(fresh_backend(collect), probe)
        print(f"collect={collect} probe={probe}: {reference}")
        for hno, history in enumerate(HISTORIES):
            backend = fresh_backend(collect)
            for h in history:
                observe(backend, h)
            TextQueryTestBackend(backend.processing_pipeline).convert_rule(
                SigmaRule.from_yaml(RULES["a1"])
            )
            observed = observe(backend, probe)
            if observed != reference:
                mismatches += 1
                print(f"  MISMATCH after history {hno}: {observed}")

# ---- modifier type hint cache, looked at directly -------------------------------------------
SigmaModifier._type_hint_cache.clear()
item = SigmaDetectionItem("f", [], [SigmaString("x")])


class UnionMod(SigmaValueModifier):
    def modify(self, val: Union[SigmaString, SigmaNumber]) -> SigmaString:
        return SigmaString("u")


class PipeUnionMod(SigmaValueModifier):
    def modify(self, val: SigmaString | SigmaNumber) -> SigmaString:
        return SigmaString("p")


class PipeUnionSub(PipeUnionMod):
    def modify(self, val: SigmaNumber) -> SigmaString:  # narrower than parent
        return SigmaString("s")


class AnyMod(SigmaValueModifier):
    def modify(self, val: Any) -> SigmaString:
        return SigmaString("a")


class ListMod(SigmaValueModifier):
    def modify(self, val: list[SigmaString | SigmaNumber]) -> SigmaString:
        return SigmaString("l")


class GenericInUnion(SigmaValueModifier):
    def modify(self, val: Union[SigmaNumber, list[SigmaString]]) -> SigmaString:
        return SigmaString("g")


class NoValParam(SigmaValueModifier):
    def modify(self, value: SigmaString) -> SigmaString:  # parameter has the wrong name
        return value


class UnresolvableHint(SigmaValueModifier):
    def modify(self, val: "DoesNotExistAnywhere") -> SigmaString:  # noqa
        return SigmaString("x")


VALUES = [
    SigmaString("abc"),
    SigmaNumber(5),
    [SigmaString("a"), SigmaNumber(1)],
    [SigmaString("a"), "plain"],
    [],
    "plain str",
    None,
]
CLASSES = [
    UnionMod,
    PipeUnionMod,
    PipeUnionSub,
    AnyMod,
    ListMod,
    GenericInUnion,
    NoValParam,
    UnresolvableHint,
] + [modifier_mapping[k] for k in sorted(modifier_mapping)]

for round_no in (1, 2):  # second round is served from the cache
    for mcls in CLASSES:
        row = []
        for v in VALUES:
            m = mcls(item, [])
            try:
                row.append(m.type_check(v))
            except Exception as e:  # noqa
                row.append(describe(e))
            try:
                row.append(m.type_check(v, explicit_type=SigmaNumber))
            except Exception as e:  # noqa
                row.append(describe(e))
        print(f"type_check round {round_no} {mcls.__name__}: {row}")
    print(
        f"cache after round {round_no}:",
        sorted((c.__name__, str(h)) for c, h in SigmaModifier._type_hint_cache.items()),
    )

for mcls in (UnionMod, PipeUnionSub, ListMod, NoValParam, GenericInUnion):
    for v in (SigmaString("abc"), SigmaNumber(1), [SigmaString("q")]):
        try:
            print(f"apply {mcls.__name__} {v!r}:", mcls(item, []).apply(v))
        except Exception as e:  # noqa
            print(f"apply {mcls.__name__} {v!r}:", describe(e))

# ---- condition parse cache, looked at directly ----------------------------------------------
_parse_condition_string.cache_clear()
r1 = SigmaRule.from_yaml(RULES["a1"])
r2 = SigmaRule.from_yaml(RULES["a2"])
c1, c2 = r1.detection.parsed_condition[0], r2.detection.parsed_condition[0]
p1 = c1.parse(False)
p1.args[0] = "tampered"  # mutate the tree that was handed out
print("after tampering:", tree(c2.parse(False)), "|", tree(c2.parsed), "|", tree(c1.parsed))
info = _parse_condition_string.cache_info()
print("cache info:", info.hits, info.misses, info.currsize)
for bad in ("sel and", "", "1 of", "sel or or sel", "(sel", "sel | x"):
    for pp in (False, True):
        try:
            print(f"parse {bad!r} postprocess={pp}:", tree(SigmaCondition(bad, r1.detection).parse(pp)))
        except Exception as e:  # noqa
            print(f"parse {bad!r} postprocess={pp}:", describe(e))
info = _parse_condition_string.cache_info()
print("cache info:", info.hits, info.misses, info.currsize)

print("mismatches:", mismatches)
sys.exit(0 if mismatches == 0 else 1)
