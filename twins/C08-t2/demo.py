"""
Demo for property C08: a failing rule never changes other rules' output; every query is
accounted for. Converts collections with failing rules at every position and every stage, in
collecting and raising mode, and compares with converting each rule on its own.

Run: PYTHONPATH=/tmp/wt5-C08 /venv/bin/python demo.py
"""

import itertools
import sys

import sigma.types
from sigma.backends.test import TextQueryTestBackend
from sigma.collection import SigmaCollection
from sigma.exceptions import SigmaError
from sigma.processing.conditions import RuleContainsDetectionItemCondition, LogsourceCondition
from sigma.processing.pipeline import ProcessingItem, ProcessingPipeline, QueryPostprocessingItem
from sigma.processing.postprocessing import EmbedQueryTransformation
from sigma.processing.transformations import (
    FieldMappingTransformation,
    RuleFailureTransformation,
    SetStateTransformation,
    AddConditionTransformation,
    DropDetectionItemTransformation,
)
from sigma.processing.conditions import IncludeFieldCondition

print("imported from", sigma.types.__file__)

HEAD = """
title: {title}
status: test
logsource:
    category: {category}
    product: test_product
"""

RULES = {
    # good rules
    "good1": HEAD.format(title="good1", category="cat_a")
    + """
detection:
    sel:
        fieldA: valueA
        fieldB: valueB
    condition: sel
""",
    "good2_multi": HEAD.format(title="good2_multi", category="cat_a")
    + """
detection:
    sel1:
        fieldA: val*ue
    sel2:
        fieldC|re: 'a.*b'
    sel3:
        - kw1
        - kw2
    condition:
        - sel1
        - sel2 and not sel3
        - 1 of sel*
""",
    "good3_in": HEAD.format(title="good3_in", category="cat_b")
    + """
detection:
    sel:
        fieldA:
            - v1
            - v2
            - v3
        fieldD|cidr: 192.168.0.0/16
    filter:
        fieldB: null
    condition: sel and not filter
""",
    # failing: pipeline failure transformation (category fail_me)
    "fail_pipeline": HEAD.format(title="fail_pipeline", category="fail_me")
    + """
detection:
    sel:
        fieldA: valueX
    condition: sel
""",
    # failing: unresolved placeholder
    "fail_placeholder": HEAD.format(title="fail_placeholder", category="cat_a")
    + """
detection:
    sel:
        fieldA|expand: '%unresolved%'
    condition: sel
""",
    # failing: value type not supported (bool/cidr without field -> SigmaValueError)
    "fail_valuetype": HEAD.format(title="fail_valuetype", category="cat_a")
    + """
detection:
    sel:
        "|cidr": 192.168.0.0/16
    condition: sel
""",
    # failing: condition names a missing detection; second condition of two
    "fail_condition": HEAD.format(title="fail_condition", category="cat_b")
    + """
detection:
    sel:
        fieldA: valueA
    condition:
        - sel
        - sel and missing
""",
    # failing: feature not supported by the backend (NotImplementedError), in the second condition
    "fail_notimpl": HEAD.format(title="fail_notimpl", category="cat_b")
    + """
detection:
    sel1:
        fieldA: ok
    sel2:
        fieldX|exists: true
    condition:
        - sel1
        - sel1 and sel2
""",
    # failing: third of three conditions has an unsupported value
    "fail_multi_second": HEAD.format(title="fail_multi_second", category="cat_a")
    + """
detection:
    sel1:
        fieldA: ok
    sel2:
        "|re": 'a.*'
    sel3: true
    condition:
        - sel1
        - sel2
        - sel3
""",
}


def make_pipeline():
    return ProcessingPipeline(
        [
            ProcessingItem(
                FieldMappingTransformation({"fieldA": "mappedA", "fieldC": ["c1", "c2"]}),
                identifier="mapping",
            ),
            ProcessingItem(
                SetStateTransformation("index", "idx_b"),
                rule_conditions=[LogsourceCondition(category="cat_b")],
                identifier="state_b",
            ),
            ProcessingItem(
                RuleFailureTransformation("rule refused by pipeline"),
                rule_conditions=[LogsourceCondition(category="fail_me")],
                identifier="failure",
            ),
            ProcessingItem(
                AddConditionTransformation({"added": "by_pipeline"}),
                rule_conditions=[LogsourceCondition(category="cat_a")],
                identifier="addcond",
            ),
        ],
        [
            QueryPostprocessingItem(
                EmbedQueryTransformation(prefix="[", suffix="]"), identifier="embed"
            )
        ],
    )


class NoExistsBackend(TextQueryTestBackend):
    """Test backend without support for exists expressions (raises NotImplementedError)."""

    def convert_condition_field_eq_val_exists(self, cond, state):
        raise NotImplementedError("Field exists expressions are not supported by the backend.")


def make_backend(with_pipeline, collect):
    backend = NoExistsBackend(make_pipeline() if with_pipeline else None)
    backend.collect_errors = collect
    return backend


def collection_of(names):
    return SigmaCollection.from_yaml("\n---\n".join(RULES[n] for n in names))


def describe_error(e):
    # AddConditionTransformation names its detection randomly (_cond_ + 10 letters): mask it
    import re

    return re.sub(r"_cond_[a-z]{10}", "_cond_<random>", f"{type(e).__name__}: {e}")


def convert_alone(name, with_pipeline):
    """Fresh backend, fresh rule, raising mode."""
    backend = make_backend(with_pipeline, False)
    try:
        return ("ok", backend.convert(collection_of([name])))
    except Exception as e:  # noqa
        return ("err", describe_error(e))


def run(names, with_pipeline, fmt=None):
    mismatches = 0
    label = f"{'+'.join(names)} pipeline={with_pipeline} format={fmt}"
    # collecting mode
    backend = make_backend(with_pipeline, True)
    coll = collection_of(names)
    try:
        result = backend.convert(coll, fmt)
    except Exception as e:  # a non-Sigma, non-NotImplemented error propagates also here
        print(f"[collect] {label}\n    RAISED {describe_error(e)}")
        result = None
    if result is not None:
        print(f"[collect] {label}")
        print("    result:", result)
        for rule, err in backend.errors:
            print(f"    error : {rule.title} -> {describe_error(err)}")
        print(
            "    rule state:",
            [
                (
                    r.title,
                    r._output,
                    len(getattr(r, "_conversion_result", None) or []),
                    len(getattr(r, "_conversion_states", None) or []),
                )
                for r in coll.rules
            ],
        )
        print(
            "    pipeline :",
            backend.last_processing_pipeline.applied,
            sorted(backend.last_processing_pipeline.applied_ids),
            backend.last_processing_pipeline.state,
        )
        # compare with per-rule fresh conversions (default format only: the queries are a list)
        if fmt is None:
            expected = []
            expected_failed = []
            for n in names:
                kind, value = convert_alone(n, with_pipeline)
                if kind == "ok":
                    expected.extend(value)
                else:
                    expected_failed.append(n)
            got_failed = [rule.title for rule, _ in backend.errors]
            same = expected == result and expected_failed == got_failed
            print("    isolation holds:", same)
            if not same:
                mismatches += 1
                print("      expected:", expected, expected_failed)
    # raising mode
    backend = make_backend(with_pipeline, False)
    coll = collection_of(names)
    try:
        result = backend.convert(coll, fmt)
        print(f"[raise]   {label}\n    result:", result, "errors:", backend.errors)
    except Exception as e:
        print(f"[raise]   {label}\n    RAISED {describe_error(e)} args={e.args!r}")
        print("    errors list:", backend.errors)
    return mismatches


def pipeline_section():
    """Direct use of ProcessingPipeline.apply()/postprocess_query(): tracking is reset per rule."""
    from sigma.exceptions import SigmaTransformationError

    pipeline = make_pipeline()
    rules = collection_of(["good3_in", "fail_pipeline", "good1", "fail_condition"]).rules
    initial = {"given": 1}
    for rule in rules:
        for state in (None, initial, {}):
            try:
                returned = pipeline.apply(rule, state) if state is not None else pipeline.apply(rule)
                outcome = "returned same rule: " + str(returned is rule)
            except SigmaTransformationError as e:
                outcome = "RAISED " + describe_error(e)
            print(
                "[pipeline]",
                rule.title,
                state,
                outcome,
                pipeline.applied,
                sorted(pipeline.applied_ids),
                pipeline.state,
                pipeline.state is state,
                dict(pipeline.field_name_applied_ids),
                sorted(pipeline.field_mappings.items()),
            )
        print("[pipeline] postprocess:", pipeline.postprocess_query(rule, "q"), sorted(pipeline.applied_ids))
    print("[pipeline] initial state untouched:", initial)
    # pipeline state set by an item is visible afterwards and starts over with the next rule
    p2 = ProcessingPipeline(
        [
            ProcessingItem(SetStateTransformation("k", "v")),
            ProcessingItem(
                SetStateTransformation("only_b", True),
                rule_conditions=[LogsourceCondition(category="cat_b")],
            ),
        ],
        [QueryPostprocessingItem(EmbedQueryTransformation(prefix="<", suffix=">"))],
    )
    for rule in collection_of(["good3_in", "good1"]).rules:
        p2.apply(rule, {"k": "before"})
        print("[pipeline2]", rule.title, p2.applied, len(p2.applied_ids), p2.state)
        print("[pipeline2] postprocess:", p2.postprocess_query(rule, "q"), len(p2.applied_ids))
    empty = ProcessingPipeline()
    for rule in collection_of(["good1"]).rules:
        print("[empty]", empty.apply(rule) is rule, empty.applied, empty.applied_ids, empty.state)
        try:
            empty.apply(rule, 5)
        except TypeError as e:
            print("[empty] bad state:", describe_error(e), empty.applied, empty.state)


def main():
    total = 0
    # every rule alone
    for name in RULES:
        for wp in (False, True):
            print(f"[alone]   {name} pipeline={wp} ->", convert_alone(name, wp))

    failing = [n for n in RULES if n.startswith("fail_")]
    good = ["good1", "good2_multi", "good3_in"]
    # one failing rule in every position among the good ones
    for f in failing:
        for pos in range(len(good) + 1):
            names = good[:pos] + [f] + good[pos:]
            for wp in (False, True):
                total += run(names, wp)
    # several failing rules, different stages, mixed
    combos = [
        ["fail_pipeline", "fail_placeholder", "good1"],
        ["good2_multi", "fail_condition", "fail_valuetype", "good3_in", "fail_pipeline"],
        ["fail_multi_second", "good1", "fail_multi_second", "good2_multi"],
        failing,
        failing + good,
        list(reversed(failing + good)),
        ["good1"],
        ["fail_condition"],
    ]
    for names in combos:
        for wp in (False, True):
            total += run(names, wp)
    # other output formats (finalisation of the whole output)
    for fmt in ("default", "str", "bytes", "list_of_dict", "state"):
        total += run(["good3_in", "fail_placeholder", "good1"], True, fmt)

    # output switched off, same rule object converted twice, convert_rule directly
    backend = make_backend(True, True)
    coll = collection_of(["good1", "fail_valuetype", "good2_multi"])
    coll.rules[0].disable_output()
    print("[disabled] ", backend.convert(coll), [(r.title, describe_error(e)) for r, e in backend.errors])
    print("[disabled] stored:", coll.rules[0].get_conversion_result())
    print("[again]    ", backend.convert(coll), [(r.title, describe_error(e)) for r, e in backend.errors])
    fresh = TextQueryTestBackend()
    fresh.collect_errors = True
    for rule in collection_of(["fail_condition", "good1", "fail_pipeline"]).rules:
        print("[convert_rule]", rule.title, fresh.convert_rule(rule), fresh.convert_rule(rule, "str"))
    print("[convert_rule] errors:", [(r.title, describe_error(e)) for r, e in fresh.errors])

    # callback that drops / rewrites queries
    def cb(rule, output_format, index, cond, result):
        if index == 1:
            return None
        return f"{rule.title}#{index}#{output_format}:{result}"

    backend = make_backend(True, True)
    print(
        "[callback] ",
        backend.convert(
            collection_of(["good2_multi", "fail_multi_second", "good1"]), None, None, cb
        ),
        [(r.title, describe_error(e)) for r, e in backend.errors],
    )

    # a non-Sigma error raised by a callback is enriched and propagates in both modes
    def bad_cb(rule, output_format, index, cond, result):
        raise ValueError("boom", 42)

    for collect in (True, False):
        backend = make_backend(False, collect)
        try:
            backend.convert(collection_of(["good1"]), callback=bad_cb)
        except Exception as e:
            print("[bad callback]", collect, type(e).__name__, e.args, backend.errors)

    pipeline_section()
    print("isolation mismatches observed:", total)
    return 0


if __name__ == "__main__":
    sys.exit(main())
