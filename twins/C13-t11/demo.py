"""Exercises value conditions (match_string, match_value, contains_wildcard, is_null) as
detection-item gates of pipeline items, and the applied-item tracking they feed."""
import re
from sigma.rule import SigmaRule, SigmaDetectionItem
from sigma.collection import SigmaCollection
from sigma.types import SigmaString, SigmaNumber, SigmaNull, SigmaRegularExpression, SigmaBool
from sigma.processing.pipeline import ProcessingPipeline, ProcessingItem
from sigma.processing.transformations import AddFieldnameSuffixTransformation
from sigma.processing.conditions import (
    MatchStringCondition,
    MatchValueCondition,
    ContainsWildcardCondition,
    IsNullCondition,
    DetectionItemProcessingItemAppliedCondition,
)
from sigma.processing.tracking import ProcessingItemTrackingMixin
from sigma.exceptions import SigmaRegularExpressionError, SigmaConfigurationError

RULE = r"""
title: demo
logsource:
    category: test
detection:
    sel:
        plain: value
        wild: "val*"
        qm: "v?lue"
        escaped: 'val\*'
        multi:
            - abc
            - "a*c"
            - 123
        nums:
            - 1
            - 2
        nothing: null
        mixednull:
            - null
            - x
        empty: ''
        "re|re": "va.*"
        truth: true
        float: 1.5
        "cased|cased": Value
        "cont|contains": val
    condition: sel
"""


def fields_after(pipeline):
    rule = SigmaRule.from_yaml(RULE)
    pipeline.apply(rule)
    out = []
    for item in rule.detection.detections["sel"].detection_items:
        out.append((item.field, sorted(item.applied_processing_items)))
    return out


def run(name, conds, linking="and", negate=False, expr=None):
    kwargs = dict(
        transformation=AddFieldnameSuffixTransformation(".X"),
        detection_item_conditions=conds,
        identifier="marker",
    )
    if expr is not None:
        kwargs["detection_item_condition_expression"] = expr
    else:
        kwargs["detection_item_condition_linking"] = any if linking == "or" else all
        kwargs["detection_item_condition_negation"] = negate
    follow = ProcessingItem(
        transformation=AddFieldnameSuffixTransformation(".Y"),
        detection_item_conditions=[DetectionItemProcessingItemAppliedCondition("marker")],
        identifier="follow",
    )
    try:
        pipeline = ProcessingPipeline([ProcessingItem(**kwargs), follow])
        print(name)
        for line in fields_after(pipeline):
            print("   ", line)
    except Exception as e:
        print(name, "->", type(e).__name__, str(e))


for cond in ("any", "all"):
    for negate in (False, True, 0, 1, "", "x", None):
        run(f"match_string ^va {cond} negate={negate!r}", [MatchStringCondition(cond, "^va", negate)])
    run(f"match_string '' {cond}", [MatchStringCondition(cond, "")])
    run(f"match_string \\d+ {cond}", [MatchStringCondition(cond, r"\d+")])
    run(f"match_string a.c$ {cond}", [MatchStringCondition(cond, "a.c$")])
    run(f"match_string a\\*c {cond}", [MatchStringCondition(cond, r"a\*c")])
    for v in ("value", "abc", 123, 1, 1.0, 1.5, True, "1", "", "val*", "Value", None):
        run(f"match_value {v!r} {cond}", [MatchValueCondition(cond, v)])
    run(f"contains_wildcard {cond}", [ContainsWildcardCondition(cond)])
    run(f"contains_wildcard {cond} item-negated", [ContainsWildcardCondition(cond)], negate=True)
    run(f"is_null {cond}", [IsNullCondition(cond)])
    run(
        f"wild or null {cond}",
        [ContainsWildcardCondition(cond), IsNullCondition(cond)],
        linking="or",
    )
    run(
        f"expr {cond}",
        {"w": ContainsWildcardCondition(cond), "n": IsNullCondition(cond), "s": MatchStringCondition(cond, "^a", True)},
        expr="(w or n) and not s",
    )

print("--- constructor errors")
for pattern in ("(", "[a-", "*x", "a{2,1}", "(?P<x>a)(?P<x>b)", 5, None, b"x"):
    try:
        c = MatchStringCondition("any", pattern)
        print(repr(pattern), "ok", c.re.pattern, c)
    except Exception as e:
        print(repr(pattern), type(e).__name__, str(e), "| cause:", type(e.__cause__).__name__, e.__cause__)
for cond in ("some", "", None, "ANY"):
    for cls, args in ((MatchStringCondition, (".*",)), (MatchValueCondition, (1,)), (ContainsWildcardCondition, ()), (IsNullCondition, ())):
        try:
            print(cls.__name__, repr(cond), cls(cond, *args))
        except Exception as e:
            print(cls.__name__, repr(cond), type(e).__name__, str(e))

print("--- direct match_value")
values = [
    SigmaString("value"),
    SigmaString("val*"),
    SigmaString(r"val\*"),
    SigmaString("v?l"),
    SigmaString(""),
    SigmaString("line1\nvalue"),
    SigmaNumber(5),
    SigmaNumber(1.5),
    SigmaNull(),
    SigmaBool(True),
    SigmaRegularExpression("va.*"),
    "value",
    5,
    None,
]
conds = [
    MatchStringCondition("any", "va"),
    MatchStringCondition("any", "va", True),
    MatchStringCondition("all", "^$"),
    MatchStringCondition("all", "(?s).*value"),
    MatchValueCondition("any", "value"),
    MatchValueCondition("any", 5),
    MatchValueCondition("any", 1.5),
    MatchValueCondition("any", True),
    ContainsWildcardCondition("any"),
    IsNullCondition("all"),
]
for c in conds:
    row = []
    for v in values:
        try:
            row.append(repr(c.match_value(v)))
        except Exception as e:
            row.append(type(e).__name__ + ":" + str(e))
    print(c, row)

print("--- reassigned regex is honoured")
c = MatchStringCondition("any", "abc")
c.re = re.compile("zzz")
print(c.match_value(SigmaString("abc")), c.match_value(SigmaString("zzz")))

print("--- tracking mixin")


class Item:
    def __init__(self, identifier):
        self.identifier = identifier


di = SigmaDetectionItem("f", [], [SigmaString("v")])
for pi in (None, Item(None), Item("a"), Item("a"), Item(""), Item("b"), None):
    print(di.add_applied_processing_item(pi), sorted(di.applied_processing_items))
for ident in ("a", "b", "", "c", None):
    print(repr(ident), di.was_processed_by(ident))
try:
    di.add_applied_processing_item(Item(["unhashable"]))
except Exception as e:
    print(type(e).__name__, e)
try:
    di.add_applied_processing_item(object())
except Exception as e:
    print(type(e).__name__, e)
print(sorted(di.applied_processing_items))
