"""Demo for C16/t11: nested pipelines (transformation 'nest', post-processing 'nest') loaded from
dicts/YAML with injected opt-in keys; shows capability flags, errors and conversion results."""
import copy
import os
import sys
import tempfile

from sigma.backends.test import TextQueryTestBackend
from sigma.collection import SigmaCollection
from sigma.exceptions import SigmaError
from sigma.processing.pipeline import ProcessingItem, ProcessingPipeline, QueryPostprocessingItem
from sigma.processing.postprocessing import NestedQueryPostprocessingTransformation
from sigma.processing.transformations import (
    NestedProcessingTransformation,
    AddFieldnamePrefixTransformation,
)

for k in ("PYSIGMA_ALLOW_EXTERNAL_SOURCES", "PYSIGMA_ALLOW_VARS_EXECUTION"):
    os.environ.pop(k, None)

tmp = tempfile.mkdtemp()
src = os.path.join(tmp, "values.txt")
with open(src, "w") as f:
    f.write("alpha\nbeta\n")
marker = os.path.join(tmp, "marker")
varsfile = os.path.join(tmp, "vars.py")
with open(varsfile, "w") as f:
    f.write(f"open({marker!r}, 'w').write('x')\nvars = {{'a': 1}}\n")

RULE = """
title: T
status: test
logsource: {category: test}
detection:
    sel:
        field|expand: "%ph%"
        other: value
    condition: sel
"""

OPT = {"allow_external_sources": True, "allow_template_vars": True, "vars_allowed_paths": ["/"]}


def show(label, fn):
    try:
        r = fn()
        print(label, "->", r)
    except SigmaError as e:
        print(label, "-> raised", type(e).__name__, ":", str(e).replace(tmp, "<TMP>"))
    except Exception as e:
        print(label, "-> raised!", type(e).__name__, ":", str(e).replace(tmp, "<TMP>"))


def flags(obj, depth=0):
    out = []
    items = getattr(obj, "items", []) + getattr(obj, "postprocessing_items", [])
    for it in items:
        t = it.transformation
        out.append(
            (
                depth,
                type(t).__name__,
                getattr(t, "allow_external_sources", None),
                getattr(t, "allow_template_vars", None),
                getattr(t, "vars_allowed_paths", None),
            )
        )
        if hasattr(t, "_nested_pipeline"):
            out.extend(flags(t._nested_pipeline, depth + 1))
    return out


def ext_item(kind):
    d = {"type": kind, "include": ["ph"], **OPT}
    if kind == "file_placeholders":
        d["path"] = src
    elif kind == "http_placeholders":
        d["url"] = "http://127.0.0.1:9/x"
    else:
        d["cmd"] = [sys.executable, "-c", f"open({marker!r},'w').write('x')"]
    return d


def nest(inner, depth):
    d = inner
    for _ in range(depth):
        d = {"type": "nest", "items": [d], **OPT}
    return d


def pipeline_doc(kind, depth):
    return {
        "name": "p",
        "priority": 10,
        "transformations": [nest(ext_item(kind), depth), {"type": "field_name_prefix", "prefix": "x."}],
        "postprocessing": [{"type": "embed", "prefix": "<", "suffix": ">"}],
    }


def convert(p, rule=RULE):
    return TextQueryTestBackend(p).convert(SigmaCollection.from_yaml(rule))


for kind in ("file_placeholders", "http_placeholders", "command_placeholders"):
    for depth in (0, 1, 2, 3):
        for caller in (False, True):
            if caller and kind != "file_placeholders":
                continue
            label = f"{kind} depth={depth} caller_optin={caller}"
            doc = pipeline_doc(kind, depth)

            def load():
                return ProcessingPipeline.from_dict(
                    copy.deepcopy(doc), allow_external_sources=caller
                )

            show(label + " flags", lambda: flags(load()))
            show(label + " convert", lambda: convert(load()))
            print("   marker exists:", os.path.exists(marker))

# from_yaml variant
import yaml

show(
    "yaml depth=2",
    lambda: flags(ProcessingPipeline.from_yaml(yaml.safe_dump(pipeline_doc("file_placeholders", 2)))),
)

# direct from_dict classmethods and odd inputs
show("meta.from_dict ok", lambda: flags(NestedProcessingTransformation.from_dict(
    {"items": [ext_item("file_placeholders"), {"type": "field_name_prefix", "prefix": "p."}]})._nested_pipeline))
show("meta.from_dict no items", lambda: NestedProcessingTransformation.from_dict({"itemz": []}))
show("meta.from_dict empty", lambda: NestedProcessingTransformation.from_dict({"items": []}))
show("meta.from_dict items None", lambda: NestedProcessingTransformation.from_dict({"items": None}))
show("meta.from_dict items int item", lambda: NestedProcessingTransformation.from_dict({"items": [5]}))
show("meta.from_dict item w/o type", lambda: NestedProcessingTransformation.from_dict({"items": [{"id": "x"}]}))
show("meta.from_dict unknown type", lambda: NestedProcessingTransformation.from_dict({"items": [{"type": "nope"}]}))
show("meta.from_dict extra key", lambda: NestedProcessingTransformation.from_dict({"items": [], "foo": 1}))
show("meta ctor mixed", lambda: flags(NestedProcessingTransformation(items=[
    ProcessingItem(AddFieldnamePrefixTransformation("q."), identifier="a"),
    ext_item("command_placeholders"),
    ProcessingItem.from_dict(ext_item("file_placeholders"), allow_external_sources=True),
])._nested_pipeline))
show("meta ctor tuple", lambda: flags(NestedProcessingTransformation(items=(ext_item("http_placeholders"),))._nested_pipeline))
show("meta ctor None", lambda: NestedProcessingTransformation(items=None))
show("meta ctor bad item", lambda: NestedProcessingTransformation(items=[{"type": "nest"}]))
show("meta ctor str items", lambda: NestedProcessingTransformation(items="ab"))

show("post.from_dict ok", lambda: flags(NestedQueryPostprocessingTransformation.from_dict(
    {"items": [{"type": "template", "template": "x", "vars": varsfile, **OPT}, {"type": "embed", "prefix": "a"}]})._nested_pipeline))
show("post.from_dict no items", lambda: NestedQueryPostprocessingTransformation.from_dict({"foo": 1}))
show("post.from_dict empty", lambda: NestedQueryPostprocessingTransformation.from_dict({"items": []}))
show("post.from_dict items None", lambda: NestedQueryPostprocessingTransformation.from_dict({"items": None}))
show("post.from_dict item w/o type", lambda: NestedQueryPostprocessingTransformation.from_dict({"items": [{"id": "x"}]}))
show("post.from_dict unknown type", lambda: NestedQueryPostprocessingTransformation.from_dict({"items": [{"type": "nope"}]}))
show("post.from_dict nested nest w/o items", lambda: NestedQueryPostprocessingTransformation.from_dict({"items": [{"type": "nest"}]}))

class Sub(NestedProcessingTransformation):
    pass

show("subclass from_dict type", lambda: type(Sub.from_dict({"items": []})).__name__)

class SubP(NestedQueryPostprocessingTransformation):
    pass

show("post subclass from_dict type", lambda: type(SubP.from_dict({"items": []})).__name__)

# post-processing nest given in a pipeline document, with and without the caller's opt-in
for optin in (False, True):
    for inner in (
        {"type": "template", "template": "[{{ query }}]", "vars": varsfile, **OPT},
        {"type": "embed", "prefix": "<", **OPT},
    ):
        for depth in (1, 2):
            show(
                f"pipeline postprocessing nest {inner['type']} depth={depth} optin={optin}",
                lambda: flags(ProcessingPipeline.from_dict(
                    {"postprocessing": [nest(copy.deepcopy(inner), depth)]}, allow_template_vars=optin)),
            )
            print("   marker exists:", os.path.exists(marker))

# nested post-processing built by the classmethod and applied
def post_nested():
    t = NestedQueryPostprocessingTransformation.from_dict({"items": [
        {"type": "embed", "prefix": "<", "suffix": ">", "id": "e1", **OPT},
        {"type": "nest", "id": "n", "items": [
            QueryPostprocessingItem.from_dict({"type": "replace", "pattern": "field", "replacement": "F"})]},
        {"type": "simple_template", "template": "{query} // {rule.title}"},
    ]})
    p = ProcessingPipeline(postprocessing_items=[QueryPostprocessingItem(t, identifier="outer")])
    plain = RULE.replace('field|expand: "%ph%"', "field: plain")
    return convert(p, plain), sorted(map(str, p.applied_ids)), flags(p)

show("post nested apply", post_nested)

os.environ["PYSIGMA_ALLOW_VARS_EXECUTION"] = "1"
show("env vars optin post.from_dict", lambda: flags(NestedQueryPostprocessingTransformation.from_dict(
    {"items": [{"type": "template", "template": "x", "vars": varsfile, **OPT}]})._nested_pipeline))
print("   marker exists (env opt-in, expected True):", os.path.exists(marker))
os.remove(marker)
os.environ.pop("PYSIGMA_ALLOW_VARS_EXECUTION")

# environment variable opt-in still works through nesting
os.environ["PYSIGMA_ALLOW_EXTERNAL_SOURCES"] = "true"
show("env optin file depth=2 convert", lambda: convert(ProcessingPipeline.from_dict(
    {"transformations": [nest(ext_item("file_placeholders"), 2)]})))
os.environ["PYSIGMA_ALLOW_EXTERNAL_SOURCES"] = "0"
show("env=0 file depth=2 convert", lambda: convert(ProcessingPipeline.from_dict(
    {"transformations": [nest(ext_item("file_placeholders"), 2)]})))
print("marker exists at end:", os.path.exists(marker))
