"""Demo for C17: placeholders in strings, keywords and regular expressions either expand
completely or the conversion fails; the raw %name% text is never emitted.

Exercises SigmaRegularExpression.escape()/compile() directly and through Backend.convert().
"""

import itertools

from sigma.backends.test import TextQueryTestBackend
from sigma.collection import SigmaCollection
from sigma.exceptions import SigmaError
from sigma.processing.pipeline import ProcessingItem, ProcessingPipeline
from sigma.processing.transformations import (
    QueryExpressionPlaceholderTransformation,
    ValueListPlaceholderTransformation,
    WildcardPlaceholderTransformation,
)
from sigma.types import (
    Placeholder,
    SigmaRegularExpression,
    SigmaRegularExpressionFlag,
    SigmaString,
    SpecialChars,
)


def show(label, func):
    try:
        res = func()
        print(f"{label} -> {res!r}")
    except Exception as e:  # class and message are part of the observed behaviour
        print(f"{label} !! {type(e).__name__}: {e}")


# ---------------------------------------------------------------- direct: escape()
F = SigmaRegularExpressionFlag
regexps = [
    "",
    "foo",
    "foo/bar\\baz",
    "a\\\\b//c",
    "bar*bar?bar",
    "%var%",
    "\\%var\\%",
    "pre%a%mid%b%post",
    "x|y|(z/)+",
    "äöü/ß\\",
]
escape_args = [
    (),
    (["/"],),
    (["/", "bar"],),
    (["/", "bar"], "\\", False),
    (["/", "bar"], "#", True),
    (["/", "bar"], "#", False, False),
    ([], "\\", False),
    (["", "/"], "\\", True),
    ([None, "/"], "!", True),
    (("a", "ab"), "\\", True, True),
    (["/"], None, True),
    (["/"], None, False),
    ([1], "\\", True),
    (["|", "("], "\\\\", True),
]
flag_sets = [set(), {F.IGNORECASE}, {F.DOTALL, F.MULTILINE, F.IGNORECASE}]

print("== escape() without placeholders")
for rx, args, flags in itertools.product(regexps, escape_args, flag_sets):
    def run(rx=rx, args=args, flags=flags):
        r = SigmaRegularExpression(rx, set(flags))
        return r.escape(*args)

    show(f"escape {rx!r} {args!r} {sorted(f.name for f in flags)}", run)

print("== escape() with placeholder objects")
for rx, args, flags in itertools.product(
    ["%var%", "\\%var\\%", "pre%a%mid%b%post", "a/%x%/bar\\%y\\%", "%%", "%a%%b%", "100\\%%v%"],
    [(), (["/", "bar"],), (["/"], "#", False, False), ([1],), (["/"], None, True)],
    flag_sets[:2],
):
    def run(rx=rx, args=args, flags=flags):
        r = SigmaRegularExpression(rx, set(flags)).insert_placeholders()
        return (r.regexp.s, r.escape(*args))

    show(f"expand+escape {rx!r} {args!r} {sorted(f.name for f in flags)}", run)

print("== replace_placeholders() then escape()")


def callbacks():
    def wildcard(p):
        yield SpecialChars.WILDCARD_MULTI

    def single(p):
        yield SpecialChars.WILDCARD_SINGLE

    def values(p):
        yield from (f"{p.name}1", "/bar/", SigmaString("w*ld?"), "50\\%")

    def keep_b(p):
        if p.name == "b":
            yield p
        else:
            yield "A"
            yield "B/"

    def nothing(p):
        return iter(())

    return [wildcard, single, values, keep_b, nothing]


for rx, cb in itertools.product(
    ["no placeholder/", "%a%", "pre/%a%.*%b%$", "%a%%b%%a%", "\\%a\\%%b%"], callbacks()
):
    def run(rx=rx, cb=cb):
        r = SigmaRegularExpression(rx, {F.IGNORECASE}).insert_placeholders()
        out = []
        for res in r.replace_placeholders(cb):
            try:
                out.append(res.escape(["/", "bar"]))
            except SigmaError as e:
                out.append(f"{type(e).__name__}: {e}")
        return out

    show(f"replace {rx!r} {cb.__name__}", run)

print("== compile() and flags")
for rx, flags in itertools.product(
    ["a.b", "^x$", "(", "a{99999999999}", "[z-a]", "%a%(", "(?i)a"],
    [set(), {F.MULTILINE}, {F.DOTALL, F.IGNORECASE}, {"bogus"}],
):
    def run(rx=rx, flags=flags):
        r = SigmaRegularExpression(rx, set(flags))
        r.insert_placeholders()
        r.add_flag(F.DOTALL)
        r.compile()
        return (repr(r), r.escape(flag_prefix=True), r.escape(flag_prefix=False))

    show(f"compile {rx!r} {sorted(str(f) for f in flags)}", run)

show(
    "unknown flag added after compile",
    lambda: (lambda r: (r.add_flag("bogus"), r.escape())[1])(SigmaRegularExpression("a/b")),
)

# ---------------------------------------------------------------- through Backend.convert()
RULE = """
title: Test
status: test
logsource:
    category: test
detection:
    sel:
{items}
    condition: sel
"""

detections = {
    "re single": ["field|re|expand: 'pre/%var1%\\\\post'"],
    "re two": ["field|re|expand: '^%var1%[/]%var2%$'"],
    "re flags": ["field|re|i|m|s|expand: 'bar%var1%/'"],
    "re escaped percent": ["field|re|expand: '100\\%%var1%\\%lit\\%'"],
    "re keyword": ["'|re|expand': '%var1%.*/%num%'"],
    "str contains": ["field|contains|expand: 'a%var1%b%var2%c'"],
    "str startswith all": ["field|startswith|all|expand: ['%var1%x', 'y%var2%']"],
    "str endswith": ["field|endswith|expand: '\\%lit\\%%num%'"],
    "keyword": ["'|expand': 'kw*%var1%?%mixed%'"],
    "mix": ["f1|expand: '%var1%'", "f2|re|expand: '%var2%/%var2%'", "f3: 'no %placeholder%'"],
    "unknown": ["field|re|expand: 'x%unknown%y'"],
    "wrong type": ["field|re|expand: 'x%bad%y'"],
    "empty": ["field|re|expand: 'x%empty%y'", "other: 1"],
}

variables = {
    "var1": ["one", "t/wo", "bar*"],
    "var2": "single?",
    "num": [1, 2.5],
    "mixed": ["s", 3],
    "bad": ["ok", {"a": 1}],
    "empty": [],
}


def pipelines():
    yield "none", ProcessingPipeline()
    yield "valuelist", ProcessingPipeline(
        [ProcessingItem(ValueListPlaceholderTransformation())], vars=variables
    )
    yield "valuelist include var1", ProcessingPipeline(
        [ProcessingItem(ValueListPlaceholderTransformation(include=["var1"]))], vars=variables
    )
    yield "valuelist exclude var1 + wildcard", ProcessingPipeline(
        [
            ProcessingItem(ValueListPlaceholderTransformation(exclude=["var1", "unknown", "bad"])),
            ProcessingItem(WildcardPlaceholderTransformation()),
        ],
        vars=variables,
    )
    yield "wildcard", ProcessingPipeline([ProcessingItem(WildcardPlaceholderTransformation())])
    yield "wildcard include var2 + valuelist", ProcessingPipeline(
        [
            ProcessingItem(WildcardPlaceholderTransformation(include=["var2"])),
            ProcessingItem(ValueListPlaceholderTransformation()),
        ],
        vars=variables,
    )
    yield "queryexpr + wildcard", ProcessingPipeline(
        [
            ProcessingItem(
                QueryExpressionPlaceholderTransformation(
                    expression="{field} lookup {id}", mapping={"var1": "mapped"}, include=["var1"]
                )
            ),
            ProcessingItem(WildcardPlaceholderTransformation(exclude=["var1"])),
        ]
    )


print("== Backend.convert()")
for (dname, items), (pname, pipeline) in itertools.product(
    detections.items(), list(pipelines())
):
    rule = RULE.format(items="\n".join("        " + item for item in items))

    def run(rule=rule, pipeline=pipeline):
        backend = TextQueryTestBackend(pipeline)
        queries = backend.convert(SigmaCollection.from_yaml(rule))
        for q in queries:
            text = str(q)
            for name in list(variables) + ["unknown"]:
                assert f"%{name}%" not in text, f"raw placeholder %{name}% in query {text!r}"
        return queries

    show(f"convert [{dname}] [{pname}]", run)

print("done")
