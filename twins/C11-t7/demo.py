"""Demo for C11 (t7): parsing of the filter's rule list / condition and the applicability test.

Run: PYTHONPATH=/tmp/wt8-C11 /venv/bin/python demo.py
Prints the observed results; output must be identical on clean HEAD and with patch.diff applied.
"""

import random
import re
import sys
from types import SimpleNamespace

import sigma.filters
from sigma.backends.test import TextQueryTestBackend
from sigma.collection import SigmaCollection
from sigma.correlations import SigmaCorrelationRule, SigmaRuleReference
from sigma.exceptions import SigmaError
from sigma.filters import EmptySigmaGlobalFilter, SigmaFilter, SigmaGlobalFilter
from sigma.rule import SigmaLogSource, SigmaRule

print("module:", sigma.filters.__file__)

PREFIX = re.compile(r"_filt_[a-z]{10}_")


def norm(s):
    return PREFIX.sub("_filt_<P>_", str(s))


def show_exc(e):
    ctx = type(e.__context__).__name__ if e.__context__ is not None else None
    return f"{type(e).__name__}: {e} [context={ctx}, suppress={e.__suppress_context__}]"


# ---------------------------------------------------------------- 1. SigmaGlobalFilter.from_dict
print("== 1. SigmaGlobalFilter.from_dict ==")
SEL = {"User|startswith": "adm_"}


class StrSub(str):
    pass


class ListSub(list):
    pass


global_filter_inputs = [
    ("any", {"rules": "any", "sel": SEL, "condition": "not sel"}),
    ("ANY", {"rules": "ANY", "sel": SEL, "condition": "not sel"}),
    ("aNy", {"rules": "aNy", "sel": SEL, "condition": "not sel"}),
    ("' any' (name)", {"rules": " any", "sel": SEL, "condition": "not sel"}),
    ("empty string", {"rules": "", "sel": SEL, "condition": "not sel"}),
    ("single id", {"rules": "6f3e2987-db24-4c78-a860-b4f4095a7095", "sel": SEL, "condition": "sel"}),
    ("single name", {"rules": "failed_login", "sel": SEL, "condition": "sel"}),
    ("str subclass any", {"rules": StrSub("Any"), "sel": SEL, "condition": "sel"}),
    ("empty list", {"rules": [], "sel": SEL, "condition": "sel"}),
    ("empty list subclass", {"rules": ListSub(), "sel": SEL, "condition": "sel"}),
    ("list", {"rules": ["a", "6f3e2987-db24-4c78-a860-b4f4095a7095"], "sel": SEL, "condition": "sel"}),
    ("list with any", {"rules": ["any"], "sel": SEL, "condition": "sel"}),
    ("list with int", {"rules": ["a", 5], "sel": SEL, "condition": "sel"}),
    ("list with None", {"rules": [None], "sel": SEL, "condition": "sel"}),
    ("tuple", {"rules": ("a",), "sel": SEL, "condition": "sel"}),
    ("int", {"rules": 5, "sel": SEL, "condition": "sel"}),
    ("None", {"rules": None, "sel": SEL, "condition": "sel"}),
    ("dict", {"rules": {"a": 1}, "sel": SEL, "condition": "sel"}),
    ("rules missing", {"sel": SEL, "condition": "sel"}),
    ("condition missing", {"rules": "any", "sel": SEL}),
    ("both missing", {"sel": SEL}),
    ("condition list", {"rules": "any", "sel": SEL, "condition": ["sel"]}),
    ("condition list + rules missing", {"sel": SEL, "condition": ["sel"]}),
    ("condition None", {"rules": "any", "sel": SEL, "condition": None}),
    ("condition int, rules bad", {"rules": 7, "sel": SEL, "condition": 1}),
    ("condition undefined name", {"rules": "any", "sel": SEL, "condition": "other"}),
    ("no detections", {"rules": "any", "condition": "sel"}),
    ("detection named Rules/Condition", {"rules": "any", "Rules": SEL, "Condition": SEL, "condition": "Rules and Condition"}),
    ("empty dict", {}),
    ("string instead of dict", "condition"),
    ("list instead of dict", ["condition", "rules"]),
    ("None instead of dict", None),
]
for label, data in global_filter_inputs:
    try:
        gf = SigmaGlobalFilter.from_dict(data)
        print(
            f"{label!r}: rules={gf.rules!r} type={type(gf.rules).__name__} "
            f"condition={gf.condition!r} detections={sorted(gf.detections)} to_dict={gf.to_dict()}"
        )
    except Exception as e:
        print(f"{label!r}: {show_exc(e)}")

# ---------------------------------------------------------------- 2. SigmaFilter.from_dict errors
print("== 2. SigmaFilter.from_dict / collect_errors ==")
base = {"title": "F", "logsource": {"product": "windows"}}
for label, flt in [
    ("ok", {"rules": "any", "sel": SEL, "condition": "sel"}),
    ("rules missing", {"sel": SEL, "condition": "sel"}),
    ("condition list", {"rules": "any", "sel": SEL, "condition": ["sel"]}),
    ("str", "abc"),
    ("list", ["abc"]),
    ("int", 5),
]:
    for collect in (False, True):
        try:
            f = SigmaFilter.from_dict({**base, "filter": flt}, collect_errors=collect)
            print(
                f"{label!r} collect={collect}: filter={type(f.filter).__name__} rules={f.filter.rules!r} "
                f"errors={[show_exc(e) for e in f.errors]}"
            )
        except Exception as e:
            print(f"{label!r} collect={collect}: {show_exc(e)}")

# ---------------------------------------------------------------- 3. applicability + conversion
print("== 3. applicability and converted queries ==")
RULES = """
title: Rule A
id: 6f3e2987-db24-4c78-a860-b4f4095a7095
name: rule_a
logsource:
    category: process_creation
    product: windows
detection:
    selection:
        EventID: 1
    filter_x:
        Image: x
    condition: selection and not 1 of filter_*
---
title: Rule B
id: df0841c0-9846-4e9f-ad8a-7df91571771b
name: rule_b
logsource:
    product: windows
    service: security
detection:
    sel:
        EventID: 2
    _priv:
        EventID: 3
    condition:
        - 1 of them
        - sel or _priv
---
title: Rule C (no id, no name)
logsource:
    category: process_creation
detection:
    any:
        EventID: 4
    condition: any
---
title: Rule D name any
name: any
logsource:
    product: windows
    category: process_creation
    service: sysmon
detection:
    of:
        EventID: 5
    condition: 1 of of
---
title: Correlation
name: corr
correlation:
    type: event_count
    rules:
        - rule_a
    group-by: User
    timespan: 5m
    condition:
        gte: 3
"""


def make_filter(logsource, rules, condition="not sel", extra=""):
    ls = "\n".join(f"    {k}: {v}" for k, v in logsource.items())
    return f"""
title: Filter
logsource:
{ls}
filter:
  rules: {rules}
  sel:
      User|startswith: 'adm_'
  selection:
      User: other
{extra}
  condition: {condition}
"""


FILTERS = [
    ("any / windows", make_filter({"product": "windows"}, "any")),
    ("ANY / windows", make_filter({"product": "windows"}, "ANY")),
    ("[] / windows", make_filter({"product": "windows"}, "[]")),
    ("[] / proc_creation", make_filter({"category": "process_creation"}, "[]")),
    ("id A / windows", make_filter({"product": "windows"}, "6f3e2987-db24-4c78-a860-b4f4095a7095")),
    ("[id A, name rule_b] / windows", make_filter({"product": "windows"}, "[6f3e2987-db24-4c78-a860-b4f4095a7095, rule_b]")),
    ("[unknown, rule_b, unknown2] / windows", make_filter({"product": "windows"}, "[unknown, rule_b, unknown2]")),
    ("[unknown] / windows", make_filter({"product": "windows"}, "[unknown]")),
    ("['any'] (name any) / windows", make_filter({"product": "windows"}, "['any']")),
    ("[Any] (no such name) / windows", make_filter({"product": "windows"}, "[Any]")),
    ("' any ' / windows", make_filter({"product": "windows"}, "' any '")),
    ("upper id A / windows", make_filter({"product": "windows"}, "6F3E2987-DB24-4C78-A860-B4F4095A7095")),
    ("braced id B / windows", make_filter({"product": "windows"}, "'{df0841c0-9846-4e9f-ad8a-7df91571771b}'")),
    ("any / linux", make_filter({"product": "linux"}, "any")),
    ("any / windows+security", make_filter({"product": "windows", "service": "security"}, "any")),
    ("any / full D", make_filter({"product": "windows", "category": "process_creation", "service": "sysmon"}, "any")),
    ("corr by name / windows", make_filter({"product": "windows"}, "[corr]")),
    ("any / windows, 1 of them", make_filter({"product": "windows"}, "any", "not 1 of them")),
    ("any / windows, sel* and selection", make_filter({"product": "windows"}, "any", "all of sel* and not selection")),
    ("any / windows, keyword names", make_filter({"product": "windows"}, "any", "not (1 of of or any or 1 of *_x)", "  of:\n      A: 1\n  any:\n      B: 2\n  filter_x:\n      C: 3")),
]

backend = TextQueryTestBackend()


def run(label, yaml_docs, collect_filters=False):
    random.seed(1234)
    try:
        coll = SigmaCollection.from_yaml(yaml_docs, collect_filters=collect_filters)
    except Exception as e:
        print(f"  {label}: load -> {show_exc(e)}")
        return
    if collect_filters:
        print(f"  {label}: collected filters={len(coll.filters)}; applicability:")
        for f in coll.filters:
            print("    ", [f._should_apply_on_rule(r) for r in coll.rules])
        coll.apply_filters(coll.filters)
    for rule in coll.rules:
        if isinstance(rule, SigmaRule):
            print(
                f"    {rule.title!r}: conditions={[norm(c) for c in rule.detection.condition]} "
                f"detections={[norm(n) for n in rule.detection.detections]}"
            )
    try:
        for q in backend.convert(coll):
            print("    query:", norm(q))
    except Exception as e:
        print("    convert ->", show_exc(e))


print("reference (no filter):")
run("no filter", RULES)
for label, flt in FILTERS:
    print(f"filter {label}:")
    run("applied at init", RULES + "---" + flt)
    run("collected then applied", RULES + "---" + flt, collect_filters=True)

print("stacked filters:")
run(
    "stack",
    RULES + "---" + FILTERS[4][1] + "---" + FILTERS[6][1] + "---" + FILTERS[17][1],
)
run(
    "stack collected",
    RULES + "---" + FILTERS[8][1] + "---" + FILTERS[3][1] + "---" + FILTERS[18][1],
    collect_filters=True,
)

# ---------------------------------------------------------------- 4. directly constructed filters
print("== 4. directly constructed filter objects ==")
rule_a = SigmaCollection.from_yaml(RULES).rules
rule_a = [r for r in rule_a if isinstance(r, SigmaRule) and r.name == "rule_a"][0]
corr = [r for r in SigmaCollection.from_yaml(RULES).rules if isinstance(r, SigmaCorrelationRule)][0]
win = SigmaLogSource(product="windows")


def direct(label, rules_value, logsource=win, target=rule_a, filter_obj=None):
    try:
        gf = filter_obj if filter_obj is not None else EmptySigmaGlobalFilter({}, [], rules=rules_value)
        f = SigmaFilter(title="x", logsource=logsource, filter=gf)
        print(f"  {label}: {f._should_apply_on_rule(target)!r}")
    except BaseException as e:
        print(f"  {label}: {show_exc(e)}")


direct("rules default []", [])
direct("rules 'any'", "any")
direct("rules 'AnY'", "AnY")
direct("rules 'rule_a' (plain string, not any)", "rule_a")
direct("rules [ref rule_a]", [SigmaRuleReference("rule_a")])
direct("rules [ref unknown, ref id]", [SigmaRuleReference("nope"), SigmaRuleReference("6f3e2987-db24-4c78-a860-b4f4095a7095")])
direct("rules [ref 0] (position)", [SigmaRuleReference(0)])
direct("rules [ref 1] (position out of range)", [SigmaRuleReference(1)])
direct("rules [ref -1]", [SigmaRuleReference(-1)])
direct("rules [ref None]", [SigmaRuleReference(None)])
direct("rules [ref 1.5, ref unknown]", [SigmaRuleReference(1.5), SigmaRuleReference("zz")])
direct("rules ['rule_a'] (plain str in list)", ["rule_a"])
direct("rules tuple", (SigmaRuleReference("rule_a"),))
direct("rules None", None)
direct("correlation target, any", "any", target=corr)
direct("correlation target, bad rules", None, target=corr)
direct("linux logsource, bad rules", None, logsource=SigmaLogSource(product="linux"))
direct("logsource not a logsource", "any", target=SimpleNamespace(logsource="nope"))
try:
    SigmaFilter(title="d", logsource=win)
except Exception as e:
    print("  default SigmaFilter global filter:", show_exc(e))
direct(
    "real SigmaGlobalFilter with str rules",
    None,
    filter_obj=SigmaGlobalFilter({"s": SigmaGlobalFilter.from_dict({"rules": "any", "s": SEL, "condition": "s"}).detections["s"]}, ["s"], rules="Any"),
)
print("sigma.collection imported:", "sigma.collection" in sys.modules)
