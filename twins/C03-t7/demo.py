"""Exercise value modifiers via SigmaDetectionItem.from_mapping and the SigmaString
building blocks they rely on (concatenation, placeholder insertion/replacement, slicing)."""
import itertools
import re

import sigma.types
from sigma.exceptions import SigmaError
from sigma.rule.detection import SigmaDetectionItem
from sigma.types import (
    Placeholder,
    SigmaCasedString,
    SigmaExpansion,
    SigmaRegularExpression,
    SigmaString,
    SpecialChars,
)

print("imported", sigma.types.__file__.split("/sigma/")[-1])


def show(v):
    if isinstance(v, SigmaString):
        return f"{type(v).__name__}{v.s!r}"
    if isinstance(v, SigmaExpansion):  # show the classes of the expanded values too
        return f"SigmaExpansion[{', '.join(show(x) for x in v.values)}]"
    if isinstance(v, SigmaRegularExpression):
        return f"{v!r}/regexp={show(v.regexp)}"
    return repr(v)


def run(key, value):
    try:
        item = SigmaDetectionItem.from_mapping(key, value)
    except SigmaError as e:
        print(f"{key!r} {value!r} -> {type(e).__name__}: {e}")
        return
    except Exception as e:  # anything else is reported with its class too
        print(f"{key!r} {value!r} -> !{type(e).__name__}: {e}")
        return
    print(
        f"{key!r} {value!r} -> linking={item.value_linking.__name__} negated={item.negated} "
        f"value=[{', '.join(show(v) for v in item.value)}] "
        f"original=[{', '.join(show(v) for v in item.original_value)}]"
    )


values = [
    "plain",
    "*lead",
    "trail*",
    "*both*",
    "\\*escaped\\*",
    "back\\\\slash\\",
    "",
    "*",
    "?",
    "a?b*c",
    "-param -other/x /flag a-b a/b",
    "- / -- //",
    "\u2013dash -\u00e4 /\u00e9",
    "%user% and %host%",
    "\\%notph% %ph% %%",
    "%a%%b%",
    "100%",
    "%un closed",
    "%a\\b%",
    "-x %p% /y*",
    "f\u00f6\u00f6*b\u00e4r",
    "^anchored$",
    ".*open.*",
    "tail\\.*",
    "tail\\\\.*",
    "10.0.0.0/8",
    "::1/128",
    5,
    -3,
    2.5,
    True,
    False,
    None,
    ["a", "*b", "c*"],
    ["-a", 5],
    ["%x%", "-y"],
    [],
    [None, "x"],
]
mods = [
    "contains",
    "startswith",
    "endswith",
    "all",
    "neq",
    "cased",
    "exists",
    "cidr",
    "fieldref",
    "re",
    "i",
    "m",
    "s",
    "lt",
    "lte",
    "gt",
    "gte",
    "minute",
    "hour",
    "day",
    "week",
    "month",
    "year",
    "windash",
    "expand",
    "base64",
    "base64offset",
    "wide",
    "utf16",
    "utf16be",
    "unknownmod",
]

for value in values:
    run("field", value)
    run(None, value)
    for m in mods:
        run("field|" + m, value)

chains = [
    "contains|all",
    "all|contains",
    "windash|contains",
    "windash|contains|all",
    "contains|windash",
    "expand|windash",
    "windash|expand",
    "expand|contains",
    "contains|expand",
    "cased|contains",
    "contains|cased",
    "cased|windash",
    "cased|expand",
    "cased|windash|endswith",
    "re|contains",
    "re|startswith",
    "re|endswith",
    "re|i|m|s",
    "re|expand",
    "re|expand|contains",
    "contains|re",
    "fieldref|contains",
    "fieldref|startswith",
    "fieldref|endswith",
    "base64offset|contains",
    "wide|base64offset|contains",
    "windash|wide|base64offset",
    "windash|base64offset|contains",
    "base64offset|windash",
    "neq|all|contains",
    "contains|neq",
    "exists|neq",
    "neq|exists",
    "cidr|all",
    "all|cidr",
    "lt|neq",
    "gt|lt",
    "windash|windash",
    "expand|expand",
    "contains|contains",
    "startswith|endswith",
    "windash|expand|contains|all",
    "cased|windash|expand|contains",
]
chain_values = [
    "-a /b",
    "*x",
    "%p%-q -r",
    "\\%p\\% -s",
    "^re.*$",
    "re\\\\",
    "a\\.*",
    "f\u00f6o -b",
    7,
    True,
    None,
    ["-a", "%b%"],
    ["-a", 1],
    "192.168.0.0/16",
]
for chain, value in itertools.product(chains, chain_values):
    run("field|" + chain, value)
for chain in chains:
    run("|" + chain, "-kw %k%")

print("--- SigmaString building blocks")
ph = Placeholder("p")
samples = [
    SigmaString(""),
    SigmaString("abc"),
    SigmaString("*a?b*"),
    SigmaString("a%b%c"),
    SigmaCasedString("Ab*C"),
    SigmaCasedString.from_sigma_string(SigmaString("-x /y")),
    SigmaString("%p%-q").insert_placeholders(),
]
others = ["", "x", SpecialChars.WILDCARD_MULTI, SpecialChars.WILDCARD_SINGLE, ph] + samples
for a in samples:
    before = list(a.s)
    for b in others:
        r = a + b
        print("add", show(a), show(b), "->", show(r), r is a, r.original == "")
        if not isinstance(b, SigmaString):
            r = b + a
            print("radd", show(b), show(a), "->", show(r), r is a)
    for bad in (5, None, [1], 1.5):
        for op in (lambda: a + bad, lambda: bad + a):
            try:
                print("unexpected", op())
            except TypeError as e:
                print("bad operand", show(a), repr(bad), "-> TypeError:", e)
    ins = a.insert_placeholders()
    print("insert", show(a), "->", show(ins), ins is a)
    rep = a.replace_with_placeholder(re.compile("\\B[-/]\\b"), "_windash")
    print("replace_with", show(a), "->", show(rep), rep is a)
    rep2 = a.replace_with_placeholder(re.compile("[ab]?"), "e")
    print("replace_with_empty_matches", show(a), "->", show(rep2))

    calls = []

    def cb(p):
        calls.append(p.name)
        if p.name == "p":
            yield from ("1", SpecialChars.WILDCARD_MULTI, SigmaString("?z"), Placeholder("kept"))
        elif p.name == "e":
            return
        else:
            yield p

    for s in (a, ins, rep, rep2):
        out = s.replace_placeholders(cb)
        print("replace_placeholders", show(s), "->", [show(o) for o in out], [o is s for o in out])
    print("callback calls", calls)
    for idx in (0, -1, slice(1, None), slice(None, -1), slice(1, 3), slice(5, 2), 99):
        try:
            print("getitem", show(a), idx, "->", show(a[idx]))
        except IndexError as e:
            print("getitem", show(a), idx, "-> IndexError:", e)
    m = a.map_parts(lambda x: x.upper() if x != "abc" else None, lambda x: isinstance(x, str))
    print("map_parts", show(a), "->", show(m), m is a)
    assert a.s == before, "operand was modified"

two = SigmaString("-a %p% /b %q%").insert_placeholders().replace_with_placeholder(
    re.compile("\\B[-/]\\b"), "_windash"
)
order = []


def cb2(p):
    order.append(p.name)
    if p.name == "_windash":
        yield from ("-", "/")
    elif p.name == "p":
        yield from ("P1", "P2")
    else:
        yield p


print("nested", [show(o) for o in two.replace_placeholders(cb2)])
print("nested call order", order)
