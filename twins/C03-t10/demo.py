"""Exercises value parsing and modifier application (property C03) and prints what is observed."""
import itertools

from sigma.exceptions import SigmaError
from sigma.rule import SigmaDetectionItem
from sigma.types import SigmaString


def show(v):
    if isinstance(v, SigmaString):
        return f"{type(v).__name__}{v.s!r}<{v.original!r}>" if hasattr(v, "original") else f"{type(v).__name__}{v.s!r}"
    return repr(v)


def observe(key, value):
    try:
        item = SigmaDetectionItem.from_mapping(key, value)
    except SigmaError as e:
        print(f"{key!r} {value!r} -> {type(e).__name__}: {e}")
        return
    except Exception as e:  # non-Sigma errors are shown as well
        print(f"{key!r} {value!r} -> !{type(e).__name__}: {e}")
        return
    print(
        f"{key!r} {value!r} -> [{', '.join(show(v) for v in item.value)}] "
        f"{item.value_linking.__name__} negated={item.negated} plain={item.to_plain()!r}"
    )


# 1. the parser itself: every string up to length 5 over a small alphabet, with and without escaping
alphabet = ["\\", "*", "?", "a", "%", "-"]
count = 0
digest = []
for n in range(0, 6):
    for chars in itertools.product(alphabet, repeat=n):
        raw = "".join(chars)
        for escape in (True, False):
            s = SigmaString(raw, escape)
            digest.append((raw, escape, tuple(map(repr, s.s)), s.original))
            count += 1
print("parsed", count, "strings, digest", hash_ := __import__("hashlib").sha256(repr(digest).encode()).hexdigest())
for raw in ["", "\\", "\\\\", "\\*", "\\\\*", "\\\\\\*", "a\\", "a\\b", "*\\?*", "??", "a*b?c", "\\a\\*\\", "é\\ü*", "\\%x%"]:
    for escape in (True, False):
        s = SigmaString(raw, escape)
        print(repr(raw), escape, "->", s.s, repr(s.original), repr(str(s)), len(s))
print(SigmaString().s, repr(SigmaString(None).original))
for bad in (5, ["a", "*", "\\", "?"], b"a*"):
    try:
        print(repr(bad), "->", SigmaString(bad).s)
    except Exception as e:
        print(repr(bad), "->", type(e).__name__, e)

# 2. modifier chains on values
values = [
    "abc", "*abc*", "a\\*", "a\\\\*", "\\*a\\?", "a\\", "\\", "", "?", "-param /x -y-z", "a-b -c",
    "%user% \\%no% %a%b%", "100%", "C:\\Windows\\*\\cmd.exe", "ünï*cödé -ä", "\\\\server\\share?",
    "10.0.0.0/8", "^a.*$", "a\\.\\*", 1, 1.5, True, None, ["a*", "\\*b", 3], [], ["-a", "/b"],
]
chains = [
    "f", "f|contains", "f|startswith", "f|endswith", "f|contains|all", "f|all|contains", "f|neq",
    "f|cased", "f|cased|contains", "f|windash", "f|windash|contains", "f|contains|windash|all",
    "f|expand", "f|contains|expand", "f|re", "f|re|i|m|s", "f|re|contains", "f|re|startswith",
    "f|re|endswith", "f|re|expand", "f|contains|re", "f|cidr", "f|fieldref", "f|fieldref|endswith",
    "f|exists", "f|lt", "f|gte", "f|minute", "f|base64", "f|base64offset|contains", "f|wide|base64",
    "f|utf16|base64offset", "f|i", "f|nosuch", "|contains", None,
]
for key in chains:
    for value in values:
        observe(key, value)
