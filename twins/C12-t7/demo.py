"""Exercises field name mapping (incl. field references and the fields list) via pipelines."""
import sigma.types
from sigma.backends.test import TextQueryTestBackend
from sigma.collection import SigmaCollection
from sigma.processing.pipeline import ProcessingPipeline, ProcessingItem
from sigma.processing.transformations import FieldMappingTransformation
from sigma.rule import SigmaRule

print("sigma.types from", sigma.types.__file__.replace("/tmp/wt8-C12", "<wt>"))

RULES = {
    "plain": """
title: plain
status: test
logsource: {category: test}
fields: [a, b, other, a]
detection:
  sel:
    a: foo
    b|fieldref: a
    c|fieldref|startswith: b
    d|fieldref|endswith:
      - a
      - x
      - b
  kw:
    - hello
    - wor*ld
    - 5
  condition: sel or kw
""",
    "nested": """
title: nested
status: test
logsource: {category: test}
fields: []
detection:
  sel:
    - a|fieldref: b
      x: 1
    - b|fieldref|all:
        - a
        - z
      a|re: 'f.*'
  condition: not sel
""",
    "norefs": """
title: norefs
status: test
logsource: {category: test}
detection:
  sel:
    a|contains|all: [x, y]
    q: null
    b|windash: '-k'
  condition: 1 of sel*
""",
}

PIPELINES = {
    "one_to_one": """
transformations:
  - id: m
    type: field_name_mapping
    mapping: {a: A, b: B}
""",
    "one_to_many": """
transformations:
  - id: m
    type: field_name_mapping
    mapping:
      a: [A1, A2]
      b: [B1, B2, B3]
""",
    "drop_item_field": """
transformations:
  - id: m
    type: field_name_mapping
    mapping:
      a: []
      b: [B]
""",
    "drop_referenced_and_single_list": """
transformations:
  - id: m
    type: field_name_mapping
    mapping:
      x: []
      z: []
      other: []
      b: [B]
""",
    "empty_mapping": """
transformations:
  - id: m
    type: field_name_mapping
    mapping: {}
""",
    "identity_mapping": """
transformations:
  - id: m
    type: field_name_mapping
    mapping: {a: a, b: [b]}
""",
    "prefix": """
transformations:
  - id: p
    type: field_name_prefix
    prefix: "ev."
""",
    "suffix_only_a": """
transformations:
  - id: s
    type: field_name_suffix
    suffix: ".kw"
    field_name_conditions:
      - type: include_fields
        fields: [a]
""",
    "suffix_not_a": """
transformations:
  - id: s
    type: field_name_suffix
    suffix: "_s"
    field_name_conditions:
      - type: exclude_fields
        fields: [a, c]
""",
    "prefix_mapping": """
transformations:
  - id: pm
    type: field_name_prefix_mapping
    mapping:
      a: [win.a, lin.a]
      b: evt.b
""",
    "keyword_to_field": """
transformations:
  - id: k
    type: field_name_mapping
    mapping:
      null: msg
      a: [A1, A2]
""",
    "keyword_to_fields": """
transformations:
  - id: k
    type: field_name_mapping
    mapping:
      null: [msg, raw]
""",
    "chain": """
transformations:
  - id: m1
    type: field_name_mapping
    mapping: {a: [b, c]}
  - id: m2
    type: field_name_mapping
    mapping: {b: B}
    field_name_conditions:
      - type: processing_item_applied
        processing_item_id: m1
  - id: p
    type: field_name_prefix
    prefix: "x."
    field_name_cond_not: true
    field_name_conditions:
      - type: processing_item_applied
        processing_item_id: m2
""",
    "nested_pipeline": """
transformations:
  - id: n
    type: nest
    items:
      - id: inner
        type: field_name_mapping
        mapping: {a: [A1, A2], b: B}
      - id: inner2
        type: field_name_suffix
        suffix: "!"
        field_name_conditions:
          - type: include_fields
            fields: [B, A2]
""",
    "detection_item_condition": """
transformations:
  - id: m
    type: field_name_mapping
    mapping: {a: [A1, A2], b: B, c: C, d: D}
    detection_item_conditions:
      - type: match_string
        cond: any
        pattern: "^f"
""",
}


def show(value):
    return repr(value)


def rule_state(rule, pipeline):
    """Dump everything the mapping touches: detection items (recursively), fields, tracking."""
    out = []

    def walk(det, indent):
        for item in det.detection_items:
            if hasattr(item, "detection_items"):
                out.append(f"{indent}detection linking={item.item_linking.__name__}")
                walk(item, indent + "  ")
            else:
                try:
                    plain = repr(item.to_plain())
                except Exception as e:
                    plain = type(e).__name__
                out.append(
                    f"{indent}item field={item.field!r} value={item.value!r} "
                    f"orig={item.original_value!r} plain={plain} "
                    f"applied={sorted(item.applied_processing_items)}"
                )

    for name, det in rule.detection.detections.items():
        out.append(f" [{name}]")
        walk(det, "  ")
    out.append(f" fields={rule.fields!r}")
    out.append(f" field_mappings={sorted((repr(k), sorted(v)) for k, v in pipeline.field_mappings.items())}")
    out.append(
        f" field_name_applied_ids={sorted((k, sorted(v)) for k, v in pipeline.field_name_applied_ids.items() if v)}"
    )
    out.append(f" applied_ids={sorted(pipeline.applied_ids)}")
    return "\n".join(out)


for pname, pyaml in PIPELINES.items():
    for rname, ryaml in RULES.items():
        print(f"=== pipeline {pname} / rule {rname}")
        try:
            pipeline = ProcessingPipeline.from_yaml(pyaml)
            backend = TextQueryTestBackend(pipeline)
            collection = SigmaCollection.from_yaml(ryaml)
            queries = backend.convert(collection)
            print(" queries:", queries)
            print(rule_state(collection.rules[0], backend.last_processing_pipeline))
        except Exception as e:
            print(" EXC", type(e).__name__, str(e))

# Direct use without processing item / pipeline (processing_item is None, _pipeline is None).
print("=== direct transformation, no processing item")
for mapping in (
    {"a": ["A1", "A2"], "b": "B"},
    {"a": ("T1", "T2"), "x": []},
    {"a": ("T1", "T2"), "b": []},
    {},
):
    print(" mapping", mapping)
    t = FieldMappingTransformation(mapping)
    rule = SigmaRule.from_yaml(RULES["plain"])
    try:
        t.apply(rule)
    except Exception as e:
        print("  EXC", type(e).__name__, str(e))
    for name, det in rule.detection.detections.items():
        print(" ", name, det.detection_items)
    print("  fields", rule.fields)

# Correlation rule: fields list, group-by, aliases and condition field.
print("=== correlation rule")
CORR = """
title: base
name: base
status: test
logsource: {category: test}
fields: [a, b]
detection:
  sel:
    a: 1
    b|fieldref: a
  condition: sel
---
title: corr
status: test
fields: [a, zz]
correlation:
  type: value_count
  rules: [base]
  group-by: [a, b, al]
  timespan: 5m
  aliases:
    al:
      base: b
  condition:
    field: a
    gte: 10
"""
for pname in ("one_to_one", "one_to_many", "prefix", "empty_mapping"):
    print("--- pipeline", pname)
    try:
        pipeline = ProcessingPipeline.from_yaml(PIPELINES[pname])
        collection = SigmaCollection.from_yaml(CORR)
        for rule in collection.rules:
            pipeline.apply(rule)
            print(" ", type(rule).__name__, "fields", rule.fields)
        corr = collection.rules[1]
        print("  group_by", corr.group_by, "fieldref", corr.condition.fieldref)
        print("  aliases", [(a.alias, sorted((str(k), v) for k, v in a.mapping.items())) for a in corr.aliases])
        print("  base sel", collection.rules[0].detection.detections["sel"].detection_items)
    except Exception as e:
        print("  EXC", type(e).__name__, str(e))
