"""Demo for C07 / t5: parsing of the logsource / detection / filter sections of rules and filters.

Every value at every path of a valid rule and a valid filter is replaced by values of the wrong
type or deleted; the result of strict and collecting loading is printed. Output must be identical
with and without the patch.
"""
import copy
import datetime
import sys

from sigma.collection import SigmaCollection
from sigma.exceptions import SigmaError
from sigma.filters import SigmaFilter
from sigma.rule import SigmaRule

RULE = {
    "title": "Test rule",
    "id": "9a6cafa7-1481-4e64-89a1-1f69ed08618c",
    "logsource": {"category": "process_creation", "product": "windows", "custom": "x"},
    "detection": {
        "sel": {"Image|endswith": "\\cmd.exe", "User": ["a", "b"]},
        "kw": ["foo", "bar"],
        "condition": ["sel and kw", "1 of them"],
    },
}
FILTER = {
    "title": "Test filter",
    "logsource": {"product": "windows", "service": "security"},
    "filter": {
        "rules": ["rule_a", "9a6cafa7-1481-4e64-89a1-1f69ed08618c"],
        "sel": {"User|startswith": "adm"},
        "condition": "not sel",
    },
}
KINDS = [("rule", SigmaRule, RULE), ("filter", SigmaFilter, FILTER)]

WRONG = [
    None, "", "text", "any", "ANY", 0, 1, -1.5, True, False, [], [None], ["x"], [1, 2], [["x"]],
    [{}], {}, {"a": "b"}, {"condition": "a"}, {"condition": ["a", 1]}, {"rules": "any"},
    {"rules": [], "condition": "x", "x": {"a": 1}}, {1: 2}, {None: None}, {"a|nomod": "b"},
    {"a|re": "("}, {"a|cidr": "nonsense"}, {"a": {"b": "c"}}, {"category": 1}, {"product": ["x"]},
    {"category": None, "product": None, "service": None}, {"definition": "only"},
    {"category": "c", "definition": 5}, b"bytes", datetime.date(2024, 1, 2), 2**70, float("inf"),
    "sel and", "1 of nothing*", "not (", "them",
]


def paths(doc, prefix=()):
    """All paths of maps and lists in the document."""
    if isinstance(doc, dict):
        for k, v in doc.items():
            yield prefix + (k,)
            yield from paths(v, prefix + (k,))
    elif isinstance(doc, list):
        for i, v in enumerate(doc):
            yield prefix + (i,)
            yield from paths(v, prefix + (i,))


def replaced(doc, path, value):
    doc = copy.deepcopy(doc)
    cur = doc
    for p in path[:-1]:
        cur = cur[p]
    cur[path[-1]] = copy.deepcopy(value)
    return doc


def deleted(doc, path):
    doc = copy.deepcopy(doc)
    cur = doc
    for p in path[:-1]:
        cur = cur[p]
    del cur[path[-1]]
    return doc


def show_error(e):
    return f"{type(e).__name__}({e})"


def describe(obj):
    part = obj.detection if isinstance(obj, SigmaRule) else obj.filter
    return (
        f"logsource={type(obj.logsource).__name__}:{obj.logsource!r} "
        f"part={type(part).__name__} names={list(part.detections)} cond={part.condition}"
        + (f" rules={part.rules}" if hasattr(part, "rules") else "")
    )


stats = {"cases": 0, "inconsistent": 0, "escaped": 0}


def check(label, cls, doc):
    stats["cases"] += 1
    raised = None
    try:
        obj = cls.from_dict(copy.deepcopy(doc))
        strict = "ok " + describe(obj)
    except SigmaError as e:
        raised = e
        strict = "raises " + show_error(e)
    except Exception as e:  # escapes the Sigma hierarchy
        stats["escaped"] += 1
        print(f"{label}\n   strict ESCAPED {type(e).__name__}: {e}")
        try:
            cls.from_dict(copy.deepcopy(doc), collect_errors=True)
            print("   collecting: returned")
        except Exception as e2:
            print(f"   collecting ESCAPED {type(e2).__name__}: {e2}")
        return
    try:
        obj = cls.from_dict(copy.deepcopy(doc), collect_errors=True)
    except Exception as e:
        stats["escaped"] += 1
        print(f"{label}\n   strict {strict}\n   collecting ESCAPED {type(e).__name__}: {e}")
        return
    consistent = (raised is None and not obj.errors) or (
        raised is not None and bool(obj.errors) and obj.errors[0] == raised
    )
    stats["inconsistent"] += not consistent
    print(label)
    print("   strict    :", strict)
    print("   collecting:", [show_error(e) for e in obj.errors], describe(obj))
    print("   consistent:", consistent)


def main():
    for kind, cls, base in KINDS:
        check(f"{kind} unchanged", cls, base)
        for path in paths(base):
            if path[0] in ("title", "id"):
                continue
            check(f"{kind} delete {path}", cls, deleted(base, path))
            for value in WRONG:
                check(f"{kind} {path} := {value!r}", cls, replaced(base, path, value))
        # both sections broken at once and together with a common attribute: order of errors
        part = "detection" if kind == "rule" else "filter"
        doc = dict(copy.deepcopy(base), logsource=[1], level="bad")
        doc[part] = "text"
        check(f"{kind} logsource, {part} and level broken", cls, doc)
        doc = {k: v for k, v in base.items() if k not in ("logsource", part, "title")}
        check(f"{kind} without title, logsource and {part}", cls, doc)

    # through collections
    docs = [
        dict(RULE, logsource=None),
        dict(RULE, detection=[]),
        dict(FILTER, filter=5),
        {k: v for k, v in FILTER.items() if k != "logsource"},
        RULE,
    ]
    try:
        SigmaCollection.from_dicts(copy.deepcopy(docs))
    except SigmaError as e:
        print("collection strict raises", show_error(e))
    coll = SigmaCollection.from_dicts(copy.deepcopy(docs), collect_errors=True)
    print("collection collected:", [show_error(e) for e in coll.errors])
    for r in coll.rules + coll.filters:
        print("  ", type(r).__name__, [show_error(e) for e in r.errors], describe(r))
    yaml_docs = "title: A\nlogsource: text\ndetection:\n  condition: 5\n---\ntitle: B\nlogsource:\n  product: x\nfilter:\n  - a\n"
    coll = SigmaCollection.from_yaml(yaml_docs, collect_errors=True)
    print("yaml collected:", [show_error(e) for e in coll.errors])
    try:
        SigmaCollection.from_yaml(yaml_docs)
    except SigmaError as e:
        print("yaml strict raises", show_error(e))

    print(stats)
    return 0


if __name__ == "__main__":
    sys.exit(main())
