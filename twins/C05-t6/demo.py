"""Demo for C05/t6: SigmaString.__getitem__ / __len__ (wildcard stripping for startswith/endswith/contains)."""
import hashlib
import itertools
import random
from math import inf

from sigma.backends.test import TextQueryTestBackend
from sigma.rule import SigmaRule
from sigma.types import Placeholder, SigmaCasedString, SigmaString, SpecialChars


def describe(res):
    if isinstance(res, BaseException):
        return f"{type(res).__name__}: {res}"
    out = [type(res).__name__, repr(res.s), repr(res.original), str(len(res))]
    for name, fn in (
        ("plain", res.to_plain),
        ("conv", lambda: res.convert("\\", "%", "_", "%_'", "x")),
        ("regex", lambda: str(res.to_regex().regexp)),
    ):
        try:
            out.append(f"{name}={fn()!r}")
        except Exception as e:  # placeholders can't be rendered
            out.append(f"{name}!{type(e).__name__}: {e}")
    return " | ".join(out)


def index(s, idx):
    before = (list(s.s), s.original)
    try:
        res = s[idx]
    except Exception as e:
        res = e
    assert (list(s.s), s.original) == before, "source value was modified"
    return describe(res)


def make(parts, cls=SigmaString):
    s = cls()
    s.s = list(parts)
    return s


M, S = SpecialChars.WILDCARD_MULTI, SpecialChars.WILDCARD_SINGLE
values = [
    SigmaString(""),
    SigmaString("*"),
    SigmaString("a"),
    SigmaString("abc"),
    SigmaString("*abc*"),
    SigmaString("ab*cd?ef"),
    SigmaString("**??"),
    SigmaString(r"a\*b\\*c\?d\e"),
    SigmaString("\\"),
    SigmaString("*\\"),
    SigmaString("'quo\"te' *(x).[y]+$^|{z}"),
    SigmaString("*%x_'*"),
    SigmaString("p%name%q*r").insert_placeholders(),
    make([Placeholder("only")]),
    make(["ab", "cd", M, "", S, "e"]),  # adjacent and empty string parts
    make(["", ""]),
    SigmaString("no*escape\\*here", escape=False),
    SigmaString.from_str("plain*with?specials"),
    SigmaCasedString("Ab*Cd?"),
    SigmaCasedString.from_sigma_string(SigmaString("*MiXed*")),
]

print("== explicit indices ==")
explicit = [
    0, 1, -1, 2, -2, 5, 99, -99, True, False,
    slice(None), slice(1, None), slice(None, -1), slice(1, -1), slice(0, 0), slice(2, 2),
    slice(3, 1), slice(-3, None), slice(None, 3), slice(None, 99), slice(99, None), slice(-99, None),
    slice(None, -99), slice(0, None, 1), slice(None, None, 2), slice(1, inf), slice(0.5, None),
    slice(None, 1.5), slice(1, float("nan")), slice("a", None), slice(None, "b"),
    "x", None, 1.0, (1, 2), slice(True, None), slice(-1, -2), slice(-2, -1),
]
for v in values:
    print(f"-- {type(v).__name__} {v.s!r} len={len(v)}")
    for idx in explicit:
        print(f"   [{idx!r}] -> {index(v, idx)}")

print("== exhaustive slices, digest per value ==")
bounds = [None] + list(range(-9, 10))
for v in values:
    h = hashlib.sha256()
    n = 0
    for a, b in itertools.product(bounds, bounds):
        h.update(index(v, slice(a, b)).encode())
        n += 1
    for i in range(-12, 13):
        h.update(index(v, i).encode())
        n += 1
    print(f"{v.s!r}: {n} lookups sha256={h.hexdigest()}")

print("== random strings ==")
rnd = random.Random(20260926)
alphabet = "ab\\*?%_'\" .x"
h = hashlib.sha256()
shown = 0
for _ in range(3000):
    raw = "".join(rnd.choice(alphabet) for _ in range(rnd.randint(0, 12)))
    v = SigmaString(raw)
    a = rnd.choice([None] + list(range(-14, 15)))
    b = rnd.choice([None] + list(range(-14, 15)))
    line = f"{raw!r}[{a}:{b}] -> {index(v, slice(a, b))}"
    h.update(line.encode())
    if shown < 25:
        print(line)
        shown += 1
    # the two halves of a split contain the characters and wildcards of the value, in order
    k = rnd.randint(0, len(v))
    assert list(v[:k]) + list(v[k:]) == list(v), (raw, k)
    assert len(v[:k]) + len(v[k:]) == len(v)
print(f"3000 random lookups sha256={h.hexdigest()}")

print("== backend: startswith/endswith/contains strip the wildcards by slicing ==")
backend = TextQueryTestBackend()
for value in [
    "*foo", "foo*", "*foo*", "*f*o*", "f?o*", "*", "**", "*a", "a*", r"*fo\*o*", r"foo\*", r"*\\*",
    "*it's \"q\"*", "*?*", "plain",
]:
    rule = SigmaRule.from_dict(
        {
            "title": "t",
            "logsource": {"category": "c"},
            "detection": {
                "sel": {
                    "field": value,
                    "other|contains": value,
                    "third|startswith": value,
                    "fourth|endswith": value,
                    "fifth|contains|cased": value,
                },
                "condition": "sel",
            },
        }
    )
    try:
        print(f"{value!r}: {backend.convert_rule(rule)}")
    except Exception as e:
        print(f"{value!r}: {type(e).__name__}: {e}")
