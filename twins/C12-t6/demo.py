"""Demo for C12 / t6: ConvertTypeTransformation ('convert_type') through pipelines and directly.

Prints converted queries (pipeline vs. hand-rewritten rule) and low-level results, including
exception classes/messages and the state of partially converted expansions.
"""

from sigma.backends.test import TextQueryTestBackend
from sigma.collection import SigmaCollection
from sigma.exceptions import SigmaError
from sigma.processing.pipeline import ProcessingPipeline
from sigma.processing.transformations import ConvertTypeTransformation
from sigma.rule import SigmaDetectionItem
from sigma.types import (
    SigmaBool,
    SigmaCasedString,
    SigmaExpansion,
    SigmaNull,
    SigmaNumber,
    SigmaRegularExpression,
    SigmaString,
)

RULE = """
title: Test
status: test
logsource:
    category: test
detection:
{detection}
    condition: {condition}
"""


def convert(detection: str, condition: str, pipeline_yaml: str | None) -> object:
    pipeline = ProcessingPipeline.from_yaml(pipeline_yaml) if pipeline_yaml else None
    backend = TextQueryTestBackend(pipeline)
    try:
        return backend.convert(
            SigmaCollection.from_yaml(RULE.format(detection=detection, condition=condition))
        )
    except SigmaError as e:
        return f"{type(e).__name__}: {e}"


def pipeline(target_type: str, extra: str = "") -> str:
    return f"""
name: test
priority: 10
transformations:
    - id: conv
      type: convert_type
      target_type: {target_type}
{extra}
"""


DETECTIONS = [
    # (name, detection, condition, hand-rewritten for str, hand-rewritten for num)
    (
        "numbers and strings",
        "    sel:\n        a: 123\n        b: '456'\n        c: abc*\n        d: 1.5\n",
        "sel",
    ),
    (
        "lists",
        "    sel:\n        a:\n            - 1\n            - '2'\n            - 3.25\n        b|contains: '7'\n",
        "sel",
    ),
    (
        "null bool regex cased fieldref",
        "    sel:\n        a: null\n        b: true\n        c|re: '12+'\n        d|cased: '99'\n        e|fieldref: f\n        g: 5\n",
        "sel",
    ),
    (
        "keywords and nested",
        "    kw:\n        - 10\n        - '20'\n    sel:\n        - a: 1\n          b: '2'\n        - c: 3\n",
        "kw or not sel",
    ),
    (
        "windash expansion",
        "    sel:\n        cmd|windash: '-5'\n        x|windash|contains: '-a'\n        n: 8\n",
        "sel",
    ),
    (
        "comparison and negative numbers",
        "    sel:\n        a|gt: 5\n        b: -7\n        c: '-7'\n        d: '1e3'\n        e: '0x10'\n        f: ' 4 '\n",
        "sel",
    ),
    (
        "all / 1 of",
        "    sel1:\n        a|all:\n            - '1'\n            - '2'\n    sel2:\n        b: 2\n",
        "1 of sel*",
    ),
]

print("=== pipeline conversions ===")
for name, detection, condition in DETECTIONS:
    print(f"--- {name}")
    print("none      :", convert(detection, condition, None))
    for target in ("str", "num", "other", "[str]"):
        print(f"{target:10}:", convert(detection, condition, pipeline(target)))
    # restricted by a field name condition that matches nothing: identity
    ident = "      field_name_conditions:\n        - type: include_fields\n          fields: [nonexistent]\n"
    print("identity  :", convert(detection, condition, pipeline("str", ident)))
    cond_a = "      field_name_conditions:\n        - type: include_fields\n          fields: [a]\n"
    print("only a str:", convert(detection, condition, pipeline("str", cond_a)))
    print("only a num:", convert(detection, condition, pipeline("num", cond_a)))

print("=== documented rewrite equivalence ===")
pairs = [
    ("str", "    sel:\n        a: 123\n        b:\n            - 4\n            - x\n", "    sel:\n        a: '123'\n        b:\n            - '4'\n            - x\n"),
    ("num", "    sel:\n        a: '123'\n        b:\n            - '4'\n            - 5\n", "    sel:\n        a: 123\n        b:\n            - 4\n            - 5\n"),
    ("num", "    sel:\n        a: '1.50'\n", "    sel:\n        a: 1.5\n"),
]
for target, original, rewritten in pairs:
    q1 = convert(original, "sel", pipeline(target))
    q2 = convert(rewritten, "sel", None)
    print(target, q1, q2, q1 == q2)

print("=== chains ===")
chain = """
name: chain
priority: 10
transformations:
    - id: c1
      type: convert_type
      target_type: str
    - id: c2
      type: replace_string
      regex: "^1"
      replacement: "9"
    - id: c3
      type: convert_type
      target_type: num
      field_name_conditions:
        - type: include_fields
          fields: [a]
"""
print(convert("    sel:\n        a: 123\n        b: 145\n        c: x1\n", "sel", chain))
print(convert("    sel:\n        a: '1z'\n", "sel", chain))

print("=== direct apply_value / apply_detection_item ===")


def show(v: object) -> str:
    return repr(v)


VALUES = [
    SigmaNumber(1),
    SigmaNumber(-2.5),
    SigmaString("3"),
    SigmaString("4*"),
    SigmaString(""),
    SigmaString("abc"),
    SigmaString("1_000"),
    SigmaString("٣"),
    SigmaCasedString("77"),
    SigmaBool(True),
    SigmaNull(),
    SigmaRegularExpression("5+"),
]
for target in ("str", "num", "float", None, ["num"]):
    t = ConvertTypeTransformation(target)
    print("target", repr(target), "value_types", t.value_types)
    for v in VALUES:
        try:
            r = t.apply_value("f", v)
            print("  ", show(v), "->", show(r), type(r).__name__, r is v)
        except Exception as e:
            print("  ", show(v), "raises", type(e).__name__, str(e), "| context:", type(e.__context__).__name__)
    for entries in (
        [SigmaNumber(1), SigmaString("2"), SigmaNull()],
        [SigmaString("3"), SigmaString("x"), SigmaString("4")],
        [],
        [SigmaExpansion([SigmaNumber(6), SigmaString("7")]), SigmaNumber(8)],
    ):
        exp = SigmaExpansion(list(entries))
        try:
            r = t.apply_value("f", exp)
            print("   expansion", entries, "->", show(r), r is exp)
        except Exception as e:
            print("   expansion", entries, "raises", type(e).__name__, str(e), "| left:", exp.values)
    for vals in (
        [SigmaNumber(1), SigmaString("2")],
        [SigmaString("x")],
        [SigmaNull(), SigmaBool(False)],
        [SigmaExpansion([SigmaString("1"), SigmaNumber(2)]), SigmaString("5"), SigmaNumber(6)],
        [SigmaString("1"), SigmaString("bad"), SigmaString("3")],
    ):
        item = SigmaDetectionItem("f", [], list(vals))
        before = item.value
        try:
            r = t.apply_detection_item(item)
            print("   item", vals, "->", None if r is None else r.value, r is item, item.value is before)
        except Exception as e:
            print("   item", vals, "raises", type(e).__name__, str(e), "| left:", item.value)
