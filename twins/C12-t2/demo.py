"""
Demo for t2: value transformations (replace_string in its three modes, map_string with fan-out and
drop, set_value, convert_type, case_transformation, regex) on many rule shapes, including expansions
created by the windash modifier, case-sensitive strings, placeholders, numbers, null and regular
expressions.

Prints the converted queries plus the state of the rule object after the pipeline was applied. Must
print the same with and without the patch.
"""

import sys
import textwrap

from sigma.backends.test import TextQueryTestBackend
from sigma.collection import SigmaCollection
from sigma.processing.pipeline import ProcessingPipeline
from sigma.processing.transformations import (
    ReplaceStringTransformation,
    MapStringTransformation,
    SetValueTransformation,
)
from sigma.processing.transformations.base import ValueTransformation
from sigma.rule import SigmaDetection, SigmaDetectionItem
from sigma.types import (
    SigmaString,
    SigmaCasedString,
    SigmaNumber,
    SigmaNull,
    SigmaBool,
    SigmaExpansion,
    SigmaRegularExpression,
    SigmaType,
)


def dump_detection(d, indent="    "):
    for item in d.detection_items:
        if isinstance(item, SigmaDetection):
            print(f"{indent}detection linking={item.item_linking.__name__}")
            dump_detection(item, indent + "  ")
        else:
            print(
                f"{indent}item field={item.field!r} modifiers={[m.__name__ for m in item.modifiers]} "
                f"value={item.value!r} types={[type(v).__name__ for v in item.value]} "
                f"linking={item.value_linking.__name__} "
                f"original={item.original_value!r} "
                f"applied={sorted(item.applied_processing_items)}"
            )


def run(title, rule_yaml, pipeline_yaml):
    print("=" * 78)
    print(title)
    try:
        pipeline = ProcessingPipeline.from_yaml(textwrap.dedent(pipeline_yaml))
    except Exception as e:
        print("  pipeline exception:", type(e).__name__, str(e))
        return
    rules = SigmaCollection.from_yaml(textwrap.dedent(rule_yaml))
    # placeholders left over after the tested transformations become wildcards
    pipeline = pipeline + ProcessingPipeline.from_yaml(
        "name: final\npriority: 90\ntransformations:\n  - id: wc\n    type: wildcard_placeholders\n"
    )
    backend = TextQueryTestBackend(pipeline)
    try:
        for query in backend.convert(rules):
            print("  query:", query)
    except Exception as e:  # the class and the message are part of the behaviour
        print("  exception:", type(e).__name__, str(e))
    for rule in rules.rules:
        for name, d in rule.detection.detections.items():
            print(f"   detection {name} linking={d.item_linking.__name__}")
            dump_detection(d)
        try:
            print("   to_dict:", rule.to_dict()["detection"])
        except Exception as e:
            print("   to_dict exception:", type(e).__name__)
    p = getattr(backend, "last_processing_pipeline", None)
    if p is not None:
        print("  applied_ids:", sorted(p.applied_ids))


RULE_STRINGS = r"""
    title: strings
    status: test
    logsource:
        category: test
    detection:
        sel:
            path:
                - 'C:\Windows\System32\cmd.exe'
                - 'C:\Users\*\AppData\*'
                - 'literal\*star'
                - 'literal\?mark and ? wildcard'
                - 'double\\*backslash wildcard'
                - 'trailing backslash\'
                - ''
                - '*'
                - 'foo bar foo'
            num:
                - 4624
                - 1.5
                - foo123
            empty: null
            flag: true
            rx|re: 'foo.*bar'
        neg:
            path|contains|all:
                - 'foo'
                - 'ba?'
        condition: sel and not neg
"""

RULE_EXPANSION = r"""
    title: expansions
    status: test
    logsource:
        category: test
    detection:
        sel:
            CommandLine|windash|contains:
                - ' -foo /bar'
                - 'nothing'
            Cased|cased:
                - 'Foo'
                - 'fOO*bar'
            Place|expand:
                - '%foo%'
                - 'pre\foo%bar%post*'
        condition: sel
"""

RULE_KEYWORDS = r"""
    title: keywords and lists
    status: test
    logsource:
        category: test
    detection:
        keywords:
            - foo
            - 'b*r'
            - 17
        sel:
            - a: foo
              b|startswith: foo
            - c|endswith:
                  - foo
                  - bar
        condition: keywords or sel
"""

PIPELINES = {
    "replace plain": r"""
        name: p
        priority: 10
        transformations:
            - id: r
              type: replace_string
              regex: "foo"
              replacement: "x*y"
    """,
    "replace plain backslashes": r"""
        name: p
        priority: 10
        transformations:
            - id: r
              type: replace_string
              regex: "\\\\"
              replacement: "/"
    """,
    "replace plain groups": r"""
        name: p
        priority: 10
        transformations:
            - id: r
              type: replace_string
              regex: "^(.)(.*)$"
              replacement: "\\2\\\\\\1"
    """,
    "replace matching nothing": r"""
        name: p
        priority: 10
        transformations:
            - id: r
              type: replace_string
              regex: "ZZZ_never_ZZZ"
              replacement: "x"
    """,
    "replace matching everything with itself": r"""
        name: p
        priority: 10
        transformations:
            - id: r
              type: replace_string
              regex: "^(.*)$"
              replacement: "\\1"
    """,
    "replace empty match": r"""
        name: p
        priority: 10
        transformations:
            - id: r
              type: replace_string
              regex: "^"
              replacement: "p\\*"
    """,
    "replace skip_special": r"""
        name: p
        priority: 10
        transformations:
            - id: r
              type: replace_string
              regex: "o|\\\\"
              replacement: "*0?"
              skip_special: true
    """,
    "replace skip_special interpret_special": r"""
        name: p
        priority: 10
        transformations:
            - id: r
              type: replace_string
              regex: "o+|\\\\"
              replacement: "*0\\\\*?"
              skip_special: true
              interpret_special: true
    """,
    "replace interpret_special only": r"""
        name: p
        priority: 10
        transformations:
            - id: r
              type: replace_string
              regex: "foo"
              replacement: "a%ph%b"
              interpret_special: true
    """,
    "replace remove all": r"""
        name: p
        priority: 10
        transformations:
            - id: r
              type: replace_string
              regex: ".+"
              replacement: ""
              skip_special: true
              interpret_special: true
    """,
    "replace bad group": r"""
        name: p
        priority: 10
        transformations:
            - id: r
              type: replace_string
              regex: "foo"
              replacement: "\\7"
    """,
    "replace with item condition": r"""
        name: p
        priority: 10
        transformations:
            - id: r
              type: replace_string
              regex: "foo"
              replacement: "FOO"
              field_name_conditions:
                  - type: include_fields
                    fields: [path, a, CommandLine]
            - id: r2
              type: replace_string
              regex: "FOO"
              replacement: "second"
              detection_item_conditions:
                  - type: processing_item_applied
                    processing_item_id: r
    """,
    "map fan-out and drop": r"""
        name: p
        priority: 10
        transformations:
            - id: m
              type: map_string
              mapping:
                  foo:
                      - one
                      - 'tw*o'
                  bar: single
                  "": []
                  foo123: []
                  Foo: [A, B]
                  nothing: []
    """,
    "map empty": r"""
        name: p
        priority: 10
        transformations:
            - id: m
              type: map_string
              mapping: {}
    """,
    "set value": r"""
        name: p
        priority: 10
        transformations:
            - id: s
              type: set_value
              value: fixed
              field_name_conditions:
                  - type: include_fields
                    fields: [num, empty, CommandLine, c]
    """,
    "set value null": r"""
        name: p
        priority: 10
        transformations:
            - id: s
              type: set_value
              value: null
              field_name_conditions:
                  - type: include_fields
                    fields: [flag, rx, a]
    """,
    "convert str": r"""
        name: p
        priority: 10
        transformations:
            - id: c
              type: convert_type
              target_type: str
    """,
    "convert num": r"""
        name: p
        priority: 10
        transformations:
            - id: c
              type: convert_type
              target_type: num
              field_name_conditions:
                  - type: include_fields
                    fields: [num]
              detection_item_conditions:
                  - type: match_string
                    cond: all
                    pattern: "^[0-9.]+$"
    """,
    "convert num failing": r"""
        name: p
        priority: 10
        transformations:
            - id: c
              type: convert_type
              target_type: num
    """,
    "case upper": r"""
        name: p
        priority: 10
        transformations:
            - id: c
              type: case
              method: upper
    """,
    "regex": r"""
        name: p
        priority: 10
        transformations:
            - id: c
              type: regex
              method: ignore_case_flag
              field_name_conditions:
                  - type: include_fields
                    fields: [path, a, b, c, Cased]
    """,
    "chain": r"""
        name: p
        priority: 10
        transformations:
            - id: one
              type: map_string
              mapping:
                  foo: [foo1, foo2]
            - id: two
              type: replace_string
              regex: "foo(\\d)"
              replacement: "\\1\\\\*oof"
            - id: three
              type: case
              method: upper
    """,
}

for rule_name, rule_yaml in [
    ("strings", RULE_STRINGS),
    ("expansions", RULE_EXPANSION),
    ("keywords", RULE_KEYWORDS),
]:
    for pipeline_name, pipeline_yaml in PIPELINES.items():
        run(f"{rule_name} x {pipeline_name}", rule_yaml, pipeline_yaml)

# Object level: apply_string_value / apply_value directly, incl. identity of returned objects
print("=" * 78)
print("ReplaceStringTransformation.apply_value directly")
values = [
    SigmaString(r"foo\*bar"),
    SigmaString(r"foo\\*bar"),
    SigmaString(r"a\b"),
    SigmaString(r"*\?*"),
    SigmaString(""),
    SigmaCasedString(r"Foo\Bar*"),
    SigmaString(r"x%ph%\%y").insert_placeholders(),
    SigmaNumber(100),
    SigmaNumber(1.25),
    SigmaNull(),
    SigmaBool(True),
    SigmaRegularExpression("fo+"),
]
for kwargs in [
    dict(regex="o", replacement="0"),
    dict(regex="never", replacement="0"),
    dict(regex=r"\\", replacement=r"\\\\"),
    dict(regex=r"\\\*", replacement="*"),
    dict(regex="(?i)b", replacement=r"\\*"),
    dict(regex="o", replacement="*", skip_special=True),
    dict(regex="o", replacement="*", skip_special=True, interpret_special=True),
    dict(regex="%ph%", replacement="%other%", interpret_special=True),
    dict(regex="1", replacement="one", skip_special=1, interpret_special=0),
    dict(regex="1", replacement="o*e", skip_special="yes", interpret_special="yes"),
    dict(regex="1", replacement="o*e", skip_special=0, interpret_special=1),
]:
    t = ReplaceStringTransformation(**kwargs)
    print(" ", kwargs, "value_types=", t.value_types)
    for v in values:
        before = repr(v)
        try:
            r = t.apply_value("f", v)
            print(
                f"    {before} -> {type(r).__name__} {r!r} same_object={r is v} input_unchanged={repr(v) == before}"
            )
        except Exception as e:
            print(f"    {before} -> exception {type(e).__name__} {e}")
    print("    non-string to apply_string_value:", t.apply_string_value("f", SigmaNumber(5)))

try:
    ReplaceStringTransformation.from_dict({"regex": "a", "replacement": "b", "lone_backslash": "x"})
except Exception as e:
    print("from_dict with unknown key:", type(e).__name__, e)
print(repr(ReplaceStringTransformation("a", "b")), ReplaceStringTransformation("a", "b") == ReplaceStringTransformation("a", "b"))


# Custom value transformations: every shape of return value of apply_value
class Custom(ValueTransformation):
    def __init__(self, func):
        self.func = func
        super().__post_init__()
        self.processing_item = None

    def apply_value(self, field, val: SigmaString | SigmaNumber | SigmaExpansion):
        return self.func(val)


class Untyped(ValueTransformation):
    def __init__(self, func):
        self.func = func
        super().__post_init__()
        self.processing_item = None

    def apply_value(self, field, val):
        return self.func(val)


def gen(v):
    yield SigmaString("g1")
    yield v


funcs = {
    "none": lambda v: None,
    "same": lambda v: v,
    "empty list": lambda v: [],
    "empty tuple": lambda v: (),
    "list": lambda v: [v, SigmaString("extra")],
    "generator": gen,
    "iterator": lambda v: iter([SigmaNull()]),
    "number only": lambda v: SigmaString("n") if isinstance(v, SigmaNumber) else None,
    "expansion whole": lambda v: SigmaString("whole") if isinstance(v, SigmaExpansion) else None,
    "expansion members": lambda v: SigmaString("m") if str(v) == "b" else None,
    "non sigma scalar": lambda v: 5 if isinstance(v, SigmaNumber) else None,
    "sigma string result": lambda v: SigmaString("a*b"),
}
for cls in (Custom, Untyped):
    for fname, func in funcs.items():
        item = SigmaDetectionItem(
            "f",
            [],
            [
                SigmaString("a"),
                SigmaNumber(1),
                SigmaNull(),
                SigmaExpansion([SigmaString("b"), SigmaString("c"), SigmaExpansion([SigmaString("b")])]),
                SigmaRegularExpression("x"),
            ],
        )
        d = SigmaDetection([item, SigmaDetection([SigmaDetectionItem(None, [], [SigmaString("b")])])])
        t = cls(func)
        orig_values = item.value
        print(f"  {cls.__name__} {fname}: value_types={t.value_types}")
        try:
            r = t.apply_detection_item(item)
            print("    apply_detection_item ->", "None" if r is None else "item", "same list:", item.value is orig_values)
            t.apply_detection(d)
        except Exception as e:
            print("    exception:", type(e).__name__, e)
        dump_detection(d, "     ")

sys.exit(0)
