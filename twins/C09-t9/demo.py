"""
Demo for property C09 (rule references resolve the same way whatever the document order),
with the focus on the load path SigmaCollection.from_dicts (used by from_yaml and load_ruleset).

Run: PYTHONPATH=/tmp/wt10-C09 /venv/bin/python demo.py
Prints everything it observes; output must be identical before and after the patch.
"""

import copy
import itertools
import shutil
import sys
import tempfile
from pathlib import Path

import yaml

import sigma.types
from sigma.backends.test import TextQueryTestBackend
from sigma.collection import SigmaCollection
from sigma.exceptions import SigmaError
from sigma.rule import SigmaRule

HERE = Path(__file__).resolve().parent


def plain(title, name=None, id=None, field="f", value="v"):
    d = {
        "title": title,
        "logsource": {"category": "test"},
        "detection": {"sel": {field: value}, "condition": "sel"},
    }
    if name is not None:
        d["name"] = name
    if id is not None:
        d["id"] = id
    return d


def corr(title, refs, name=None, generate=None, ctype="event_count", id=None):
    c = {
        "type": ctype,
        "rules": refs,
        "group-by": ["user"],
        "timespan": "5m",
    }
    if ctype == "event_count":
        c["condition"] = {"gte": 2}
    if generate is not None:
        c["generate"] = generate
    d = {"title": title, "correlation": c}
    if name is not None:
        d["name"] = name
    if id is not None:
        d["id"] = id
    return d


ID_A = "0e95725d-7320-415d-80f7-004da920fc11"
ID_B = "0e95725d-7320-415d-80f7-004da920fc12"

RULESETS = {
    "by_name": [
        plain("A", name="a"),
        corr("C1", ["a"], name="c1"),
        plain("U", name="u", value="unrelated"),
    ],
    "by_id_generate": [
        plain("A", id=ID_A, value="x"),
        corr("C1", [ID_A], generate=True),
        plain("U", value="unrelated"),
    ],
    "two_refs_mixed_generate": [
        plain("A", name="a", value="x"),
        plain("B", name="b", id=ID_B, value="y"),
        corr("Cgen", ["a"], generate=True),
        corr("Cnogen", ["a", ID_B], ctype="temporal"),
    ],
    "chain_depth_3": [
        plain("A", name="a"),
        corr("C1", ["a"], name="c1"),
        corr("C2", ["c1"], name="c2", ctype="temporal"),
        corr("C3", ["c2"], name="c3", ctype="temporal", generate=True),
        plain("U", value="unrelated"),
    ],
    "missing_reference": [
        plain("A", name="a"),
        corr("C1", ["a", "nothere"], ctype="temporal"),
        plain("U", value="unrelated"),
    ],
    "global_and_repeat_actions": [
        {"action": "global", "logsource": {"category": "test"}, "level": "low"},
        {"title": "A", "name": "a", "detection": {"sel": {"f": "v"}, "condition": "sel"}},
        {"action": "repeat", "title": "A2", "name": "a2", "detection": {"sel": {"f": "w"}}},
        corr("C1", ["a", "a2"], ctype="temporal"),
        {"action": "reset"},
    ],
}

# document lists that make from_dicts fail or collect errors
BROKEN = {
    "scalar_document": [plain("A", name="a"), "just a string", corr("C1", ["a"])],
    "none_document": [None, plain("A", name="a")],
    "unknown_action": [plain("A", name="a"), {"action": "explode", "title": "X"}],
    "int_action": [{"action": 5, "title": "X"}, plain("A", name="a")],
    "bad_plain_rule": [{"title": "NoDetection", "logsource": {"category": "t"}}, plain("A")],
    "bad_correlation": [plain("A", name="a"), {"title": "C", "correlation": {"type": "nonsense"}}],
    "repeat_without_previous": [{"action": "repeat", "title": "R"}],
    "filter_document": [
        plain("A", name="a"),
        {
            "title": "F",
            "logsource": {"category": "test"},
            "filter": {"rules": ["a"], "selection": {"g": "h"}, "condition": "not selection"},
        },
        corr("C1", ["a"]),
    ],
}


def backend():
    return TextQueryTestBackend()


def describe(collection):
    out = []
    for rule in collection.rules:
        out.append(
            (
                rule.title,
                type(rule).__name__,
                rule._output,
                sorted(r.title for r in rule._backreferences),
            )
        )
    return out


def convert(collection):
    b = backend()
    try:
        queries = b.convert(collection)
    except Exception as e:  # noqa
        return ("EXC", type(e).__name__, str(e))
    return sorted(str(q) for q in queries)


def observe(loader):
    try:
        collection = loader()
    except SigmaError as e:
        return ("SIGMAERR", type(e).__name__, str(e))
    except Exception as e:  # noqa
        return ("EXC", type(e).__name__, str(e))
    titles = [r.title for r in collection.rules]
    pos = {t: i for i, t in enumerate(titles)}
    ordering_ok = all(
        pos[ref.rule.title] < pos[r.title]
        for r in collection.rules
        for ref in getattr(r, "referenced_rules", [])
    )
    return {
        "rules": describe(collection),
        "refs_first": ordering_ok,
        "errors": [(type(e).__name__, str(e)) for e in collection.errors],
        "filters": [f.title for f in collection.filters],
        "queries": convert(collection),
    }


def to_yaml(docs):
    return "---\n".join(yaml.safe_dump(d, sort_keys=False) for d in docs)


def load_paths(docs, tmpdir):
    """The four load paths of the property for one ordering of the documents."""

    def from_yaml():
        return SigmaCollection.from_yaml(to_yaml(docs))

    def from_dicts():
        return SigmaCollection.from_dicts(copy.deepcopy(docs))

    def merge():
        return SigmaCollection.merge(
            [
                SigmaCollection.from_dicts([copy.deepcopy(d)], resolve_references=False)
                for d in docs
            ]
        )

    def load_ruleset():
        d = Path(tempfile.mkdtemp(dir=tmpdir))
        for n, doc in enumerate(docs):
            (d / f"{n:02d}.yml").write_text(yaml.safe_dump(doc, sort_keys=False))
        return SigmaCollection.load_ruleset(sorted(d.glob("*.yml")))

    return {
        "from_yaml": from_yaml,
        "from_dicts": from_dicts,
        "merge": merge,
        "load_ruleset": load_ruleset,
    }


def main():
    print("sigma imported from", Path(sigma.types.__file__).parent.name)
    tmpdir = tempfile.mkdtemp(prefix="demo_t9_", dir=HERE)
    try:
        # 1. permutations x load paths
        for name, docs in RULESETS.items():
            stateful = any(isinstance(d, dict) and "action" in d for d in docs)
            perms = [tuple(docs)] if stateful else list(itertools.permutations(docs))
            print(f"=== rule set {name}: {len(docs)} documents, {len(perms)} orderings")
            seen = {}
            for perm in perms:
                order = [d.get("title", d.get("action")) for d in perm]
                paths = load_paths(list(perm), tmpdir)
                for path_name, loader in paths.items():
                    if stateful and path_name in ("merge", "load_ruleset"):
                        continue  # collection actions only work within one stream
                    obs = observe(loader)
                    print(order, path_name, obs)
                    if isinstance(obs, dict):
                        key = (
                            tuple(sorted(map(repr, obs["rules"]))),
                            tuple(obs["queries"]) if isinstance(obs["queries"], list) else obs["queries"],
                        )
                    else:
                        key = obs
                    seen.setdefault(key, []).append((order, path_name))
            print(f"--- {name}: {len(seen)} distinct outcome(s) over all orderings and load paths")

        # 2. documents that are reported by from_dicts itself, raised and collected
        for name, docs in BROKEN.items():
            print(f"=== broken set {name}")
            for collect_errors in (False, True):
                for collect_filters in (False, True):
                    obs = observe(
                        lambda: SigmaCollection.from_dicts(
                            copy.deepcopy(docs),
                            collect_errors=collect_errors,
                            collect_filters=collect_filters,
                        )
                    )
                    print(f"collect_errors={collect_errors} collect_filters={collect_filters}", obs)
            obs = observe(lambda: SigmaCollection.from_yaml(to_yaml(docs), collect_errors=True))
            print("from_yaml collect_errors=True", obs)

        # 3. already parsed rules are taken over as they are and get the source of the stream
        parsed = SigmaRule.from_dict(plain("Parsed", name="parsed"))
        coll = SigmaCollection.from_dicts([corr("C1", ["parsed"]), parsed, plain("U")])
        print("parsed rule:", describe(coll), parsed.source, convert(coll))

        # 4. a global document is modified in place (its action key is removed), others are not
        docs = copy.deepcopy(RULESETS["global_and_repeat_actions"])
        SigmaCollection.from_dicts(docs)
        print("documents after from_dicts:", docs)

        # 5. the same rule objects in a second collection: references are determined anew
        first = SigmaCollection.from_dicts(copy.deepcopy(RULESETS["by_name"]))
        print("first:", describe(first))
        second = SigmaCollection.merge(
            [SigmaCollection([r for r in first.rules if r.title != "C1"], resolve_references=False)]
        )
        print("second:", describe(second))
        print("second queries:", convert(second))
    finally:
        shutil.rmtree(tmpdir, ignore_errors=True)
    return 0


if __name__ == "__main__":
    sys.exit(main())
