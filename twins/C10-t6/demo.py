"""Demo for C10 / t6: aggregation phase of correlation queries (fields list, group-by, referenced rules).

Run as: PYTHONPATH=/tmp/wt7-C10 /venv/bin/python demo.py
Prints everything it observes; the output must be identical with and without the patch.
"""

import itertools
from types import SimpleNamespace

from sigma.backends.test import TextQueryTestBackend
from sigma.collection import SigmaCollection
from sigma.processing.pipeline import ProcessingItem, ProcessingPipeline
from sigma.processing.transformations import FieldMappingTransformation

AGG_TYPES = [
    "event_count",
    "value_count",
    "temporal",
    "temporal_ordered",
    "temporal_extended",
    "temporal_ordered_extended",
    "value_sum",
    "value_avg",
    "value_percentile",
    "value_median",
]


class DelimBackend(TextQueryTestBackend):
    """Delimiter-structured templates so that every element of the rule is visible in the output."""

    default_correlation_query = {"test": "S<{search}>|T<{typing}>|A<{aggregate}>|C<{condition}>"}
    temporal_correlation_query = None
    temporal_extended_correlation_query = None
    temporal_ordered_extended_correlation_query = None
    correlation_fields_expression = {"test": "F[{fields}]"}
    correlation_fields_field_expression = {"test": "<{field}>"}
    correlation_fields_field_expression_joiner = {"test": ";"}
    groupby_expression = {"test": "G[{fields}]"}
    groupby_field_expression = {"test": "({field})"}
    groupby_field_expression_joiner = {"test": "+"}
    groupby_expression_nofield = {"test": "G[-]"}
    referenced_rules_expression = {"test": "r:{ruleid}"}
    referenced_rules_expression_joiner = {"test": ","}


for _t in AGG_TYPES:
    setattr(
        DelimBackend,
        f"{_t}_aggregation_expression",
        {
            "test": _t
            + " ts={timespan} fld={field} pct={percentile} refs={referenced_rules} {fields} {groupby}"
        },
    )


class NoFieldTemplates(DelimBackend):
    correlation_fields_field_expression = None


class NoFieldsAtAll(DelimBackend):
    correlation_fields_expression = None


class NoGroupBy(DelimBackend):
    groupby_expression = None


class NoGroupByJoiner(DelimBackend):
    groupby_field_expression_joiner = None


class NoNofield(DelimBackend):
    groupby_expression_nofield = None


class OtherMethodOnly(DelimBackend):
    # templates exist only for a method that is not requested: KeyError('test') must come out
    groupby_field_expression = {"other": "({field})"}
    correlation_fields_field_expression_joiner = {"other": ";"}


class NoRefs(DelimBackend):
    referenced_rules_expression = None


RULES = """
title: Rule A
name: rule_a
id: 11111111-1111-1111-1111-111111111111
logsource: {category: test}
fields: [User, "Source IP", fieldC, User]
detection:
    sel: {fieldA: 1, "field B": foo}
    condition: sel
---
title: Rule B
id: 22222222-2222-2222-2222-222222222222
logsource: {category: test}
fields: [Host, User, fieldC]
detection:
    s1: {fieldC: x}
    s2: {fieldD: y}
    condition: [s1, s2]
---
title: Rule C
name: rule_c
logsource: {category: test}
detection:
    sel: {fieldE|contains: "z z"}
    condition: sel
"""


def correlation(ctype, rules, timespan, group_by, condition, fields=None, aliases=None, name="corr"):
    out = ["---", "title: Correlation", f"name: {name}", "correlation:", f"    type: {ctype}"]
    out.append("    rules: [" + ", ".join(rules) + "]")
    out.append(f"    timespan: {timespan}")
    if group_by is not None:
        out.append("    group-by: [" + ", ".join(f'"{g}"' for g in group_by) + "]")
    if aliases:
        out.append("    aliases:")
        for alias, mapping in aliases.items():
            out.append(f"        {alias}:")
            for rule, fld in mapping.items():
                out.append(f"            {rule}: {fld}")
    if isinstance(condition, dict):
        out.append("    condition:")
        for k, v in condition.items():
            out.append(f"        {k}: {v}")
    elif condition is not None:
        out.append(f"    condition: {condition}")
    if fields is not None:
        out.append("fields: [" + ", ".join(f'"{f}"' for f in fields) + "]")
    return "\n".join(out) + "\n"


B_ID = "22222222-2222-2222-2222-222222222222"
CASES = [
    ("event_count", ["rule_a"], "5m", ["User", "Source IP"], {"gte": 10}, ["Extra", "User"], None),
    ("event_count", ["rule_a"], "90s", None, {"lt": 3}, None, None),
    ("event_count", ["rule_a"], "2h", [], {"eq": 1}, [], None),
    ("event_count", ["rule_a", B_ID], "1d", ["fieldC"], {"gt": 2}, ["fieldC", "New Field"], None),
    ("value_count", ["rule_a", B_ID, "rule_c"], "3w", ["Host"], {"field": "User", "lte": 7}, None, None),
    ("value_count", [B_ID], "1M", ["User", "Host", "fieldC"], {"field": "fieldC", "neq": 4}, ["Host"], None),
    ("temporal", ["rule_a", B_ID], "1y", ["usr"], None, ["a b"], {"usr": {"rule_a": "User", B_ID: "fieldC"}}),
    ("temporal_ordered", [B_ID, "rule_c", "rule_a"], "15m", None, None, ["Host"], None),
    ("temporal", ["rule_a", "rule_c"], "10m", ["User"], "rule_a and not rule_c", None, None),
    ("temporal_ordered", ["rule_a", "rule_c"], "10m", None, "rule_a or (rule_c and not rule_a)", ["X"], None),
    ("value_sum", ["rule_a"], "30s", ["fieldC"], {"field": "fieldC", "gt": 100.5}, None, None),
    ("value_avg", ["rule_c"], "4h", ["a-b", "c d"], {"field": "Source IP", "gte": 2}, ["c d", "e"], None),
    ("value_percentile", ["rule_a"], "7d", None, {"field": "fieldA", "percentile": 95, "gt": 1}, None, None),
    ("value_percentile", ["rule_a"], "7d", ["User"], {"field": "fieldA", "gt": 1}, None, None),
    ("value_median", ["rule_a", "rule_c"], "2m", ["User"], {"field": "field B", "lt": 9}, ["fieldC"], None),
]

PIPELINES = {
    "none": lambda: None,
    "map": lambda: ProcessingPipeline(
        [
            ProcessingItem(
                FieldMappingTransformation(
                    {
                        "User": "user.name",
                        "Source IP": "src ip",
                        "fieldC": ["c1", "c 2"],
                        "Host": "host",
                        "fieldA": "a",
                    }
                )
            )
        ]
    ),
}

BACKENDS = [
    DelimBackend,
    NoFieldTemplates,
    NoFieldsAtAll,
    NoGroupBy,
    NoGroupByJoiner,
    NoNofield,
    OtherMethodOnly,
    NoRefs,
]


def show(label, fn):
    try:
        res = fn()
        print(f"{label} -> {res!r}")
    except Exception as e:  # the exception class and message are part of the observed behaviour
        print(f"{label} !! {type(e).__name__}: {e}")


print("=== 1. Backend.convert() over rules x backends x pipelines ===")
for (i, case), backend_cls, pname in itertools.product(enumerate(CASES), BACKENDS, PIPELINES):
    ctype, rules, ts, gb, cond, flds, aliases = case
    yaml = RULES + correlation(ctype, rules, ts, gb, cond, flds, aliases)

    def run():
        coll = SigmaCollection.from_yaml(yaml)
        return backend_cls(PIPELINES[pname]()).convert(coll)

    show(f"case{i:02d} {ctype} {backend_cls.__name__} pipe={pname}", run)

print("=== 2. correlation method that the field templates do not know ===")
yaml = RULES + correlation("event_count", ["rule_a"], "5m", ["User"], {"gte": 1}, ["Extra"])
for backend_cls in BACKENDS:
    show(
        f"method=other {backend_cls.__name__}",
        lambda: backend_cls().convert(SigmaCollection.from_yaml(yaml), correlation_method="other"),
    )

print("=== 3. direct calls of the aggregation-phase helpers with unusual arguments ===")


def ref(*fields, name=None, id=None):
    return SimpleNamespace(rule=SimpleNamespace(fields=list(fields), name=name, id=id))


class Weird:
    """Unhashable field object that compares equal to the string 'User'."""

    __hash__ = None

    def __eq__(self, other):
        return other == "User" or other is self

    def __repr__(self):
        return "Weird()"


for backend_cls in BACKENDS:
    b = backend_cls()
    n = backend_cls.__name__
    f = b.convert_correlation_aggregation_fields_from_template
    g = b.convert_correlation_aggregation_groupby_from_template
    show(f"{n} fields empty", lambda: f([], [], None, "test"))
    show(f"{n} fields dup", lambda: f(["a", "b", "a"], [ref("b", "c"), ref("c", "d d")], ["d d"], "test"))
    show(f"{n} fields all grouped", lambda: f(["a"], [ref("a")], ["a"], "test"))
    show(f"{n} fields groupby empty list", lambda: f(["x", "x y"], [ref()], [], "test"))
    show(f"{n} fields tuple corr fields", lambda: f(("a",), [ref("b")], None, "test"))
    show(f"{n} fields None corr fields", lambda: f(None, [ref("b")], None, "test"))
    show(f"{n} fields non-str", lambda: f([1, "1", 1.0], [ref(True)], None, "test"))
    show(f"{n} fields weird", lambda: f(["User"], [ref(Weird(), "z")], None, "test"))
    show(f"{n} fields bad ref", lambda: f(["a"], [ref("b"), SimpleNamespace()], None, "test"))
    show(f"{n} fields ref fields None", lambda: f(["a"], [SimpleNamespace(rule=SimpleNamespace(fields=None))], None, "test"))
    show(f"{n} fields method other", lambda: f(["a"], [ref("b")], None, "other"))
    show(f"{n} fields method other, nothing to show", lambda: f([], [], None, "other"))
    show(f"{n} groupby None", lambda: g(None, "test"))
    show(f"{n} groupby None other", lambda: g(None, "other"))
    show(f"{n} groupby []", lambda: g([], "test"))
    show(f"{n} groupby [] other", lambda: g([], "other"))
    show(f"{n} groupby list", lambda: g(["a", "b c", "a"], "test"))
    show(f"{n} groupby other", lambda: g(["a"], "other"))
    show(f"{n} groupby tuple", lambda: g(("q", "r"), "test"))
    show(f"{n} groupby str", lambda: g("xy", "test"))
    show(f"{n} groupby non-str", lambda: g([1], "test"))
    show(f"{n} refs", lambda: b.convert_referenced_rules([ref(name="n1", id="i1"), ref(id="i2"), ref()], "test"))
    show(f"{n} refs other", lambda: b.convert_referenced_rules([ref(name="n1")], "other"))


print("=== 4. order of template lookups: outer template is looked up before the inner ones ===")


class Loud(dict):
    def __init__(self, label, *args):
        super().__init__(*args)
        self.label = label

    def __getitem__(self, key):
        print(f"   lookup {self.label}[{key!r}]")
        return super().__getitem__(key)


class LoudBackend(DelimBackend):
    correlation_fields_expression = Loud("fields", {"test": "F[{fields}]"})
    correlation_fields_field_expression = Loud("fields_field", {"test": "<{field}>"})
    correlation_fields_field_expression_joiner = Loud("fields_joiner", {"test": ";"})
    groupby_expression = Loud("groupby", {"test": "G[{fields}]"})
    groupby_field_expression = Loud("groupby_field", {"test": "({field})"})
    groupby_field_expression_joiner = Loud("groupby_joiner", {"test": "+"})
    groupby_expression_nofield = Loud("groupby_nofield", {"test": "G[-]"})

    def escape_and_quote_field(self, field_name):
        print(f"   escape {field_name!r}")
        return super().escape_and_quote_field(field_name)


lb = LoudBackend()
show("loud fields", lambda: lb.convert_correlation_aggregation_fields_from_template(["a", "b b"], [ref("c")], ["a"], "test"))
show("loud fields other", lambda: lb.convert_correlation_aggregation_fields_from_template(["a"], [], None, "other"))
show("loud groupby", lambda: lb.convert_correlation_aggregation_groupby_from_template(["g 1", "g2"], "test"))
show("loud groupby empty", lambda: lb.convert_correlation_aggregation_groupby_from_template([], "test"))
show("loud groupby None", lambda: lb.convert_correlation_aggregation_groupby_from_template(None, "test"))
show("loud groupby other", lambda: lb.convert_correlation_aggregation_groupby_from_template(["g"], "other"))
show(
    "loud convert",
    lambda: lb.convert(
        SigmaCollection.from_yaml(
            RULES + correlation("value_count", ["rule_a", B_ID], "5m", ["User", "x y"], {"field": "Host", "gte": 2}, ["Extra"])
        )
    ),
)
print("done")
