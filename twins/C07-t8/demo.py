"""Demo for C07 / t8: filter section parsing (SigmaGlobalFilter.from_dict) reached through
SigmaFilter.from_dict and SigmaCollection.from_dicts/from_yaml, strict vs. collecting mode."""
import copy
import sys

import yaml

from sigma.collection import SigmaCollection
from sigma.exceptions import SigmaError
from sigma.filters import SigmaFilter, SigmaGlobalFilter

BASE = {
    "title": "Filter Administrator account",
    "description": "filters out admin accounts",
    "logsource": {"category": "process_creation", "product": "windows"},
    "filter": {
        "rules": ["6f3e2987-db24-4c78-a860-b4f4095a7095", "some-rule-name"],
        "selection": {"User|startswith": "adm_"},
        "condition": "not selection",
    },
}

MISSING = object()
FILTER_VALUES = [
    MISSING, None, "a string", 42, 1.5, True, [], ["x"], [{"condition": "a"}], {},
    {"condition": "sel"}, {"rules": "any"}, {"selection": {"a": 1}},
]
CONDITION_VALUES = [MISSING, None, "", "not selection", "1 of them", ["not selection"], [], 3, 0, False, {"a": 1}]
RULES_VALUES = [
    MISSING, None, "any", "ANY", "Any", "aNy ", "", "rule-1", [], ["a"], ["a", "b", "a"], ["a", 1],
    [None], [["a"]], [1, "a"], 7, 0, True, {}, {"any": 1}, ("a",) and ["any"],
]
SELECTION_VALUES = [
    MISSING, None, "keyword", 5, [], ["k1", "k2"], {}, {"f": None}, {"f|nosuchmod": 1}, {"f|re": "("},
    [{"a": 1}, {"b": [1, 2]}], {"f": {"nested": 1}}, [[1]], {1: 2}, {"f|all": "x"},
]
EXTRA_KEYS = [{1: {"a": "b"}}, {None: ["kw"]}, {"condition ": "x"}, {"Rules": "any"}, {"sel2": {"x|contains|all": ["a", "b"]}}]


def variants():
    for v in FILTER_VALUES:
        d = copy.deepcopy(BASE)
        if v is MISSING:
            del d["filter"]
        else:
            d["filter"] = copy.deepcopy(v)
        yield f"filter={v!r}" if v is not MISSING else "filter missing", d
    for key, values in (("condition", CONDITION_VALUES), ("rules", RULES_VALUES), ("selection", SELECTION_VALUES)):
        for v in values:
            d = copy.deepcopy(BASE)
            if v is MISSING:
                del d["filter"][key]
            else:
                d["filter"][key] = copy.deepcopy(v)
            yield (f"{key}={v!r}" if v is not MISSING else f"{key} missing"), d
    for extra in EXTRA_KEYS:
        d = copy.deepcopy(BASE)
        d["filter"].update(copy.deepcopy(extra))
        yield f"extra {extra!r}", d
    # several defects at once: order of the collected errors matters
    d = copy.deepcopy(BASE)
    d["filter"] = {"rules": 3}
    d["logsource"] = "nope"
    d["title"] = 5
    yield "many defects (condition missing + rules int)", d
    d = copy.deepcopy(BASE)
    d["filter"] = {"condition": 3, "rules": [1], "selection": None}
    yield "condition int + rules [1] + selection None", d
    d = copy.deepcopy(BASE)
    del d["filter"]["condition"]
    del d["filter"]["rules"]
    yield "condition and rules missing", d


def describe(e):
    ctx = type(e.__context__).__name__ if e.__context__ is not None else None
    return f"{type(e).__name__}: {e} | args={e.args!r} | context={ctx}"


def show_filter(f):
    gf = f.filter
    return f"{type(gf).__name__} rules={gf.rules!r} condition={gf.condition!r} detections={sorted(map(repr, gf.detections))}"


ok = True


def run(label, load):
    """load(collect) -> object with .errors; compares strict and collecting mode."""
    global ok
    raised = None
    strict_obj = None
    try:
        strict_obj = load(False)
    except SigmaError as e:
        raised = e
    except Exception as e:  # property violation (also on HEAD) - report, but keep outputs comparable
        print(f"  {label} STRICT NON-SIGMA {type(e).__name__}: {e}")
        raised = e
    try:
        collected = load(True)
    except Exception as e:
        print(f"  {label} COLLECT RAISED {type(e).__name__}: {e}")
        return
    if raised is None:
        print(f"  {label} strict: ok, collected errors: {len(collected.errors)}")
        if collected.errors:
            ok = False
    else:
        print(f"  {label} strict: {describe(raised)}")
        print(f"  {label} collected ({len(collected.errors)}): {[describe(e) for e in collected.errors]}")
        if not collected.errors or collected.errors[0] != raised:
            print("  MISMATCH between first collected and raised error")
            ok = False
    return strict_obj, collected


for name, doc in variants():
    print(f"== {name}")
    res = run("SigmaFilter.from_dict", lambda c: SigmaFilter.from_dict(copy.deepcopy(doc), collect_errors=c))
    if res:
        strict_obj, collected = res
        if strict_obj is not None:
            print("   strict object :", show_filter(strict_obj))
            try:
                print("   to_dict filter:", strict_obj.to_dict()["filter"])
            except Exception as e:
                print("   to_dict raised:", type(e).__name__, e)
        print("   collect object:", show_filter(collected))
    run("SigmaCollection.from_dicts", lambda c: SigmaCollection.from_dicts([copy.deepcopy(doc)], collect_errors=c, collect_filters=True))
    try:
        text = yaml.safe_dump(doc)
    except Exception as e:
        print("  (not dumpable:", type(e).__name__, ")")
    else:
        run("SigmaCollection.from_yaml", lambda c: SigmaCollection.from_yaml(text, collect_errors=c, collect_filters=True))

print("== direct SigmaGlobalFilter.from_dict with non-map arguments")
for arg in [None, "str", 3, [], ["condition"], ("condition", "rules"), {"condition": "x", "rules": "Any"}, {"condition": "x", "rules": []}]:
    try:
        gf = SigmaGlobalFilter.from_dict(arg)
        print(f"  {arg!r}: rules={gf.rules!r} condition={gf.condition!r} detections={gf.detections!r}")
    except Exception as e:
        ctx = type(e.__context__).__name__ if e.__context__ is not None else None
        print(f"  {arg!r}: {type(e).__name__}: {e} (context {ctx})")

print("== yaml text with duplicated keys and odd scalars")
for text in [
    "title: t\nlogsource: {category: c}\nfilter:\n  rules: any\n  rules: [a]\n  sel: {a: b}\n  condition: sel\n  condition: not sel\n",
    "title: t\nlogsource: {category: c}\nfilter:\n  rules: ~\n  sel: {a: b}\n  condition: sel\n",
    "title: t\nlogsource: {category: c}\nfilter:\n  rules: 2024-01-01\n  sel: {a: b}\n  condition: yes\n",
    "title: t\nlogsource: {category: c}\nfilter: !!set {condition, rules}\n",
    "title: t\nlogsource: {category: c}\nfilter:\n  ? 1.5\n  : x\n  ~: [kw]\n  rules: any\n  condition: sel\n",
]:
    print("--", text.replace("\n", " / "))
    run("SigmaCollection.from_yaml", lambda c: SigmaCollection.from_yaml(text, collect_errors=c, collect_filters=True))

print("ALL CONSISTENT" if ok else "INCONSISTENCY FOUND")
sys.exit(0)
