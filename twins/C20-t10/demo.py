"""Demo for t10: SigmaDetection.from_definition / __post_init__ (sigma/rule/detection.py).

Part 1 builds detections from many kinds of definitions (also unusual ones) and prints the resulting
structure, linking and error messages. Part 2 runs a small corpus (rules + pipeline with an added
condition + filter) through the text backend in child processes with different PYTHONHASHSEED and
random seeds and prints the sha256 of queries and error strings: all children must agree and no
random identifier may reach the output.
"""

import hashlib
import os
import subprocess
import sys
from collections import OrderedDict
from types import MappingProxyType

DRIVER = r"""
import random, sys
random.seed(int(sys.argv[1]))
from sigma.collection import SigmaCollection
from sigma.backends.test import TextQueryTestBackend
from sigma.processing.pipeline import ProcessingPipeline
from sigma.filters import SigmaFilter

RULES = '''
title: Mapping and lists
id: 5e1b2c5c-0000-4000-8000-000000000001
status: test
logsource:
    category: process_creation
    product: windows
detection:
    sel:
        Image|endswith: '\\cmd.exe'
        CommandLine|contains|all:
            - 'a'
            - 'b'
        User: null
    kw:
        - foo
        - 17
    nested:
        - Image: x
          ParentImage: y
        - Hashes|re|i|m: 'ab+c'
    mixed:
        - plain
        - Field: value
    condition: sel and (kw or nested) and not mixed
---
title: Plain value detection
id: 5e1b2c5c-0000-4000-8000-000000000002
status: test
logsource:
    category: process_creation
    product: windows
detection:
    k1: onlyvalue
    k2: 42
    s_a:
        fieldA: 1
    s_b:
        fieldB|startswith:
            - p
            - q
    condition:
        - k1 or k2
        - 1 of s_*
---
title: Broken detection
id: 5e1b2c5c-0000-4000-8000-000000000003
status: test
logsource:
    category: process_creation
    product: windows
detection:
    sel: []
    condition: sel
---
title: Broken nested detection
id: 5e1b2c5c-0000-4000-8000-000000000004
status: test
logsource:
    category: process_creation
    product: windows
detection:
    sel:
        - [a, b]
        - c
    condition: sel
'''

PIPELINE = '''
name: demo
priority: 10
transformations:
    - id: map_many
      type: field_name_mapping
      mapping:
          Image:
              - proc.image
              - process.executable
          fieldA: field_a
    - id: add_cond
      type: add_condition
      conditions:
          index: $product
          src:
              - $category
              - 3
      template: true
    - id: add_neg
      type: add_condition
      negated: true
      conditions:
          noise: 1
'''

FILTER = '''
title: Demo filter
id: 5e1b2c5c-0000-4000-8000-0000000000f1
logsource:
    category: process_creation
    product: windows
filter:
    rules: any
    selection_one:
        User|startswith: 'adm_'
    selection_two:
        - svc
        - Host: h1
    condition: not 1 of selection_*
'''

collection = SigmaCollection.from_yaml(RULES, collect_errors=True)
sigma_filter = SigmaFilter.from_yaml(FILTER)
collection.rules = [sigma_filter.apply_on_rule(r) for r in collection.rules]
backend = TextQueryTestBackend(ProcessingPipeline.from_yaml(PIPELINE), collect_errors=True)
try:
    queries = backend.convert(collection)
except Exception as e:
    queries = ["EXC " + type(e).__name__ + ": " + str(e)]
for q in queries:
    print("Q", q)
for rule in collection.rules:
    for err in rule.errors:
        print("RE", type(err).__name__, str(err))
for rule, err in backend.errors:
    print("BE", type(err).__name__, str(err))
"""


def part1() -> None:
    from sigma.conditions import ConditionAND, ConditionOR
    from sigma.exceptions import SigmaError
    from sigma.rule import SigmaDetection, SigmaDetectionItem

    class MyStr(str):
        pass

    class MyList(list):
        pass

    definitions = [
        ("mapping", {"a": 1, "b|contains": ["x", "y"], "c": None}),
        ("ordered mapping", OrderedDict([("z", 1), ("a", 2)])),
        ("mapping proxy", MappingProxyType({"k": "v"})),
        ("empty mapping", {}),
        ("str", "value"),
        ("str subclass", MyStr("sub")),
        ("int", 5),
        ("float", 1.5),
        ("bool", False),
        ("none", None),
        ("list of values", ["a", 1, 2.5, True, None]),
        ("empty list", []),
        ("list subclass", MyList(["a", "b"])),
        ("list of mappings", [{"a": 1}, {"b": 2, "c": 3}]),
        ("list mixed", ["a", {"b": 2}]),
        ("list with str subclass", [MyStr("s"), "t"]),
        ("list with list", [["a", "b"], "c"]),
        ("list with empty list", [[], "c"]),
        ("list with empty mapping", [{}, "c"]),
        ("list with tuple", [("a", "b")]),
        ("tuple", ("a", "b")),
        ("set", {"a"}),
        ("bytes", b"raw"),
        ("object", object),
        ("bad modifier", {"a|nosuchmodifier": 1}),
        ("deep", [[{"a": 1}, {"b": [1, 2]}], {"c": "d"}]),
    ]

    def describe(det: object, indent: int = 0) -> None:
        pad = "  " * indent
        if isinstance(det, SigmaDetection):
            print(f"{pad}Detection linking={det.item_linking.__name__} n={len(det.detection_items)}")
            for item in det.detection_items:
                describe(item, indent + 1)
        else:
            print(f"{pad}Item {det!r}")

    for label, definition in definitions:
        print(f"== {label}")
        try:
            detection = SigmaDetection.from_definition(definition)
        except SigmaError as e:
            print(f"  {type(e).__name__}: {e}")
            continue
        except Exception as e:  # anything else is reported as well
            print(f"  other {type(e).__name__}: {e}")
            continue
        describe(detection, 1)
        try:
            print("  plain:", detection.to_plain())
        except Exception as e:
            print(f"  plain: {type(e).__name__}: {e}")

    print("== explicit constructor")
    item = SigmaDetectionItem.from_mapping("f", 1)
    inner = SigmaDetection([item])
    for label, items, linking in [
        ("items only", [item, item], None),
        ("detections only", [inner, inner], None),
        ("mixed, item last", [inner, item], None),
        ("mixed, item first", [item, inner], None),
        ("foreign objects", ["x", 3], None),
        ("explicit or", [item], ConditionOR),
        ("explicit and", [inner], ConditionAND),
        ("empty", [], None),
    ]:
        try:
            det = SigmaDetection(items, item_linking=linking)
            print(f"  {label}: {det.item_linking.__name__}")
        except SigmaError as e:
            print(f"  {label}: {type(e).__name__}: {e}")

    class SubItem(SigmaDetectionItem):
        pass

    sub = SubItem.from_mapping("f", 1)
    print("  subclass item only:", SigmaDetection([sub]).item_linking.__name__)
    print("  subclass of detection:", type(type("D", (SigmaDetection,), {}).from_definition("v")).__name__)


def part2() -> None:
    env_base = dict(os.environ)
    digests = []
    first_output = None
    for hashseed, randseed in [("0", 1), ("1", 1), ("4242", 99), ("random", 7), ("31337", 12345)]:
        env = dict(env_base, PYTHONHASHSEED=hashseed)
        proc = subprocess.run(
            [sys.executable, "-c", DRIVER, str(randseed)],
            env=env,
            capture_output=True,
            text=True,
        )
        if proc.returncode != 0:
            print("child failed:", proc.stderr)
            sys.exit(1)
        digest = hashlib.sha256(proc.stdout.encode()).hexdigest()
        digests.append(digest)
        print(f"hashseed={hashseed} randseed={randseed} sha256={digest}")
        if first_output is None:
            first_output = proc.stdout
    print(first_output, end="")
    assert len(set(digests)) == 1, "children disagree"
    assert "_cond_" not in first_output and "_filt_" not in first_output, "random identifier leaked"
    print("all children agree; no random identifiers in output")


if __name__ == "__main__":
    part1()
    part2()
