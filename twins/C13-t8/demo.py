"""Demo for C13/t8: RuleAttributeCondition gates a marker transformation exactly where it holds.

Part 1 calls RuleAttributeCondition.match directly on a matrix of (attribute, op, value) x rules.
Part 2 runs ProcessingPipeline.apply with a marker transformation (field name suffix) gated by
rule_attribute conditions (list form with and/or linking, negation, map form with expression) and
prints which detection items carry the marker.
"""
import copy
import sigma.processing.conditions.rule as rule_mod
from sigma.collection import SigmaCollection
from sigma.exceptions import SigmaConfigurationError
from sigma.processing.conditions import RuleAttributeCondition
from sigma.processing.pipeline import ProcessingPipeline
from sigma.rule import SigmaRule

print("module:", rule_mod.__name__)

RULE_A = """
title: Rule A
id: 0e95725d-7320-415d-80f7-004da920fc11
status: test
level: high
date: 2023-05-17
author: somebody
description: "42"
references:
    - https://example.org/a
    - https://example.org/b
tags:
    - attack.t1059
custom_int: 5
custom_float: 2.5
custom_bool: true
custom_str: hello
custom_list: [1, two, 3.0]
custom_map: {a: 1}
custom_null: null
logsource:
    category: process_creation
    product: windows
detection:
    sel:
        Image|endswith: '\\cmd.exe'
        CommandLine|contains: whoami
    condition: sel
"""

RULE_B = """
title: Rule B
status: deprecated
level: low
custom_int: 7
custom_str: "5"
logsource:
    product: linux
detection:
    sel:
        user: root
    condition: sel
"""

RULE_C = """
title: Rule C
logsource:
    category: test
detection:
    sel:
        fieldA: 1
    condition: sel
"""

CORRELATION = """
title: Base
name: base_rule
status: stable
level: medium
logsource:
    category: test
detection:
    sel:
        fieldA: x
    condition: sel
---
title: Correlation
status: experimental
level: critical
custom_int: 1
correlation:
    type: event_count
    rules:
        - base_rule
    group-by:
        - fieldA
    timespan: 5m
    condition:
        gte: 10
"""

rules = {
    "A": SigmaRule.from_yaml(RULE_A),
    "B": SigmaRule.from_yaml(RULE_B),
    "C": SigmaRule.from_yaml(RULE_C),
}
coll = SigmaCollection.from_yaml(CORRELATION)
rules["Corr"] = coll.rules[1]
rules["Base"] = coll.rules[0]

OPS = ["eq", "ne", "gte", "gt", "lte", "lt", "in", "not_in"]
CASES = [
    ("title", "Rule A"),
    ("title", 5),
    ("id", "0e95725d-7320-415d-80f7-004da920fc11"),
    ("id", "nope"),
    ("author", "somebody"),
    ("description", "42"),
    ("description", 42),
    ("status", "test"),
    ("status", "STABLE"),
    ("status", "bogus"),
    ("status", 3),
    ("level", "medium"),
    ("level", "High"),
    ("level", "bogus"),
    ("level", 2.5),
    ("date", "2023-05-17"),
    ("date", "2024-01-01"),
    ("date", "17.05.2023"),
    ("date", 20230517),
    ("references", "https://example.org/a"),
    ("references", "https://example.org/c"),
    ("tags", "attack.t1059"),
    ("custom_int", 5),
    ("custom_int", "5"),
    ("custom_int", "6.5"),
    ("custom_int", "five"),
    ("custom_float", 2.5),
    ("custom_float", "2"),
    ("custom_bool", 1),
    ("custom_bool", "true"),
    ("custom_str", "hello"),
    ("custom_str", "5"),
    ("custom_str", 5),
    ("custom_list", "two"),
    ("custom_list", 3),
    ("custom_list", "four"),
    ("custom_map", "a"),
    ("custom_null", "x"),
    ("logsource", "windows"),
    ("detection", "x"),
    ("custom_attributes", "x"),
    ("to_dict", "x"),
    ("does_not_exist", "x"),
    ("", "x"),
]


def show_exc(e):
    ctx = type(e.__context__).__name__ if e.__context__ is not None else None
    return f"!{type(e).__name__}: {e} [context={ctx}]"


print("=== Part 1: direct match ===")
for attribute, value in CASES:
    for op in OPS:
        cond = RuleAttributeCondition(attribute, value, op)
        results = []
        for name, rule in rules.items():
            try:
                r = cond.match(rule)
                results.append(f"{name}={r!r}")
            except Exception as e:
                results.append(f"{name}={show_exc(e)}")
        print(f"{attribute!r} {op} {value!r}: " + " | ".join(results))

print("=== Part 1b: invalid op at construction and after mutation ===")
for op in ["like", "", "IN", None]:
    try:
        RuleAttributeCondition("title", "x", op)
        print(op, "accepted")
    except Exception as e:
        print(repr(op), show_exc(e))
for attribute in ["title", "references", "custom_int", "level", "does_not_exist"]:
    cond = RuleAttributeCondition(attribute, "x")
    cond.op = "like"
    try:
        print(attribute, "mutated op ->", cond.match(rules["A"]))
    except Exception as e:
        print(attribute, "mutated op ->", show_exc(e))
print("repr:", repr(RuleAttributeCondition("level", "high", "gte")))
print("eq:", RuleAttributeCondition("level", "high", "gte") == RuleAttributeCondition("level", "high", "gte"))

print("=== Part 2: pipeline gate ===")


def cond(attribute, value, op="eq"):
    return {"type": "rule_attribute", "attribute": attribute, "value": value, "op": op}


ITEMS = {
    "no conditions": {},
    "level>=medium": {"rule_conditions": [cond("level", "medium", "gte")]},
    "level>=medium negated": {
        "rule_conditions": [cond("level", "medium", "gte")],
        "rule_cond_not": True,
    },
    "status<stable and int>=5": {
        "rule_conditions": [cond("status", "stable", "lt"), cond("custom_int", 5, "gte")],
    },
    "status<stable or int>=5": {
        "rule_conditions": [cond("status", "stable", "lt"), cond("custom_int", 5, "gte")],
        "rule_cond_op": "or",
    },
    "missing attr ne": {"rule_conditions": [cond("does_not_exist", "x", "ne")]},
    "missing attr ne negated": {
        "rule_conditions": [cond("does_not_exist", "x", "ne")],
        "rule_cond_not": True,
    },
    "list in / ne": {
        "rule_conditions": [
            cond("references", "https://example.org/b", "in"),
            cond("custom_list", "x", "ne"),
        ],
    },
    "list not_in or gt": {
        "rule_conditions": [cond("custom_list", "two", "not_in"), cond("custom_list", 0, "gt")],
        "rule_cond_op": "or",
    },
    "expression": {
        "rule_conditions": {
            "lvl": cond("level", "high"),
            "st": cond("status", "deprecated"),
            "dt": cond("date", "2023-01-01", "gt"),
            "s": cond("custom_str", "5"),
        },
        "rule_cond_expr": "(lvl and dt) or (st and not lvl and s)",
    },
    "expression 2": {
        "rule_conditions": {
            "a": cond("title", "Rule C", "ne"),
            "b": cond("custom_float", "2.5", "lte"),
            "c": cond("custom_bool", 1),
        },
        "rule_cond_expr": "not a or (b and c)",
    },
    "error: bad level": {"rule_conditions": [cond("level", "bogus", "gte")]},
    "error: string gte": {"rule_conditions": [cond("title", "x", "gte")]},
    "error: map": {"rule_conditions": [cond("custom_map", "x")]},
}


def marked(rule):
    if not hasattr(rule, "detection"):
        return "n/a"
    out = []
    for name, detection in rule.detection.detections.items():
        for item in detection.detection_items:
            out.append(f"{item.field}{'*' if 'marker' in item.applied_processing_items else ''}")
    return ",".join(out)


for label, extra in ITEMS.items():
    print(f"--- {label}")
    for name in rules:
        item = {"id": "marker", "type": "field_name_suffix", "suffix": "_m"}
        item.update(copy.deepcopy(extra))
        pipeline = ProcessingPipeline.from_dict({"name": "demo", "priority": 1, "transformations": [item]})
        rule = copy.deepcopy(rules[name])
        try:
            pipeline.apply(rule)
            print(
                f"{name}: applied_ids={sorted(pipeline.applied_ids)} "
                f"rule_tracked={sorted(rule.applied_processing_items)} items={marked(rule)}"
            )
        except SigmaConfigurationError as e:
            print(f"{name}: {show_exc(e)} items={marked(rule)}")
