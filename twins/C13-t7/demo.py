"""
Demo for property C13: a pipeline item acts exactly where its conditions hold.

Pipelines are built from their dict / YAML definition (ProcessingItem.from_dict,
QueryPostprocessingItem.from_dict) with every combination of list-/map-form conditions, and/or
linking, negation flags and condition expressions in the three condition groups. A marker
transformation (field name suffix / set_state / custom attribute) shows where the item acted.
Configuration errors (also several at once, to pin down the order of checks) are printed too.
"""

import copy
import itertools

from sigma.processing.pipeline import ProcessingItem, ProcessingPipeline, QueryPostprocessingItem
from sigma.rule import SigmaRule

RULES = {
    "win_proc": """
title: Windows process creation
id: 5013332f-8a70-4a04-bcf1-06a98a2cb8e3
status: test
level: high
tags:
    - attack.execution
logsource:
    category: process_creation
    product: windows
fields:
    - Image
    - User
    - Other
detection:
    sel:
        Image|endswith: '\\cmd.exe'
        CommandLine|contains:
            - 'whoami'
            - 'net* user'
        User: null
    ref:
        Parent|fieldref: Image
    filter:
        IntegrityLevel: 42
    keywords:
        - plain keyword
    condition: sel and ref and keywords and not filter
""",
    "lin_net": """
title: Linux network
status: stable
level: low
logsource:
    category: network_connection
    product: linux
detection:
    sel:
        Image: '/usr/bin/nc'
        DestinationPort:
            - 4444
            - 8080
    condition: sel
""",
}


def rule(name):
    return SigmaRule.from_yaml(RULES[name])


def observe(pipeline, r):
    """Everything the property observes after apply()."""
    out = []
    for name, detection in r.detection.detections.items():
        for di in detection.detection_items:
            out.append(
                (
                    name,
                    di.field,
                    [str(v) for v in di.value],
                    sorted(di.applied_processing_items),
                )
            )
    return {
        "items": out,
        "fields": list(r.fields),
        "logsource": (r.logsource.category, r.logsource.product, r.logsource.service),
        "custom": dict(r.custom_attributes),
        "rule_applied": sorted(r.applied_processing_items),
        "applied": list(pipeline.applied),
        "applied_ids": sorted(pipeline.applied_ids),
        "field_name_applied_ids": {
            k: sorted(v) for k, v in sorted(pipeline.field_name_applied_ids.items()) if v
        },
        "state": dict(pipeline.state),
    }


def show(title, definition, rule_names=("win_proc", "lin_net"), yaml_text=None):
    print("=" * 100)
    print(title)
    try:
        if yaml_text is not None:
            pipeline = ProcessingPipeline.from_yaml(yaml_text)
        else:
            pipeline = ProcessingPipeline.from_dict(copy.deepcopy(definition))
    except Exception as e:
        print("  construction error:", type(e).__name__, e.args)
        cause = e.__cause__
        while cause is not None:
            print("    caused by:", type(cause).__name__, cause.args)
            cause = cause.__cause__
        return
    for item in pipeline.items + pipeline.postprocessing_items:
        print(
            "  item",
            item.identifier,
            "| rule:",
            type(item.rule_conditions).__name__,
            getattr(item.rule_condition_linking, "__name__", None),
            item.rule_condition_negation,
            item.rule_condition_expression is not None,
            end="",
        )
        if isinstance(item, ProcessingItem):
            print(
                " | det:",
                type(item.detection_item_conditions).__name__,
                getattr(item.detection_item_condition_linking, "__name__", None),
                item.detection_item_condition_negation,
                item.detection_item_condition_expression is not None,
                "| field:",
                type(item.field_name_conditions).__name__,
                getattr(item.field_name_condition_linking, "__name__", None),
                item.field_name_condition_negation,
                item.field_name_condition_expression is not None,
            )
        else:
            print()
    for rule_name in rule_names:
        r = rule(rule_name)
        try:
            pipeline.apply(r)
            query = pipeline.postprocess_query(r, "QUERY")
        except Exception as e:
            print("  ", rule_name, "apply error:", type(e).__name__, e.args)
            continue
        print("  ", rule_name, "query:", query)
        for k, v in observe(pipeline, r).items():
            print("     ", k, "=", v)


# --------------------------------------------------------------------------------------------
# 1. systematic combinations: form x linking x negation for each of the three groups
# --------------------------------------------------------------------------------------------
RULE_CONDS = [
    {"type": "logsource", "product": "windows"},
    {"type": "rule_attribute", "attribute": "level", "value": "medium", "op": "gte"},
]
DET_CONDS = [
    {"type": "match_string", "cond": "any", "pattern": ".*whoami.*|.*cmd.*"},
    {"type": "contains_wildcard", "cond": "any"},
]
FIELD_CONDS = [
    {"type": "include_fields", "fields": ["Image", "CommandLine", "Other"]},
    {"type": "exclude_fields", "fields": ["^Comm.*", "^Oth.*"], "mode": "re"},
]


def as_map(conds, names):
    return dict(zip(names, copy.deepcopy(conds)))


def group(prefix, conds, form, op, neg, names=("a", "b")):
    d = {}
    if form == "list":
        d[prefix + "_conditions"] = copy.deepcopy(conds)
    elif form == "map":
        d[prefix + "_conditions"] = as_map(conds, names)
    if op in ("and", "or"):
        d[prefix + "_cond_op"] = op
    elif op is not None:  # expression
        d[prefix + "_cond_expr"] = op
    if neg:
        d[prefix + "_cond_not"] = True
    return d


n = 0
for form, op, neg in itertools.product(
    ("list", "map", "none"), (None, "and", "or", "a and not b", "not (a or b)"), (False, True)
):
    n += 1
    for prefix, conds in (
        ("rule", RULE_CONDS),
        ("detection_item", DET_CONDS),
        ("field_name", FIELD_CONDS),
    ):
        item = {"id": "marker", "type": "field_name_suffix", "suffix": "_X"}
        item.update(group(prefix, conds, form, op, neg))
        show(
            f"combo {n} {prefix}: form={form} op={op!r} neg={neg}",
            {"transformations": [item]},
        )

# --------------------------------------------------------------------------------------------
# 2. all three groups at once, with state / applied conditions observing earlier items
# --------------------------------------------------------------------------------------------
show(
    "all groups, earlier items set state, change logsource, rename fields",
    {
        "name": "mixed",
        "priority": 10,
        "transformations": [
            {
                "id": "st",
                "type": "set_state",
                "key": "idx",
                "val": "win",
                "rule_conditions": [{"type": "logsource", "product": "windows"}],
            },
            {
                "id": "ls",
                "type": "change_logsource",
                "category": "changed",
                "rule_conditions": {
                    "s": {"type": "processing_state", "key": "idx", "val": "win"},
                    "t": {"type": "tag", "tag": "attack.execution"},
                },
                "rule_cond_expr": "s and t",
            },
            {
                "id": "ren",
                "type": "field_name_mapping",
                "mapping": {"Image": "process.executable", "User": ["user.name", "user.id"]},
                "rule_conditions": [{"type": "logsource", "category": "changed"}],
                "detection_item_conditions": [{"type": "is_null", "cond": "all"}],
                "detection_item_cond_not": True,
                "field_name_conditions": {
                    "i": {"type": "include_fields", "fields": ["Image", "User", "Parent"]},
                },
                "field_name_cond_op": "or",
            },
            {
                "id": "mark",
                "type": "field_name_suffix",
                "suffix": "_M",
                "rule_conditions": [
                    {"type": "processing_item_applied", "processing_item_id": "ren"},
                    {"type": "is_sigma_correlation_rule"},
                ],
                "rule_cond_op": "or",
                "detection_item_conditions": {
                    "p": {"type": "processing_item_applied", "processing_item_id": "ren"},
                    "w": {"type": "contains_wildcard", "cond": "any"},
                    "st": {"type": "processing_state", "key": "idx", "val": "win", "op": "ne"},
                },
                "detection_item_cond_expr": "(p or w) and not st",
                "field_name_conditions": [
                    {"type": "processing_item_applied", "processing_item_id": "ren"},
                    {"type": "include_fields", "fields": ["CommandLine"]},
                ],
                "field_name_cond_op": "or",
                "field_name_cond_not": False,
            },
            {
                "type": "set_custom_attribute",
                "attribute": "seen",
                "value": "yes",
                "rule_conditions": [{"type": "processing_item_applied", "processing_item_id": "mark"}],
                "rule_cond_not": True,
            },
        ],
        "postprocessing": [
            {
                "id": "post",
                "type": "embed",
                "prefix": "[",
                "suffix": "]",
                "rule_conditions": {"w": {"type": "logsource", "category": "changed"}},
                "rule_cond_expr": "not w",
            },
            {
                "type": "embed",
                "prefix": "<",
                "suffix": ">",
                "rule_conditions": [
                    {"type": "logsource", "category": "changed"},
                    {"type": "rule_attribute", "attribute": "status", "value": "stable"},
                ],
                "rule_cond_op": "or",
            },
        ],
    },
)

show(
    "same from YAML",
    None,
    yaml_text="""
name: yaml pipeline
transformations:
  - id: a
    type: field_name_prefix
    prefix: "p."
    rule_conditions:
      - type: logsource
        product: linux
    rule_cond_not: true
    detection_item_conditions:
      x:
        type: match_value
        cond: any
        value: 42
      y:
        type: is_null
        cond: any
    detection_item_cond_expr: x or y
    field_name_conditions:
      - type: exclude_fields
        fields: [User]
  - type: field_name_suffix
    suffix: ".s"
    field_name_conditions:
      - type: processing_item_applied
        processing_item_id: a
    field_name_cond_op: and
    field_name_cond_not: true
""",
)

# --------------------------------------------------------------------------------------------
# 3. unusual and erroneous definitions
# --------------------------------------------------------------------------------------------
BASE = {"id": "m", "type": "field_name_suffix", "suffix": "_X"}


def item(**kw):
    d = dict(BASE)
    d.update(kw)
    return {"transformations": [d]}


ERRORS = {
    "unknown linking word is ignored": item(
        field_name_conditions=[FIELD_CONDS[0]], field_name_cond_op="xor"
    ),
    "linking None": item(rule_conditions=[RULE_CONDS[0]], rule_cond_op=None),
    "unhashable rule linking": item(rule_conditions=[RULE_CONDS[0]], rule_cond_op=["and"]),
    "unhashable detection item linking": item(detection_item_cond_op=["and"]),
    "unhashable field name linking": item(field_name_cond_op={"a": 1}),
    "negation not a bool": item(field_name_conditions=[FIELD_CONDS[0]], field_name_cond_not="yes"),
    "negation zero": item(field_name_conditions=[FIELD_CONDS[0]], field_name_cond_not=0),
    "empty conditions list and map": item(
        rule_conditions={}, detection_item_conditions=[], field_name_conditions={}
    ),
    "negated empty conditions": item(
        rule_cond_not=True, detection_item_cond_not=True, field_name_cond_not=True
    ),
    "conditions None": item(rule_conditions=None),
    "conditions string": item(detection_item_conditions="match_string"),
    "conditions int": item(field_name_conditions=5),
    "missing condition type (list)": item(rule_conditions=[{"product": "windows"}]),
    "missing condition type (map)": item(field_name_conditions={"k": {"fields": ["a"]}}),
    "unknown condition type": item(detection_item_conditions=[DET_CONDS[0], {"type": "nope"}]),
    "rule condition in wrong group": item(detection_item_conditions=[RULE_CONDS[0]]),
    "bad condition parameter": item(rule_conditions={"q": {"type": "logsource", "foo": "bar"}}),
    "bad condition value": item(field_name_conditions=[{"type": "include_fields", "fields": ["("], "mode": "re"}]),
    "bad mode": item(field_name_conditions=[{"type": "include_fields", "fields": ["a"], "mode": "glob"}]),
    "expression with list": item(rule_conditions=[RULE_CONDS[0]], rule_cond_expr="a"),
    "expression without conditions": item(detection_item_cond_expr="a"),
    "expression and linking": item(
        field_name_conditions=as_map(FIELD_CONDS, "ab"),
        field_name_cond_expr="a or b",
        field_name_cond_op="or",
    ),
    "expression with unknown id": item(
        rule_conditions=as_map(RULE_CONDS, "ab"), rule_cond_expr="a and c"
    ),
    "expression leaves one unreferenced": item(
        detection_item_conditions=as_map(DET_CONDS, "ab"), detection_item_cond_expr="a"
    ),
    "expression syntax error": item(
        field_name_conditions=as_map(FIELD_CONDS, "ab"), field_name_cond_expr="a and and b"
    ),
    "expression not a string": item(
        rule_conditions=as_map(RULE_CONDS, "ab"), rule_cond_expr=["a"]
    ),
    "expression empty string": item(
        rule_conditions=as_map(RULE_CONDS, "ab"), rule_cond_expr=""
    ),
    "missing transformation type": {"transformations": [{"rule_conditions": [RULE_CONDS[0]]}]},
    "unknown transformation type": {"transformations": [{"type": "nope"}]},
    "bad transformation parameter": item(foo=1),
    # several problems at once: which one is reported first?
    "order: bad rule conds + bad transformation": {
        "transformations": [{"type": "nope", "rule_conditions": [{"type": "nope"}]}]
    },
    "order: bad rule expr + bad rule linking": item(
        rule_conditions=as_map(RULE_CONDS, "ab"), rule_cond_expr="a and", rule_cond_op=["x"]
    ),
    "order: bad rule linking + bad transformation": {
        "transformations": [{"type": "nope", "rule_cond_op": ["x"]}]
    },
    "order: bad transformation + bad detection item conds": {
        "transformations": [{"type": "nope", "detection_item_conditions": 3}]
    },
    "order: bad detection item linking + bad field name conds": item(
        detection_item_cond_op=["x"], field_name_conditions=[{"type": "nope"}]
    ),
    "order: bad detection item linking + bad field name expr": item(
        detection_item_cond_op=["x"],
        field_name_conditions=as_map(FIELD_CONDS, "ab"),
        field_name_cond_expr="a b",
    ),
    "order: bad detection item expr + bad field name conds": item(
        detection_item_conditions=as_map(DET_CONDS, "ab"),
        detection_item_cond_expr="(",
        field_name_conditions=[{"type": "nope"}],
    ),
    "order: bad detection item linking + bad field name linking": item(
        detection_item_cond_op=["x"], field_name_cond_op={"y": 1}
    ),
    "order: bad field name conds + bad rule conds in second item": {
        "transformations": [
            dict(BASE, field_name_conditions=[{"type": "nope"}]),
            dict(BASE, rule_conditions=[{"type": "nope"}]),
        ]
    },
    "postprocessing: bad conds": {
        "postprocessing": [
            {"type": "embed", "prefix": "a", "rule_conditions": {"x": {"type": "nope"}}}
        ]
    },
    "postprocessing: detection item conditions are a transformation parameter": {
        "postprocessing": [
            {"type": "embed", "prefix": "a", "detection_item_conditions": [DET_CONDS[0]]}
        ]
    },
    "postprocessing: expression and unhashable linking": {
        "postprocessing": [
            {
                "type": "embed",
                "prefix": "a",
                "rule_conditions": as_map(RULE_CONDS, "ab"),
                "rule_cond_expr": "a or b",
                "rule_cond_op": ["or"],
            }
        ]
    },
}
for title, definition in ERRORS.items():
    show("unusual: " + title, definition, rule_names=("win_proc",))

# --------------------------------------------------------------------------------------------
# 4. from_dict of the item classes directly; the definition dict must stay untouched
# --------------------------------------------------------------------------------------------
print("=" * 100)
d = {
    "id": "direct",
    "type": "field_name_suffix",
    "suffix": "_D",
    "rule_conditions": {"x": {"type": "is_sigma_rule"}},
    "rule_cond_expr": "not not x",
    "detection_item_conditions": [{"type": "match_string", "cond": "all", "pattern": ".*exe"}],
    "detection_item_cond_op": "and",
    "field_name_conditions": {"f": {"type": "include_fields", "fields": ["Image"]}},
    "field_name_cond_not": True,
}
before = copy.deepcopy(d)
pi = ProcessingItem.from_dict(d)
print("definition untouched:", d == before)
print(pi)
r = rule("win_proc")
print("apply:", pi.apply(r))
print([(di.field, sorted(di.applied_processing_items)) for det in r.detection.detections.values() for di in det.detection_items])
print(r.fields)

qd = {
    "type": "embed",
    "prefix": "(",
    "suffix": ")",
    "rule_conditions": [{"type": "logsource", "product": "linux"}, {"type": "is_sigma_rule"}],
    "rule_cond_op": "or",
    "rule_cond_not": True,
}
before = copy.deepcopy(qd)
qi = QueryPostprocessingItem.from_dict(qd)
print("definition untouched:", qd == before)
print(qi)
print(qi.apply(rule("win_proc"), "q"), qi.apply(rule("lin_net"), "q"))
print("same generated identifier:", qi.identifier == QueryPostprocessingItem.from_dict(qd).identifier)
