"""Demo for property C08: a failing rule never changes other rules' output.

Converts collections with failing rules in every position, in collecting and raising mode, for
several output formats, and compares each rule's queries with a conversion of the rule alone.
Also exercises the initialisation of the processing pipeline through convert_rule() directly
(fresh backend, changed output format, pipeline set to None).
"""

import itertools
from typing import ClassVar

from sigma.backends.test import TextQueryTestBackend
from sigma.collection import SigmaCollection
from sigma.exceptions import SigmaError
from sigma.processing.conditions import RuleContainsDetectionItemCondition
from sigma.processing.pipeline import ProcessingItem, ProcessingPipeline
from sigma.processing.transformations import (
    FieldMappingTransformation,
    RuleFailureTransformation,
    SetStateTransformation,
    ValueListPlaceholderTransformation,
)
from sigma.rule import SigmaRule


class NoBoolBackend(TextQueryTestBackend):
    """Backend without boolean value support: such values are 'unsupported by the backend'."""

    name: ClassVar[str] = "No bool backend"
    bool_values: ClassVar[dict] = {True: None, False: None}


RULES = {
    "ok_single": """
title: ok single
name: ok_single
logsource: {category: test}
detection:
    sel: {fieldA: valueA, fieldB|contains: "va*l"}
    condition: sel
""",
    "ok_multi": """
title: ok multi
name: ok_multi
logsource: {category: test}
detection:
    sel1: {fieldA: 1}
    sel2: {fieldB: [a, b, c]}
    condition:
        - sel1
        - sel2
        - sel1 and not sel2
""",
    "ok_keywords": """
title: ok keywords
name: ok_keywords
logsource: {category: test}
detection:
    kw: [foo, "bar baz", 42]
    condition: kw
""",
    "fail_pipeline": """
title: fail pipeline
name: fail_pipeline
logsource: {category: test}
detection:
    sel: {forbidden: "nogo"}
    condition: sel
""",
    "fail_placeholder": """
title: fail placeholder
name: fail_placeholder
logsource: {category: test}
detection:
    sel: {fieldA|expand: "%undefined_placeholder%"}
    condition: sel
""",
    "ok_placeholder": """
title: ok placeholder
name: ok_placeholder
logsource: {category: test}
detection:
    sel: {fieldA|expand: "x-%known%-y"}
    condition: sel
""",
    "fail_valuetype": """
title: fail value type
name: fail_valuetype
logsource: {category: test}
detection:
    sel: {fieldA: true}
    condition: sel
""",
    "fail_missing_detection": """
title: fail missing detection
name: fail_missing_detection
logsource: {category: test}
detection:
    sel: {fieldA: valueA}
    condition: sel and nothere
""",
    "fail_second_condition": """
title: fail second condition
name: fail_second_condition
logsource: {category: test}
detection:
    sel: {fieldA: valueA}
    bad: {fieldB: false}
    condition:
        - sel
        - bad
""",
}


def make_pipeline() -> ProcessingPipeline:
    return ProcessingPipeline(
        items=[
            ProcessingItem(
                identifier="fail_forbidden",
                transformation=RuleFailureTransformation("forbidden field used"),
                rule_conditions=[RuleContainsDetectionItemCondition("forbidden", "nogo")],
            ),
            ProcessingItem(
                identifier="known_placeholder",
                transformation=ValueListPlaceholderTransformation(include=["known"]),
            ),
            ProcessingItem(
                identifier="map",
                transformation=FieldMappingTransformation({"fieldB": "mappedB"}),
            ),
            ProcessingItem(
                identifier="state",
                transformation=SetStateTransformation("index", "idx"),
            ),
        ],
        vars={"known": ["k1", "k2"]},
    )


def load(names):
    return SigmaCollection.from_yaml("---".join(RULES[name] for name in names))


def describe_error(e: BaseException) -> str:
    return f"{type(e).__name__}: {e}"


def convert_alone(backend_cls, with_pipeline, name, output_format):
    backend = backend_cls(make_pipeline() if with_pipeline else None, collect_errors=True)
    try:
        queries = backend.convert(load([name]), output_format)
    except Exception as e:  # noqa: BLE001 - e.g. unknown output format in the final step
        queries = ["raised " + describe_error(e)]
    errors = [(rule.name, describe_error(e)) for rule, e in backend.errors]
    return queries, errors


def show_collection(backend_cls, with_pipeline, names, output_format):
    label = f"{backend_cls.__name__} pipeline={with_pipeline} format={output_format} {list(names)}"
    # collecting mode
    backend = backend_cls(make_pipeline() if with_pipeline else None, collect_errors=True)
    collection = load(names)
    try:
        queries = backend.convert(collection, output_format)
    except Exception as e:  # noqa: BLE001 - e.g. unknown output format in the final step
        queries = "raised " + describe_error(e)
    errors = [(rule.name, describe_error(e)) for rule, e in backend.errors]
    print("COLLECT", label)
    print("   queries:", queries)
    print("   errors :", errors)
    print("   vars   :", sorted(backend.last_processing_pipeline.vars.items(), key=str))
    print("   format :", backend.last_processing_pipeline_format)
    expected_queries, expected_errors = [], []
    for name in names:
        q, e = convert_alone(backend_cls, with_pipeline, name, output_format)
        # the 'str' format joins the queries with newlines; an empty output is no query
        expected_queries.extend(q if isinstance(q, list) else [part for part in q.split("\n") if part])
        expected_errors.extend(e)
    if isinstance(queries, str) and queries.startswith("raised "):
        print("   conversion raised; error records equal per-rule ones:", errors == expected_errors)
    else:
        as_list = queries if isinstance(queries, list) else queries.split("\n")
        print(
            "   equals per-rule conversions:", as_list == expected_queries, errors == expected_errors
        )
    print("   stored :", [(r.name, r._output, r._conversion_result) for r in collection.rules])
    # raising mode
    backend = backend_cls(make_pipeline() if with_pipeline else None)
    try:
        print("RAISE  ", label, "->", backend.convert(load(names), output_format))
    except Exception as e:  # noqa: BLE001 - the demo prints whatever is raised
        print("RAISE  ", label, "-> raised", describe_error(e))
    print("   errors :", backend.errors)


def show_direct_convert_rule():
    print("DIRECT convert_rule")
    rule_ok = SigmaRule.from_yaml(RULES["ok_multi"])
    rule_bad = SigmaRule.from_yaml(RULES["fail_pipeline"])
    for fmt_sequence in (
        [None, "test", "test", None, "default", "state", "str"],
        ["test", None],
        ["unknown_format", None],
    ):
        backend = TextQueryTestBackend(make_pipeline(), collect_errors=True)
        print("  fresh backend has pipeline:", hasattr(backend, "last_processing_pipeline"))
        previous = None
        for fmt in fmt_sequence:
            try:
                result = backend.convert_rule(rule_ok, fmt)
            except Exception as e:  # noqa: BLE001
                result = "raised " + describe_error(e)
            current = backend.last_processing_pipeline
            print(
                f"  format={fmt!r}: {result} | initialised for "
                f"{backend.last_processing_pipeline_format!r}, new pipeline object: "
                f"{current is not previous}, vars output_format="
                f"{current.vars.get('output_format')!r} backend={current.vars.get('backend')!r}"
            )
            previous = current
            print("   bad rule:", backend.convert_rule(rule_bad, fmt))
        print("   errors:", [(r.name, describe_error(e)) for r, e in backend.errors])
    # pipeline explicitly set to None and backend options
    backend = TextQueryTestBackend(None, collect_errors=False, testparam="tp", other=[1, 2])
    backend.last_processing_pipeline = None
    print("  None pipeline:", backend.convert_rule(rule_ok))
    print("  vars:", sorted(backend.last_processing_pipeline.vars.items(), key=str))
    backend.last_processing_pipeline = None
    print("  None pipeline, format str:", backend.convert_rule(rule_ok, "str"))
    print("  format:", backend.last_processing_pipeline_format)
    del backend.last_processing_pipeline_format
    before = backend.last_processing_pipeline
    print("  format attribute removed:", backend.convert_rule(rule_ok, "str"))
    print(
        "  reinitialised:",
        backend.last_processing_pipeline is not before,
        backend.last_processing_pipeline_format,
    )
    # default_format changed in a subclass
    class TestDefault(TextQueryTestBackend):
        default_format: ClassVar[str] = "test"

    backend = TestDefault(make_pipeline())
    print("  default 'test':", backend.convert(load(["ok_single", "ok_multi"])))
    print("  format:", backend.last_processing_pipeline_format)
    before = backend.last_processing_pipeline
    print("  explicit test:", backend.convert_rule(rule_ok, "test"))
    print("  reused:", backend.last_processing_pipeline is before)
    print("  explicit default:", backend.convert_rule(rule_ok, "default"))
    print("  reused:", backend.last_processing_pipeline is before)
    try:
        backend.convert_rule(rule_bad, "default")
    except SigmaError as e:
        print("  raising mode:", describe_error(e))


def main():
    ok = ["ok_single", "ok_multi", "ok_keywords", "ok_placeholder"]
    failing = [
        "fail_pipeline",
        "fail_placeholder",
        "fail_valuetype",
        "fail_missing_detection",
        "fail_second_condition",
    ]
    # every failing rule in every position among three good ones
    for bad in failing:
        for position in range(4):
            names = ok[:3]
            names.insert(position, bad)
            show_collection(NoBoolBackend, True, names, None)
    # subsets of failing rules, several formats, with and without pipeline
    for fmt, with_pipeline in itertools.product([None, "test", "state", "str", "nope"], [True, False]):
        show_collection(
            NoBoolBackend,
            with_pipeline,
            ["fail_valuetype", "ok_multi", "fail_pipeline", "ok_placeholder", "fail_second_condition"],
            fmt,
        )
    show_collection(NoBoolBackend, True, failing, None)
    show_collection(TextQueryTestBackend, True, ok, "test")
    show_collection(TextQueryTestBackend, False, ["fail_second_condition"], None)
    show_direct_convert_rule()


if __name__ == "__main__":
    main()
