"""Demo for C02: condition text -> boolean function; identifier/selector substitution by detections."""
import itertools
import sys

import sigma.conditions as sc
from sigma.conditions import (
    ConditionAND,
    ConditionFieldEqualsValueExpression,
    ConditionIdentifier,
    ConditionNOT,
    ConditionOR,
    ConditionSelector,
    ConditionValueExpression,
    SigmaCondition,
)
from sigma.exceptions import SigmaConditionError, SigmaError
from sigma.rule import SigmaDetection, SigmaDetectionItem, SigmaDetections
from sigma.types import SigmaNull, SigmaNumber, SigmaString


def chain(node):
    return "<" + ",".join(c.__name__ for c in node.parent_chain_classes()) + ">"


def show(node, with_chain=True):
    """Canonical text of a (post- or unprocessed) tree including the parent chain of every node."""
    c = chain(node) if with_chain and node is not None else ""
    if node is None:
        return "None"
    if isinstance(node, ConditionIdentifier):
        return f"id({node.identifier})"
    if isinstance(node, ConditionSelector):
        return f"sel({node.cond_class.__name__},{node.pattern})"
    if isinstance(node, (ConditionAND, ConditionOR, ConditionNOT)):
        inner = ", ".join(show(a, with_chain) for a in node.args)
        return f"{type(node).__name__[9:]}{c}[{inner}]"
    if isinstance(node, ConditionFieldEqualsValueExpression):
        return f"{node.field}={node.value!s}{c}"
    if isinstance(node, ConditionValueExpression):
        return f"val:{node.value!s}{c}"
    return repr(node)


def evaluate(node, assignment):
    if isinstance(node, ConditionAND):
        return all(evaluate(a, assignment) for a in node.args)
    if isinstance(node, ConditionOR):
        return any(evaluate(a, assignment) for a in node.args)
    if isinstance(node, ConditionNOT):
        return not evaluate(node.args[0], assignment)
    if isinstance(node, ConditionFieldEqualsValueExpression):
        return assignment[str(node.value)]
    raise TypeError(node)


def simple_detections(names, cond):
    return SigmaDetections.from_dict({**{n: {"f": n} for n in names}, "condition": cond})


def truth_table(names, cond):
    dets = simple_detections(names, cond)
    try:
        tree = dets.parsed_condition[0].parsed
    except SigmaError as e:
        return f"{type(e).__name__}: {e}"
    bits = ""
    for values in itertools.product([False, True], repeat=len(names)):
        bits += "1" if evaluate(tree, dict(zip(names, values))) else "0"
    return f"{show(tree)}  tt={bits}"


print("grammar:", repr(sc.quantifier), "|", repr(sc.selector), "|", repr(sc.operand))
print("quantifier alternatives:", [repr(e) for e in sc.quantifier.exprs])

print("== precedence / associativity / keyword-prefixed names")
names = ["a", "b", "c"]
for cond in [
    "a", "not a", "not not a", "a and b or c", "a or b and c", "a or b or c", "a and b and c",
    "not a and b", "not (a and b)", "not a or not b and c", "(a or b) and c", "((a))",
    "a and (b or (c and not a))", "a   and\tb", "a and not not (b or c)",
    "a AND b", "a and", "and a", "a b", "(a", "a)", "", "a | count() > 3", "d", "a and d",
]:
    print(f"{cond!r:34} -> {truth_table(names, cond)}")

names = ["nota", "and_b", "or1", "all_x", "anyone", "of", "them2", "x-1"]
for cond in [
    "nota", "not nota", "nota and and_b", "or1 or nota", "all_x and anyone", "of or them2",
    "not of", "x-1 and not or1", "not nota and and_b or or1", "1 of all*", "all of any*",
    "any of o*", "1 of *a*", "all of them", "1 of them", "any of them", "1 of x-*", "1 of zz*",
    "all of nota", "2 of them", "1 of", "all of them and not 1 of o*", "1 of of",
    "1 of them2", "1 of *", "1 of n*a", "1 of a*",
]:
    dets = simple_detections(names, cond)
    try:
        print(f"{cond!r:34} -> raw {show(dets.parsed_condition[0].parse(False), False)}")
        print(f"{'':34}    pp  {show(dets.parsed_condition[0].parsed)}")
    except SigmaError as e:
        print(f"{cond!r:34} -> {type(e).__name__}: {e}")

print("== underscore rule")
names = ["sel1", "sel2", "_hidden", "_filt_abc_x", "_filt_abc_y", "s_el", "__"]
for cond in [
    "1 of them", "all of them", "1 of *", "1 of sel*", "1 of _*", "all of _h*", "1 of _filt_abc_*",
    "all of _filt_*", "1 of *_*", "1 of s*", "1 of __*", "1 of _filt*", "1 of *x", "_hidden and 1 of sel*",
    "not _filt_abc_x", "1 of *hidden", "all of _", "1 of _f*",
]:
    print(f"{cond!r:34} -> {truth_table(names, cond)}")

print("== detection shapes below identifiers and selectors")
shapes = {
    "single": {"f": "v"},
    "multi": {"f": ["v1", "v2"]},
    "allmod": {"f|contains|all": ["p", "q"]},
    "two": {"f1": "v1", "f2": 2},
    "null": {"f": None},
    "empty": {"f": []},
    "kw": "keyword",
    "kws": ["k1", "k2", 3],
    "kwall": {"|all": ["k1", "k2"]},
    "maps": [{"a": 1, "b": 2}, {"c": 3}],
    "onemap": [{"a": 1}],
    "deep": [{"a": [1, 2], "b": None}, {"c": ["x", "y"], "d": 4}],
}
for cond in [
    "single", "multi", "allmod", "two", "null", "empty", "kw", "kws", "kwall", "maps", "onemap",
    "deep", "not two", "not maps", "single and multi or two", "1 of kw*", "all of kw*",
    "all of them", "1 of *map*", "not 1 of m*", "deep and not (kws or null)", "single and single",
]:
    dets = SigmaDetections.from_dict({**shapes, "condition": cond})
    try:
        print(f"{cond!r:34} -> {show(dets.parsed_condition[0].parsed)}")
    except SigmaError as e:
        print(f"{cond!r:34} -> {type(e).__name__}: {e}")


print("== hand-built detections: negated items, emptied detections, unbound null")
def item(field, values, **kw):
    return SigmaDetectionItem(field, [], values, **kw)

neg1 = SigmaDetection([item("f", [SigmaString("v")], negated=True)])
negm = SigmaDetection([item("f", [SigmaString("v"), SigmaNumber(2)], negated=True), item("g", [SigmaNumber(1)])])
negk = SigmaDetection([item(None, [SigmaString("k")], negated=True)])
negnull = SigmaDetection([item("f", [], negated=True)])
negall = SigmaDetection([item("f", [SigmaString("a"), SigmaString("b")], value_linking=ConditionAND, negated=True)])
plain = SigmaDetection([item("p", [SigmaString("q")])])
emptied = SigmaDetection([item("e", [SigmaString("x")])])
emptied.detection_items = []
emptied2 = SigmaDetection([item("e", [SigmaString("x")])])
emptied2.detection_items = []
nested_empty = SigmaDetection([SigmaDetection([item("n", [SigmaNumber(1)])]), plain])
nested_empty.detection_items[0].detection_items = []
orlinked = SigmaDetection([item("o1", [SigmaNumber(1)]), item("o2", [SigmaNumber(2)])], item_linking=ConditionOR)
nullkw = SigmaDetection([item(None, [])])
hand = {
    "neg1": neg1, "negm": negm, "negk": negk, "negnull": negnull, "negall": negall, "plain": plain,
    "emptied": emptied, "emptied2": emptied2, "nested_empty": nested_empty, "orlinked": orlinked,
    "nullkw": nullkw,
}
for cond in [
    "neg1", "negm", "negk", "negnull", "negall", "not neg1", "plain and neg1", "emptied", "not emptied",
    "plain and emptied", "emptied or plain", "emptied and emptied2", "not (emptied or emptied2)",
    "plain and (emptied or emptied2)", "1 of emptied*", "all of emptied*", "nested_empty", "orlinked",
    "not orlinked", "nullkw", "plain or nullkw", "1 of neg*", "all of neg*", "all of them",
]:
    cond_obj = SigmaCondition(cond, SigmaDetections(dict(hand), ["plain"]))
    try:
        first = show(cond_obj.parsed)
        second = show(cond_obj.parsed)
        print(f"{cond!r:34} -> {first}{'' if first == second else '  !! second parse differs: ' + second}")
    except SigmaError as e:
        print(f"{cond!r:34} -> {type(e).__name__}: {e}")

print("== detections are not modified by postprocessing (copies are)")
d = SigmaDetections.from_dict({"a": {"f": [1, 2]}, "b": [{"g": 1}, {"h": 2}], "condition": "a and b and a"})
tree = d.parsed_condition[0].parsed
print(show(tree))
print("parents on originals:", d["a"].parent, d["a"].detection_items[0].parent, d["b"].parent,
      d["b"].detection_items[0].parent, d["b"].detection_items[0].detection_items[0].parent)
print("distinct copies for both references to a:", tree.args[0] is not tree.args[2], tree.args[0] == tree.args[2])
print("cache:", sc._parse_condition_string.cache_info().maxsize)
sys.exit(0)
