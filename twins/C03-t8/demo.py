"""Demo for property C03: values, linking and negation produced by modifier chains.

Prints what SigmaDetectionItem.from_mapping() stores (or the raised error) for many values and
modifier chains, plus direct observations of the helpers touched by the refactoring.
"""
import itertools
import sys

from sigma.exceptions import SigmaError
from sigma.modifiers import regexp_ends_with
from sigma.rule import SigmaDetectionItem
from sigma.types import (
    Placeholder,
    SigmaRegularExpression,
    SigmaRegularExpressionFlag,
    SigmaString,
    SpecialChars,
)


def show(key, value):
    try:
        item = SigmaDetectionItem.from_mapping(key, value)
        print(
            f"{key!r} {value!r} -> value={item.value!r} linking={item.value_linking.__name__} "
            f"negated={item.negated}"
        )
    except SigmaError as e:
        print(f"{key!r} {value!r} -> {type(e).__name__}: {e}")
    except Exception as e:  # anything else is shown as well, it must be the same on both sides
        print(f"{key!r} {value!r} -> NON-SIGMA {type(e).__name__}: {e}")


strings = [
    "",
    "abc",
    "*abc*",
    "abc\\*",
    "abc\\\\*",
    "\\*abc",
    "?x?",
    "-a /b -c-d",
    "a-b/c",
    " - / ",
    "--help //x",
    "%user%",
    "\\%user\\%",
    "x%a%y%b%z",
    "%%",
    "%a\\%b%",
    "äö-ü /ß",
    "–param",
    "100%",
    "a\\b%c%",
]
regexes = [
    "",
    "foo",
    ".*foo",
    "foo.*",
    ".*foo.*",
    "^foo",
    "foo$",
    "^foo$",
    "foo\\.*",
    "foo\\\\.*",
    "foo\\\\\\.*",
    "foo\\$",
    "foo\\\\$",
    "foo\\",
    ".",
    ".*",
    "$",
    "^",
    "\\",
    "\\\\",
    "foo(",
    "a{99999999999}",
    "%x%foo",
    "fo?o*",
    "\\^foo",
]
others = [0, 1, -5, 3.5, 2**60, True, False, None, "12", "1.5", "nan", "10.0.0.0/8", "fe80::/10"]

string_chains = [
    "contains",
    "startswith",
    "endswith",
    "contains|all",
    "all|contains",
    "neq|endswith",
    "contains|cased",
    "cased|startswith",
    "windash",
    "windash|contains",
    "windash|contains|all",
    "expand",
    "expand|contains",
    "contains|expand",
    "windash|expand",
    "expand|windash|endswith|neq",
    "base64",
    "base64offset|contains",
    "wide|base64offset",
    "fieldref",
    "fieldref|startswith",
    "cidr",
    "contains|cidr",
    "lt",
    "exists",
    "i",
    "contains|re",
    "nosuchmodifier",
]
re_chains = [
    "re",
    "re|contains",
    "re|startswith",
    "re|endswith",
    "re|i",
    "re|i|m|s",
    "re|dotall|contains",
    "re|i|startswith|endswith",
    "re|expand",
    "re|expand|contains",
    "re|contains|expand",
    "re|all|contains",
    "re|neq|endswith",
    "re|windash",
    "re|re",
    "re|cased",
]
other_chains = [
    "",
    "lt",
    "lte",
    "gt",
    "gte",
    "neq",
    "all",
    "minute",
    "hour|neq",
    "year",
    "exists",
    "exists|neq",
    "contains",
    "cidr",
    "re",
    "gt|lt",
    "windash",
    "expand",
]

print("=== string values ===")
for chain, s in itertools.product(string_chains, strings):
    show("field|" + chain, s)
print("=== string lists / keywords ===")
for chain in ("contains|all", "windash", "expand|endswith", "neq|startswith", "all"):
    show("field|" + chain, ["-a", "*b", "%c%", "d*"])
    show("|" + chain, ["-a", "*b", "%c%", "d*"])
    show("field|" + chain, [])
    show("field|" + chain, ["x", 1, None])
show(None, ["a*", 1, None, True])
show(5, "x")
print("=== regular expressions ===")
for chain, r in itertools.product(re_chains, regexes):
    show("field|" + chain, r)
show("field|re|contains", ["foo", ".*bar$", 1])
show("field|re|i|contains|all", ["foo", ".*bar\\\\$", "^x.*"])
print("=== other values ===")
for chain, v in itertools.product(other_chains, others):
    show("field" + ("|" + chain if chain else ""), v)
show("|exists", True)

print("=== regexp_ends_with ===")
for regexp in regexes + ["\\.*", "\\\\.*", ".*\\", "$$", "\\$$", "a.*$", "x\\\\\\\\$"]:
    for tail in (".*", "$", "", "\\", "foo", "\\.*"):
        print(repr(regexp), repr(tail), regexp_ends_with(regexp, tail))

print("=== contains_placeholder ===")
for s in strings:
    for ss in (SigmaString(s), SigmaString(s).insert_placeholders()):
        print(
            repr(ss),
            ss.contains_placeholder(),
            ss.contains_placeholder(["a"]),
            ss.contains_placeholder(None, ["a"]),
            ss.contains_placeholder(["a", "b", "user"], ["user"]),
            ss.contains_placeholder([], None),
            ss.contains_placeholder(None, []),
            ss.contains_placeholder("user", "ab"),
        )
mixed = SigmaString("x")
mixed.s = [Placeholder("a"), SpecialChars.WILDCARD_MULTI, "t", Placeholder("b")]
print(mixed.contains_placeholder(["b"], ["a"]), mixed.contains_placeholder(["c"], ["a"]))
try:
    mixed.contains_placeholder(5)
except Exception as e:
    print(type(e).__name__, e)
try:
    mixed.contains_placeholder(None, 5)
except Exception as e:
    print(type(e).__name__, e)

print("=== compile with flags ===")
flag_sets = [
    set(),
    {SigmaRegularExpressionFlag.IGNORECASE},
    {SigmaRegularExpressionFlag.MULTILINE, SigmaRegularExpressionFlag.DOTALL},
    set(SigmaRegularExpressionFlag),
]
for r in regexes + ["(?i)x", "x(?i)y", "(?s:a.b)"]:
    for flags in flag_sets:
        try:
            rx = SigmaRegularExpression(r, set(flags))
            rx.add_flag(SigmaRegularExpressionFlag.DOTALL)
            rx.compile()
            print(repr(rx))
        except SigmaError as e:
            print(repr(r), sorted(f.name for f in flags), type(e).__name__, e, repr(e.__cause__))
rx = SigmaRegularExpression("x")
rx.flags = {"bogus"}
try:
    rx.compile()
except Exception as e:
    print(type(e).__name__, e)
rx.flags = None
try:
    rx.compile()
except Exception as e:
    print(type(e).__name__, e)

sys.exit(0)
