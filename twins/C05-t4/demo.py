"""
Demo for C05/t4: SigmaRegularExpression.escape() (regex rendering) and the renderings around it.
Prints every observed output; the output has to be identical with and without the patch.
"""

import itertools
import random
import re
import sys

from sigma.backends.test import TextQueryTestBackend
from sigma.collection import SigmaCollection
from sigma.conversion.state import ConversionState
from sigma.types import (
    Placeholder,
    SigmaRegularExpression,
    SigmaRegularExpressionFlag,
    SigmaString,
    SpecialChars,
)

F = SigmaRegularExpressionFlag


def mk(rx, flags=()):
    """Regular expression value without the validity check of the constructor: escape() has to
    handle any text."""
    r = SigmaRegularExpression("", set(flags))
    r.regexp = SigmaString(rx, escape=False)
    return r


def show(label, func):
    try:
        res = func()
        print(f"{label} -> {res!r}")
    except Exception as e:  # exception class and message are part of the behaviour
        print(f"{label} !! {type(e).__name__}: {e}")


regexes = [
    "",
    "foo",
    "foo/bar",
    "/",
    "//",
    "a/b/c/",
    "bar",
    "barbar",
    "babar",
    "foo\\bar",
    "foo\\\\bar",
    "\\",
    "\\\\",
    "\\/",
    "a.*b?c",
    "a\\*b\\?c",
    "^(foo|bar)+[a-z]{2,3}\\d$",
    'say "hi" to \'me\'',
    "tab\there",
    "äöü/ß",
    "%name%",
    "a%b",
    "*?*",
    "x" * 30 + "/" + "y" * 30,
]

escaped_sets = [
    (),
    [],
    ["/"],
    ["/", "bar"],
    ["bar", "ba"],
    ["ba", "bar"],
    ["a", "ab", "b"],
    ['"', "'"],
    [".", "*", "?"],
    ["\\"],
    [""],
    ["", "a"],
    ["a", ""],
    ["//"],
    [None, "/"],
    ("/", "\\"),
]

escape_chars = ["\\", "\\\\", "#", "", "//", "bar"]

flag_sets = [
    set(),
    {F.IGNORECASE},
    {F.MULTILINE, F.IGNORECASE},
    {F.DOTALL, F.MULTILINE, F.IGNORECASE},
    {F.DOTALL},
]

print("== escape(): all combinations")
for rx, esc, ec, eec, fp in itertools.product(
    regexes, escaped_sets, escape_chars, (True, False), (True, False)
):
    flags = flag_sets[(len(rx) + len(ec)) % len(flag_sets)]
    show(
        f"escape({rx!r}, escaped={esc!r}, escape_char={ec!r}, eec={eec}, fp={fp}, flags={sorted(f.name for f in flags)})",
        lambda: mk(rx, flags).escape(esc, ec, eec, fp),
    )

print("== escape(): defaults")
for rx in regexes:
    show(f"escape({rx!r})", lambda: mk(rx).escape())
    show(f"constructor and escape({rx!r})", lambda: SigmaRegularExpression(rx).escape())
    show(
        f"escape({rx!r}) with all flags",
        lambda: mk(rx, {F.DOTALL, F.IGNORECASE, F.MULTILINE}).escape(),
    )
    show(
        f"escape({rx!r}) keyword arguments",
        lambda: mk(rx).escape(
            flag_prefix=False, escape_escape_char=False, escape_char="!", escaped=["o", "a"]
        ),
    )

print("== escape(): unusual arguments and values")
r = SigmaRegularExpression("foo/bar\\d")
show("escape_char=None", lambda: r.escape(["/"], None))
show("escape_char=None, eec=False", lambda: r.escape(["/"], None, False))
show("escaped=5", lambda: r.escape(5))
show("escaped=[5]", lambda: r.escape([5]))
show("escaped='/r' (a string)", lambda: r.escape("/r"))
show("escaped=generator", lambda: r.escape(c for c in "/o"))
show("escape_char=5", lambda: r.escape(["/"], 5))
r_flags = SigmaRegularExpression("foo", {F.IGNORECASE})
r_flags.flags.add("not a flag")
show("unknown flag, flag_prefix=True", lambda: r_flags.escape())
show("unknown flag, flag_prefix=False", lambda: r_flags.escape(flag_prefix=False))
r_ph = SigmaRegularExpression(SigmaString("foo%var%/bar").insert_placeholders())
show("placeholder", lambda: r_ph.escape(["/"]))
show("placeholder, escaped=[5]", lambda: r_ph.escape([5]))
r_parts = SigmaRegularExpression("foo")
r_parts.regexp = SigmaString("a/b*c?d\\*e")
show("regexp with wildcard parts", lambda: r_parts.escape(["/", "*"]))
r_parts.regexp.s.append(5)
show("regexp with a part of another type", lambda: r_parts.escape(["/"]))
show("flags untouched", lambda: (r_flags.flags == {F.IGNORECASE, "not a flag"}, r.flags))

print("== escape(): decoding the result gives the regular expression back")
for rx, esc, ec in itertools.product(regexes, (["/"], ["/", "bar"], ['"'], ["a", "b"]), ("\\", "#")):
    out = mk(rx).escape(esc, ec, True, False)
    # decode: an escape string in front of one of the sequences or of itself is removed
    alternatives = "|".join(re.escape(e) for e in [*esc, ec])
    decoded = re.sub(re.escape(ec) + "(" + alternatives + ")", lambda m: m.group(1), out)
    print(f"decode({rx!r}, {esc!r}, {ec!r}) -> {out!r} -> {decoded == rx}")

print("== random regular expressions")
rnd = random.Random(20260926)
alphabet = "ab/\\|.*?\"' r"
for i in range(400):
    rx = "".join(rnd.choice(alphabet) for _ in range(rnd.randint(0, 14)))
    esc = [
        "".join(rnd.choice(alphabet) for _ in range(rnd.randint(0, 3)))
        for _ in range(rnd.randint(0, 4))
    ]
    ec = rnd.choice(escape_chars)
    eec = rnd.random() < 0.5
    fp = rnd.random() < 0.5
    flags = set(rnd.sample(list(F), rnd.randint(0, 3)))
    show(
        f"random {i}: {rx!r} {esc!r} {ec!r} {eec} {fp} {sorted(f.name for f in flags)}",
        lambda: mk(rx, flags).escape(esc, ec, eec, fp),
    )

print("== the other renderings of string values")
strings = [
    "",
    "plain",
    "*",
    "?",
    "\\",
    "\\\\",
    "\\*",
    "\\?",
    "\\\\*",
    "a*b?c",
    "a\\*b\\?c\\\\d\\e",
    'qu"ote',
    "it's",
    "c:\\path\\*.exe",
    "a.b+c(d)[e]{f}^$|",
    "a:b&c",
    "trailing\\",
    "/bar/",
]
backend = TextQueryTestBackend()
state = ConversionState()
for s in strings:
    v = SigmaString(s)
    show(f"parts({s!r})", lambda: v.s)
    show(f"to_plain({s!r})", lambda: v.to_plain())
    show(f"reparse({s!r})", lambda: SigmaString(v.to_plain()) == v)
    show(f"convert({s!r})", lambda: v.convert())
    show(f"convert_value_str({s!r})", lambda: backend.convert_value_str(v, state))
    show(f"to_regex({s!r})", lambda: v.to_regex())
    show(f"to_regex({s!r}).escape", lambda: v.to_regex().escape(["/", "bar"]))
    show(f"convert_value_re(to_regex({s!r}))", lambda: backend.convert_value_re(v.to_regex(), state))
    show(f"escape_and_quote_field({s!r})", lambda: backend.escape_and_quote_field(s))

print("== rule conversion with regular expressions")
rule = """
title: Test
status: test
logsource:
    category: test
detection:
    sel:
        fieldA|re: 'foo/bar\\d+"x"'
        fieldB|re|i|m: '^a/b\\\\c$'
        field C|re|s: 'barbar.*/'
        fieldD|contains: 'a*b/c'
    condition: sel
"""
show("convert rule", lambda: backend.convert(SigmaCollection.from_yaml(rule)))

sys.exit(0)
