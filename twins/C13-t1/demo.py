"""
Demo for property C13: "a pipeline item acts exactly where its conditions hold".

Builds many processing pipelines whose last item is a marker transformation (field name suffix
".M") gated by rule / detection item / field name conditions in list form, map form, with and/or
linking, negation flags and condition expressions, preceded by items that set state, change the
log source, rename fields and process single detection items. For each pipeline the program prints
where the marker took effect. It also prints the errors raised for invalid condition setups.

The output is deterministic; it has to be identical before and after a behaviour-preserving
refactoring.
"""

import random
import sys
import traceback

from sigma.collection import SigmaCollection
from sigma.exceptions import SigmaError
from sigma.processing.condition_expressions import (
    ConditionAND,
    ConditionIdentifier,
    ConditionNOT,
    ConditionOR,
    parse_condition_expression,
)
from sigma.processing.conditions import (
    ExcludeFieldCondition,
    IncludeFieldCondition,
    IsSigmaRuleCondition,
    LogsourceCondition,
    MatchStringCondition,
    RuleTagCondition,
)
from sigma.processing.pipeline import ProcessingItem, ProcessingPipeline, QueryPostprocessingItem
from sigma.processing.postprocessing import EmbedQueryTransformation
from sigma.processing.transformations import (
    AddFieldnameSuffixTransformation,
    SetStateTransformation,
)
from sigma.rule import SigmaDetection, SigmaDetectionItem, SigmaRule
from sigma.types import SigmaFieldReference, SigmaNumber, SigmaString

RULE = """
title: Test rule
id: 8f3a3c0e-6a86-4c3f-9a0b-2c1d0a7a1a11
status: test
level: high
custom: x
logsource:
    category: process_creation
    product: windows
tags:
    - attack.t1059
    - attack.execution
fields:
    - fieldA
    - fieldB
    - other
detection:
    sel:
        fieldA: valueA
        fieldB|contains:
            - foo*
            - bar
        fieldC: null
        fieldD|fieldref: fieldA
        fieldE: 123
    sel2:
        - fieldA: val?ue
          fieldF|fieldref: fieldB
        - fieldG|re: a.*b
    keywords:
        - kw1
        - kw*2
    condition: sel and sel2 or keywords
"""

CORRELATION = """
title: Base rule
name: base_rule
status: test
logsource:
    category: process_creation
    product: windows
detection:
    sel:
        fieldA: valueA
    condition: sel
---
title: Correlation
status: test
level: high
tags:
    - attack.t1059
correlation:
    type: event_count
    rules:
        - base_rule
    group-by:
        - fieldA
        - fieldB
    timespan: 5m
    condition:
        gte: 10
"""

RULE_CONDS = {
    "ls_ok": {"type": "logsource", "category": "process_creation"},
    "ls_bad": {"type": "logsource", "product": "linux"},
    "ls_new": {"type": "logsource", "category": "changed"},
    "is_rule": {"type": "is_sigma_rule"},
    "is_corr": {"type": "is_sigma_correlation_rule"},
    "tag_ok": {"type": "tag", "tag": "attack.t1059"},
    "tag_bad": {"type": "tag", "tag": "attack.t9999"},
    "lvl_gte": {"type": "rule_attribute", "attribute": "level", "value": "medium", "op": "gte"},
    "lvl_lt": {"type": "rule_attribute", "attribute": "level", "value": "medium", "op": "lt"},
    "custom_x": {"type": "rule_attribute", "attribute": "custom", "value": "x"},
    "has_fieldA": {"type": "contains_field", "field": "fieldA"},
    "has_renamedB": {"type": "contains_field", "field": "renamedB"},
    "has_item": {"type": "contains_detection_item", "field": "fieldE", "value": 123},
    "state_ok": {"type": "processing_state", "key": "k", "val": "v"},
    "state_gt": {"type": "processing_state", "key": "n", "val": 3, "op": "gt"},
    "state_ne": {"type": "processing_state", "key": "zz", "val": "v", "op": "ne"},
    "applied_state": {"type": "processing_item_applied", "processing_item_id": "pre_state"},
    "applied_never": {"type": "processing_item_applied", "processing_item_id": "never"},
}

DETECTION_ITEM_CONDS = {
    "str_any": {"type": "match_string", "cond": "any", "pattern": "^(foo|val)"},
    "str_all": {"type": "match_string", "cond": "all", "pattern": "^(foo|val)"},
    "str_neg": {"type": "match_string", "cond": "any", "pattern": "^kw", "negate": True},
    "val_123": {"type": "match_value", "cond": "any", "value": 123},
    "val_A": {"type": "match_value", "cond": "all", "value": "valueA"},
    "wild_any": {"type": "contains_wildcard", "cond": "any"},
    "wild_all": {"type": "contains_wildcard", "cond": "all"},
    "null_all": {"type": "is_null", "cond": "all"},
    "applied_repl": {"type": "processing_item_applied", "processing_item_id": "pre_repl"},
    "applied_map": {"type": "processing_item_applied", "processing_item_id": "pre_map"},
    "applied_never": {"type": "processing_item_applied", "processing_item_id": "never"},
    "state_ok": {"type": "processing_state", "key": "k", "val": "v"},
    "state_lte": {"type": "processing_state", "key": "n", "val": 5, "op": "lte"},
}

FIELD_NAME_CONDS = {
    "inc_AB": {"type": "include_fields", "fields": ["fieldA", "fieldB"]},
    "inc_re": {"type": "include_fields", "fields": ["field[A-D]$", "^oth"], "mode": "re"},
    "inc_renamed": {"type": "include_fields", "fields": ["renamedB"]},
    "exc_A": {"type": "exclude_fields", "fields": ["fieldA"]},
    "exc_re": {"type": "exclude_fields", "fields": [".*[EFG]$"], "mode": "re"},
    "inc_none": {"type": "include_fields", "fields": []},
    "applied_map": {"type": "processing_item_applied", "processing_item_id": "pre_map"},
    "applied_never": {"type": "processing_item_applied", "processing_item_id": "never"},
    "state_ok": {"type": "processing_state", "key": "k", "val": "v"},
    "state_lt": {"type": "processing_state", "key": "n", "val": 5, "op": "lt"},
}

PREFIX_ITEMS = {
    "state": [
        {"id": "pre_state", "type": "set_state", "key": "k", "val": "v"},
        {"id": "pre_state_n", "type": "set_state", "key": "n", "val": 5},
    ],
    "logsource": [{"id": "pre_ls", "type": "change_logsource", "category": "changed"}],
    "rename": [{"id": "pre_map", "type": "field_name_mapping", "mapping": {"fieldB": "renamedB"}}],
    "replace": [
        {
            "id": "pre_repl",
            "type": "replace_string",
            "regex": "^val",
            "replacement": "VAL",
            "field_name_conditions": [{"type": "include_fields", "fields": ["fieldA"]}],
        }
    ],
}


def random_expression(rnd, identifiers):
    """Random expression that references each identifier exactly once."""
    parts = list(identifiers)
    rnd.shuffle(parts)
    parts = [("not " + p) if rnd.random() < 0.3 else p for p in parts]
    while len(parts) > 1:
        i = rnd.randrange(len(parts) - 1)
        op = rnd.choice(["and", "or"])
        combined = f"{parts[i]} {op} {parts[i + 1]}"
        style = rnd.random()
        if style < 0.4:
            combined = f"({combined})"
        elif style < 0.55:
            combined = f"not ({combined})"
        parts[i : i + 2] = [combined]
    return parts[0]


def random_group(rnd, prefix, pool):
    """Return the keys of the item definition for one of the three condition groups."""
    result = {}
    count = rnd.choice([0, 0, 1, 1, 2, 2, 3])
    names = rnd.sample(sorted(pool), count)
    mode = rnd.choice(["list", "list", "dict", "expr"])
    if mode == "expr" and count == 0:
        mode = "dict"
    if mode == "list":
        result[f"{prefix}_conditions"] = [dict(pool[name]) for name in names]
    else:
        result[f"{prefix}_conditions"] = {name: dict(pool[name]) for name in names}
    if mode == "expr":
        result[f"{prefix}_cond_expr"] = random_expression(rnd, names)
    else:
        op = rnd.choice([None, "and", "or"])
        if op is not None:
            result[f"{prefix}_cond_op"] = op
    if rnd.random() < 0.4:
        result[f"{prefix}_cond_not"] = True
    return result


def describe_detection(detection, out):
    for item in detection.detection_items:
        if isinstance(item, SigmaDetection):
            out.append("(")
            describe_detection(item, out)
            out.append(")")
        else:
            values = ",".join(
                ("ref:" + v.field) if isinstance(v, SigmaFieldReference) else str(v)
                for v in item.value
            )
            applied = ",".join(sorted(item.applied_processing_items))
            out.append(f"{item.field}=[{values}]<{applied}>")


def describe_rule(rule, pipeline):
    lines = []
    lines.append(f"  applied={pipeline.applied} ids={sorted(pipeline.applied_ids)}")
    lines.append(f"  state={sorted(pipeline.state.items())}")
    lines.append(
        "  field_name_applied_ids="
        + str(sorted((k, sorted(v)) for k, v in pipeline.field_name_applied_ids.items()))
    )
    lines.append(
        "  field_mappings=" + str(sorted((str(k), sorted(v)) for k, v in pipeline.field_mappings.items()))
    )
    lines.append(f"  rule.applied={sorted(rule.applied_processing_items)} fields={rule.fields}")
    if isinstance(rule, SigmaRule):
        lines.append(f"  logsource={rule.logsource.category}/{rule.logsource.product}")
        for name, detection in rule.detection.detections.items():
            out = []
            describe_detection(detection, out)
            lines.append(f"  {name}: " + " ".join(out))
    else:
        lines.append(f"  group_by={rule.group_by}")
    return lines


def fresh_rule():
    return SigmaRule.from_yaml(RULE)


def fresh_correlation():
    collection = SigmaCollection.from_yaml(CORRELATION)
    collection.resolve_rule_references()
    return collection.rules[-1]


def run_pipeline(label, items, rule):
    print(f"--- {label}")
    marker = items[-1]
    print("  marker=" + str({k: v for k, v in sorted(marker.items()) if k not in ("type", "suffix")}))
    try:
        pipeline = ProcessingPipeline.from_dict({"transformations": items})
    except SigmaError as e:
        print(f"  construction error {type(e).__name__}: {e}")
        return
    marker_item = pipeline.items[-1]
    print(
        "  normalised: "
        + ", ".join(
            f"{group}={type(getattr(marker_item, group + '_conditions')).__name__}/"
            f"{getattr(getattr(marker_item, group + '_condition_linking'), '__name__', None)}/"
            f"{getattr(marker_item, group + '_condition_negation')}"
            for group in ("rule", "detection_item", "field_name")
        )
    )
    try:
        pipeline.apply(rule)
    except Exception as e:  # noqa
        print(f"  apply error {type(e).__name__}: {e}")
        return
    for line in describe_rule(rule, pipeline):
        print(line)


def section_random_matrix():
    print("===== random condition matrix")
    rnd = random.Random(1313)
    prefix_names = sorted(PREFIX_ITEMS)
    for i in range(260):
        prefixes = [name for name in prefix_names if rnd.random() < 0.5]
        items = [dict(item) for name in prefixes for item in PREFIX_ITEMS[name]]
        marker = {"id": "marker", "type": "field_name_suffix", "suffix": ".M"}
        marker.update(random_group(rnd, "rule", RULE_CONDS))
        marker.update(random_group(rnd, "detection_item", DETECTION_ITEM_CONDS))
        marker.update(random_group(rnd, "field_name", FIELD_NAME_CONDS))
        items.append(marker)
        rule = fresh_correlation() if i % 13 == 12 else fresh_rule()
        run_pipeline(f"case {i} prefixes={prefixes} target={type(rule).__name__}", items, rule)


def section_handcrafted():
    print("===== handcrafted corner cases")
    base = {"id": "marker", "type": "field_name_suffix", "suffix": ".M"}
    cases = {
        "no conditions at all": {},
        "empty lists negated": {
            "rule_conditions": [],
            "rule_cond_not": True,
            "detection_item_conditions": [],
            "detection_item_cond_not": True,
            "field_name_conditions": [],
            "field_name_cond_not": True,
        },
        "empty dicts negated or": {
            "rule_conditions": {},
            "rule_cond_not": True,
            "rule_cond_op": "or",
            "detection_item_conditions": {},
            "detection_item_cond_op": "or",
            "field_name_conditions": {},
            "field_name_cond_op": "or",
            "field_name_cond_not": True,
        },
        "single false rule condition negated": {
            "rule_conditions": [RULE_CONDS["ls_bad"]],
            "rule_cond_not": True,
        },
        "or over false conditions": {
            "rule_conditions": [RULE_CONDS["ls_bad"], RULE_CONDS["tag_bad"]],
            "rule_cond_op": "or",
        },
        "field ref only matches": {
            "field_name_conditions": [{"type": "include_fields", "fields": ["fieldB"]}],
        },
        "field ref excluded": {
            "field_name_conditions": [{"type": "exclude_fields", "fields": ["fieldB", "fieldD"]}],
        },
        "expression in every group": {
            "rule_conditions": {"a": RULE_CONDS["ls_ok"], "b": RULE_CONDS["tag_bad"]},
            "rule_cond_expr": "a and not b",
            "detection_item_conditions": {
                "w": DETECTION_ITEM_CONDS["wild_any"],
                "n": DETECTION_ITEM_CONDS["null_all"],
            },
            "detection_item_cond_expr": "not (w or n)",
            "field_name_conditions": {
                "i": FIELD_NAME_CONDS["inc_re"],
                "e": FIELD_NAME_CONDS["exc_A"],
            },
            "field_name_cond_expr": "i and e",
        },
        "expression negated by flag": {
            "field_name_conditions": {"i": FIELD_NAME_CONDS["inc_AB"]},
            "field_name_cond_expr": "not i",
            "field_name_cond_not": True,
        },
        "chained operators": {
            "rule_conditions": {
                "a": RULE_CONDS["ls_ok"],
                "b": RULE_CONDS["tag_bad"],
                "c": RULE_CONDS["is_rule"],
                "d": RULE_CONDS["lvl_lt"],
            },
            "rule_cond_expr": "a and b or c and not d",
        },
        # invalid setups
        "expression and linking": {
            "rule_conditions": {"a": RULE_CONDS["ls_ok"]},
            "rule_cond_expr": "a",
            "rule_cond_op": "and",
        },
        "expression with list": {
            "detection_item_conditions": [DETECTION_ITEM_CONDS["wild_any"]],
            "detection_item_cond_expr": "a",
        },
        "expression with unknown identifier": {
            "field_name_conditions": {"i": FIELD_NAME_CONDS["inc_AB"]},
            "field_name_cond_expr": "i and j",
        },
        "expression with unreferenced conditions": {
            "rule_conditions": {
                "a": RULE_CONDS["ls_ok"],
                "z": RULE_CONDS["tag_ok"],
                "b": RULE_CONDS["tag_bad"],
            },
            "rule_cond_expr": "a",
        },
        "expression syntax error": {
            "rule_conditions": {"a": RULE_CONDS["ls_ok"]},
            "rule_cond_expr": "a and and",
        },
        "conditions of wrong form": {"rule_conditions": "logsource"},
        "unknown condition type": {"field_name_conditions": [{"type": "nope"}]},
        "missing condition type": {"detection_item_conditions": {"x": {"cond": "any"}}},
        "bad condition parameter": {"rule_conditions": [{"type": "logsource", "foo": "bar"}]},
        "unknown linking operator": {
            "rule_conditions": [RULE_CONDS["ls_bad"]],
            "rule_cond_op": "xor",
        },
    }
    for label, extra in cases.items():
        marker = dict(base)
        marker.update(extra)
        run_pipeline(
            label,
            [dict(i) for i in PREFIX_ITEMS["state"] + PREFIX_ITEMS["rename"]] + [marker],
            fresh_rule(),
        )


def attempt(label, func):
    try:
        result = func()
        print(f"  {label}: {result!r}")
    except Exception as e:  # noqa
        location = getattr(e, "location", None)
        expression = getattr(e, "expression", None)
        print(f"  {label}: {type(e).__name__}: {e} [expression={expression!r} location={location!r}]")


def section_direct_construction():
    print("===== direct construction of processing items")
    t = lambda: AddFieldnameSuffixTransformation(".M")

    def show(item):
        return {
            group: (
                type(getattr(item, group + "_conditions")).__name__,
                len(getattr(item, group + "_conditions")),
                getattr(getattr(item, group + "_condition_linking"), "__name__", None),
                getattr(item, group + "_condition_negation"),
                getattr(item, group + "_condition_expression") is not None,
            )
            for group in ("rule", "detection_item", "field_name")
        }

    attempt("defaults", lambda: show(ProcessingItem(t())))
    attempt(
        "any linking kept",
        lambda: show(
            ProcessingItem(
                t(),
                rule_condition_linking=any,
                rule_conditions=[IsSigmaRuleCondition()],
                field_name_condition_linking=any,
            )
        ),
    )
    attempt(
        "dict simplified to list",
        lambda: show(
            ProcessingItem(
                t(),
                rule_conditions={"a": IsSigmaRuleCondition(), "b": RuleTagCondition("attack.t1")},
                detection_item_conditions={"m": MatchStringCondition("any", "x")},
                field_name_conditions={"i": IncludeFieldCondition(["f"])},
            )
        ),
    )
    attempt(
        "expression keeps dict",
        lambda: show(
            ProcessingItem(
                t(),
                rule_conditions={"a": IsSigmaRuleCondition(), "b": RuleTagCondition("attack.t1")},
                rule_condition_expression=parse_condition_expression("a or b"),
            )
        ),
    )
    attempt(
        "expression and linking",
        lambda: ProcessingItem(
            t(),
            rule_conditions={"a": IsSigmaRuleCondition()},
            rule_condition_expression=parse_condition_expression("a"),
            rule_condition_linking=all,
        ),
    )
    attempt(
        "expression and list",
        lambda: ProcessingItem(
            t(),
            field_name_conditions=[IncludeFieldCondition(["f"])],
            field_name_condition_expression=parse_condition_expression("a"),
        ),
    )
    attempt(
        "expression and tuple",
        lambda: ProcessingItem(
            t(),
            detection_item_conditions=(MatchStringCondition("any", "x"),),
            detection_item_condition_expression=parse_condition_expression("a"),
        ),
    )
    attempt("tuple of conditions", lambda: ProcessingItem(t(), rule_conditions=(IsSigmaRuleCondition(),)))
    attempt("string as conditions", lambda: ProcessingItem(t(), field_name_conditions="abc"))
    attempt("None as conditions", lambda: ProcessingItem(t(), detection_item_conditions=None))
    attempt(
        "wrong condition class in list",
        lambda: ProcessingItem(t(), rule_conditions=[IncludeFieldCondition(["f"])]),
    )
    attempt(
        "wrong condition class in dict",
        lambda: ProcessingItem(
            t(), detection_item_conditions={"a": MatchStringCondition("any", "x"), "b": IsSigmaRuleCondition()}
        ),
    )
    attempt(
        "wrong condition class with expression",
        lambda: ProcessingItem(
            t(),
            field_name_conditions={"a": IsSigmaRuleCondition()},
            field_name_condition_expression=parse_condition_expression("a"),
        ),
    )
    attempt("plain object in list", lambda: ProcessingItem(t(), field_name_conditions=[42]))
    attempt(
        "postprocessing item with dict conditions",
        lambda: (
            lambda item: (
                type(item.rule_conditions).__name__,
                item.rule_condition_linking.__name__,
                item.match_rule_conditions(fresh_rule()),
            )
        )(
            QueryPostprocessingItem(
                EmbedQueryTransformation(prefix="[", suffix="]"),
                rule_conditions={"a": LogsourceCondition(category="process_creation")},
                rule_condition_negation=True,
            )
        ),
    )

    print("===== gates of items whose linking was removed afterwards")
    item = ProcessingItem(
        t(),
        rule_conditions=[IsSigmaRuleCondition()],
        detection_item_conditions=[MatchStringCondition("any", "x")],
        field_name_conditions=[IncludeFieldCondition(["fieldA"])],
    )
    rule = fresh_rule()
    detection_item = rule.detection.detections["sel"].detection_items[0]
    fieldref_item = rule.detection.detections["sel"].detection_items[3]
    attempt("rule gate", lambda: item.match_rule_conditions(rule))
    attempt("detection item gate", lambda: item.match_detection_item(detection_item))
    attempt("detection item gate fieldref", lambda: item.match_detection_item(fieldref_item))
    attempt("field gate", lambda: item.match_field_name("fieldA"))
    attempt("field gate None", lambda: item.match_field_name(None))
    attempt("value gate ref", lambda: item.match_field_in_value(SigmaFieldReference("fieldA")))
    attempt("value gate other ref", lambda: item.match_field_in_value(SigmaFieldReference("zzz")))
    attempt("value gate string", lambda: item.match_field_in_value(SigmaString("fieldA")))
    attempt("value gate number", lambda: item.match_field_in_value(SigmaNumber(1)))
    item.field_name_condition_negation = True
    attempt("value gate ref negated", lambda: item.match_field_in_value(SigmaFieldReference("fieldA")))
    attempt("value gate string negated", lambda: item.match_field_in_value(SigmaString("fieldA")))
    attempt("field gate negated", lambda: item.match_field_name("fieldA"))
    item.field_name_conditions = []
    attempt("value gate ref negated, conditions emptied", lambda: item.match_field_in_value(SigmaFieldReference("q")))
    attempt("field gate negated, conditions emptied", lambda: item.match_field_name("q"))
    attempt("detection item gate, field conditions emptied", lambda: item.match_detection_item(detection_item))
    item.rule_condition_linking = None
    item.detection_item_condition_linking = None
    item.field_name_condition_linking = None
    attempt("rule gate without linking", lambda: item.match_rule_conditions(rule))
    attempt("detection item gate without linking", lambda: item.match_detection_item(detection_item))
    attempt("field gate without linking", lambda: item.match_field_name("fieldA"))
    attempt("value gate without linking", lambda: item.match_field_in_value(SigmaFieldReference("fieldA")))
    attempt("value gate without linking, string", lambda: item.match_field_in_value(SigmaString("x")))
    item.detection_item_condition_linking = all
    attempt("detection item gate without field linking", lambda: item.match_detection_item(detection_item))
    item.rule_condition_linking = all
    item.rule_conditions = {"a": IsSigmaRuleCondition()}
    attempt("rule gate with linking but dict", lambda: item.match_rule_conditions(rule))


def section_recheck():
    print("===== _check_conditions called again on modified items (side effects also on failure)")
    from sigma.processing.conditions.base import FieldNameProcessingCondition

    def state(item):
        return (
            type(item.field_name_conditions).__name__,
            getattr(item.field_name_condition_linking, "__name__", None),
            item.field_name_condition_expression is not None,
        )

    def recheck(label, conditions, linking, expression, attrs=None):
        item = ProcessingItem(AddFieldnameSuffixTransformation(".M"))
        item.field_name_conditions = conditions
        item.field_name_condition_linking = linking
        item.field_name_condition_expression = expression
        args = attrs or (
            "field_name_condition_expression",
            "field_name_condition_linking",
            "field_name_conditions",
        )
        try:
            result = item._check_conditions(*args, FieldNameProcessingCondition, "Field name condition")
            print(f"  {label}: returned {result!r}, item now {state(item)}")
        except Exception as e:  # noqa
            print(f"  {label}: {type(e).__name__}: {e}, item now {state(item)}")

    inc = IncludeFieldCondition(["f"])
    expr = parse_condition_expression("a")
    recheck("list, no linking", [inc], None, None)
    recheck("list, any", [inc], any, None)
    recheck("dict, no linking", {"a": inc}, None, None)
    recheck("dict, any", {"a": inc}, any, None)
    recheck("dict, expression", {"a": inc}, None, expr)
    recheck("dict, expression, linking", {"a": inc}, all, expr)
    recheck("list, expression", [inc], None, expr)
    recheck("tuple, no linking", (inc,), None, None)
    recheck("tuple, any", (inc,), any, None)
    recheck("tuple, expression", (inc,), None, expr)
    recheck("None, no linking", None, None, None)
    recheck("dict with wrong class, no linking", {"a": inc, "b": IsSigmaRuleCondition()}, None, None)
    recheck("list with wrong class, no linking", [inc, 1], None, None)
    recheck("dict with wrong class, expression", {"a": 1}, None, expr)
    recheck("empty dict, expression", {}, None, expr)
    recheck("empty list, linking", [], any, None)
    recheck("missing expression attribute", [inc], None, None, ("nope1", "nope2", "nope3"))
    recheck(
        "missing conditions attribute",
        [inc],
        None,
        None,
        ("field_name_condition_expression", "nope2", "nope3"),
    )
    recheck(
        "missing linking attribute",
        [inc],
        None,
        None,
        ("field_name_condition_expression", "nope2", "field_name_conditions"),
    )
    recheck(
        "missing linking attribute, expression",
        {"a": inc},
        None,
        expr,
        ("field_name_condition_expression", "nope2", "field_name_conditions"),
    )


def section_expressions():
    print("===== condition expressions evaluated directly")
    rule = fresh_rule()
    correlation = fresh_correlation()
    detection_item = rule.detection.detections["sel"].detection_items[1]
    fieldref_item = rule.detection.detections["sel"].detection_items[3]
    rule_conditions = {
        "t": IsSigmaRuleCondition(),
        "f": RuleTagCondition("attack.t9999"),
        "l": LogsourceCondition(category="process_creation"),
    }
    detection_item_conditions = {
        "t": MatchStringCondition("any", "^foo"),
        "f": MatchStringCondition("all", "^foo"),
        "l": MatchStringCondition("any", "^bar"),
    }
    field_name_conditions = {
        "t": IncludeFieldCondition(["fieldA", "fieldB"]),
        "f": ExcludeFieldCondition(["fieldA", "fieldB"]),
        "l": IncludeFieldCondition(["field.*"], "re"),
    }
    expressions = [
        "t",
        "f",
        "not t",
        "not not f",
        "t and f",
        "t or f",
        "t and l and f",
        "f or f or t",
        "t and not f or f and l",
        "not (t and (f or l))",
        "(((t)))",
        "t and x",
        "T",
        "t andf",
        "t or",
        "",
        "not",
        "t-1 or t_2",
    ]
    for expression in expressions:
        print(f"--- expression {expression!r}")
        try:
            parsed = parse_condition_expression(expression)
        except Exception as e:  # noqa
            print(
                f"  parse error {type(e).__name__}: {e} "
                f"[expression={getattr(e, 'expression', None)!r} location={getattr(e, 'location', None)!r}]"
            )
            continue
        print(f"  parsed={parsed!r}")
        for kind, conditions in (
            ("rule", rule_conditions),
            ("detection_item", detection_item_conditions),
            ("field_name", field_name_conditions),
        ):
            parsed = parse_condition_expression(expression)
            attempt(f"{kind} resolve", lambda: sorted(parsed.resolve(conditions)))
            attempt(f"{kind} match(rule)", lambda: parsed.match(rule))
            attempt(f"{kind} match(correlation)", lambda: parsed.match(correlation))
            attempt(f"{kind} match(detection item)", lambda: parsed.match(detection_item))
            attempt(f"{kind} match_detection_item", lambda: parsed.match_detection_item(detection_item))
            attempt(f"{kind} match_detection_item(fieldref)", lambda: parsed.match_detection_item(fieldref_item))
            attempt(f"{kind} match_field_name('fieldA')", lambda: parsed.match_field_name("fieldA"))
            attempt(f"{kind} match_field_name('zzz')", lambda: parsed.match_field_name("zzz"))
            attempt(f"{kind} match_field_name(None)", lambda: parsed.match_field_name(None))
    print("--- unresolved identifier")
    unresolved = parse_condition_expression("a or not b")
    attempt("match(rule)", lambda: unresolved.match(rule))
    attempt("match_detection_item", lambda: unresolved.match_detection_item(detection_item))
    attempt("match_field_name", lambda: unresolved.match_field_name("fieldA"))
    print("--- hand built expression objects")
    ident = ConditionIdentifier(3, "x")
    attempt("identifier repr", lambda: ident)
    attempt("identifier resolve missing", lambda: ident.resolve({}))
    attempt("identifier resolve", lambda: ident.resolve({"x": IsSigmaRuleCondition(), "y": IsSigmaRuleCondition()}))
    attempt("identifier match", lambda: ident.match(rule))
    attempt("identifier match wrong item", lambda: ident.match("a string"))
    attempt("identifier match_field_name", lambda: ident.match_field_name(None))
    attempt("NOT", lambda: ConditionNOT(0, ident).match(correlation))
    attempt("AND", lambda: ConditionAND(0, ident, ConditionNOT(0, ident)).match(rule))
    attempt("OR", lambda: ConditionOR(0, ident, ConditionNOT(0, ident)).match(rule))


def section_custom_conditions():
    print("===== custom condition classes (hybrids, results that aren't bools)")
    from dataclasses import dataclass
    from sigma.processing.conditions.base import (
        DetectionItemProcessingCondition,
        FieldNameProcessingCondition,
        RuleProcessingCondition,
    )

    @dataclass
    class RuleAndItem(RuleProcessingCondition, DetectionItemProcessingCondition):
        result: object = True

        def match(self, item):
            return self.result

    @dataclass
    class FieldAndRule(FieldNameProcessingCondition, RuleProcessingCondition):
        result: object = True

        def match(self, rule):
            return self.result

        def match_field_name(self, field):
            return self.result

    rule = fresh_rule()
    correlation = fresh_correlation()
    detection_item = rule.detection.detections["sel"].detection_items[0]
    fieldref_item = rule.detection.detections["sel"].detection_items[3]
    for result in (True, False, "yes", "", 0, 2, None, [], [0]):
        print(f"--- result {result!r}")
        for cls in (RuleAndItem, FieldAndRule):
            expr = parse_condition_expression("c")
            expr.resolve({"c": cls(result)})
            attempt(f"{cls.__name__} match(rule)", lambda: expr.match(rule))
            attempt(f"{cls.__name__} match(correlation)", lambda: expr.match(correlation))
            attempt(f"{cls.__name__} match(detection item)", lambda: expr.match(detection_item))
            attempt(f"{cls.__name__} match(None)", lambda: expr.match(None))
            attempt(f"{cls.__name__} match_detection_item", lambda: expr.match_detection_item(detection_item))
            attempt(f"{cls.__name__} match_field_name", lambda: expr.match_field_name("f"))
            for op in ("not c", "c and c", "c or c"):
                expr2 = parse_condition_expression(op)
                expr2.resolve({"c": cls(result)})
                attempt(f"{cls.__name__} {op!r} match(rule)", lambda: expr2.match(rule))
        t = lambda: AddFieldnameSuffixTransformation(".M")
        for negation in (False, True):
            for with_expr in (False, True):
                kwargs = dict(
                    rule_conditions={"c": RuleAndItem(result)},
                    rule_condition_negation=negation,
                    detection_item_conditions={"c": RuleAndItem(result)},
                    detection_item_condition_negation=negation,
                    field_name_conditions={"c": FieldAndRule(result)},
                    field_name_condition_negation=negation,
                )
                if with_expr:
                    kwargs.update(
                        rule_condition_expression=parse_condition_expression("c"),
                        detection_item_condition_expression=parse_condition_expression("c"),
                        field_name_condition_expression=parse_condition_expression("c"),
                    )
                item = ProcessingItem(t(), **kwargs)
                label = f"negation={negation} expr={with_expr}"
                attempt(f"{label} rule gate", lambda: item.match_rule_conditions(rule))
                attempt(f"{label} detection item gate", lambda: item.match_detection_item(detection_item))
                attempt(f"{label} detection item gate (fieldref)", lambda: item.match_detection_item(fieldref_item))
                attempt(f"{label} field gate", lambda: item.match_field_name("f"))
                attempt(f"{label} value gate", lambda: item.match_field_in_value(SigmaFieldReference("f")))
                attempt(f"{label} value gate (string)", lambda: item.match_field_in_value(SigmaString("f")))
                pipeline = ProcessingPipeline([item])
                target = fresh_rule()
                try:
                    pipeline.apply(target)
                    print(f"  {label} applied={pipeline.applied} fields={target.fields}")
                except Exception as e:  # noqa
                    print(f"  {label} apply error {type(e).__name__}: {e}")


def section_state_and_tracking():
    print("===== conditions on earlier items and state")
    items = [
        {"id": "s1", "type": "set_state", "key": "k", "val": "v", "rule_conditions": [RULE_CONDS["ls_bad"]]},
        {
            "id": "a",
            "type": "field_name_suffix",
            "suffix": ".a",
            "rule_conditions": [RULE_CONDS["state_ok"]],
            "rule_cond_not": True,
            "field_name_conditions": [FIELD_NAME_CONDS["inc_AB"]],
        },
        {"id": "s2", "type": "set_state", "key": "k", "val": "v"},
        {
            "id": "b",
            "type": "field_name_suffix",
            "suffix": ".b",
            "rule_conditions": {"s": RULE_CONDS["state_ok"], "p": {"type": "processing_item_applied", "processing_item_id": "a"}},
            "rule_cond_expr": "s and p",
            "detection_item_conditions": [{"type": "processing_item_applied", "processing_item_id": "a"}],
            "detection_item_cond_not": True,
        },
        {
            "id": "c",
            "type": "field_name_suffix",
            "suffix": ".c",
            "field_name_conditions": {
                "pa": {"type": "processing_item_applied", "processing_item_id": "a"},
                "pb": {"type": "processing_item_applied", "processing_item_id": "b"},
            },
            "field_name_cond_expr": "pa or not pb",
        },
        {
            "id": "d",
            "type": "field_name_suffix",
            "suffix": ".d",
            "rule_conditions": [{"type": "processing_item_applied", "processing_item_id": "s1"}],
        },
    ]
    pipeline = ProcessingPipeline.from_dict({"transformations": items})
    for target in (fresh_rule(), fresh_correlation(), fresh_rule()):
        print(f"--- target {type(target).__name__}")
        pipeline.apply(target)
        for line in describe_rule(target, pipeline):
            print(line)
    print("--- state handed in from the outside")
    rule = fresh_rule()
    pipeline.apply(rule, {"k": "other"})
    for line in describe_rule(rule, pipeline):
        print(line)
    print("--- postprocessing gate")
    post = ProcessingPipeline.from_dict(
        {
            "transformations": [{"id": "s", "type": "set_state", "key": "k", "val": "v"}],
            "postprocessing": [
                {
                    "id": "p1",
                    "type": "embed",
                    "prefix": "[",
                    "suffix": "]",
                    "rule_conditions": [RULE_CONDS["state_ok"], RULE_CONDS["ls_bad"]],
                    "rule_cond_op": "or",
                },
                {
                    "id": "p2",
                    "type": "embed",
                    "prefix": "<",
                    "suffix": ">",
                    "rule_conditions": {"a": RULE_CONDS["applied_state"], "b": RULE_CONDS["ls_ok"]},
                    "rule_cond_expr": "a or not b",
                },
                {"id": "p3", "type": "embed", "prefix": "{", "suffix": "}", "rule_cond_not": True},
            ],
        }
    )
    rule = fresh_rule()
    post.apply(rule)
    print("  " + post.postprocess_query(rule, "query"), sorted(post.applied_ids))


def main():
    section_handcrafted()
    section_direct_construction()
    section_recheck()
    section_expressions()
    section_custom_conditions()
    section_state_and_tracking()
    section_random_matrix()
    return 0


if __name__ == "__main__":
    sys.exit(main())
