"""
Demo for property C07 (malformed documents raise Sigma errors only; collecting mode never raises),
focused on the detection parsing code (sigma/rule/detection.py) used by SigmaRule.from_dict,
SigmaFilter.from_dict and SigmaCollection.from_dicts.

Prints, for each mutated document, the outcome of strict loading and of collecting loading and
checks the property relation between both. Exits 0 if no non-Sigma exception escaped.
"""

import copy
import sys
from collections import OrderedDict

import sigma.rule.detection as det_mod
from sigma.collection import SigmaCollection
from sigma.exceptions import SigmaError, SigmaRuleLocation
from sigma.filters import SigmaFilter
from sigma.rule import SigmaRule
from sigma.rule.detection import SigmaDetection, SigmaDetectionItem, SigmaDetections

print("module:", det_mod.__file__)

failures = 0


def describe_exc(e):
    return f"{type(e).__name__}({e.args!r}, source={e.source!r})"


def describe_detections(d):
    if d is None:
        return "None"
    return f"{type(d).__name__}(detections={d.detections!r}, condition={d.condition!r})"


def check(label, loader, doc, describe):
    """Load strictly and collecting, print both and verify the C07 relation."""
    global failures
    strict_exc = None
    strict_obj = None
    try:
        strict_obj = loader(copy.deepcopy(doc), False)
    except SigmaError as e:
        strict_exc = e
    except Exception as e:  # property violation
        failures += 1
        print(f"{label}: STRICT NON-SIGMA {type(e).__name__}: {e}")
        return
    try:
        coll_obj = loader(copy.deepcopy(doc), True)
    except Exception as e:  # property violation
        failures += 1
        print(f"{label}: COLLECT RAISED {type(e).__name__}: {e}")
        return
    errors = list(coll_obj.errors)
    ok = (bool(errors) == (strict_exc is not None)) and (
        strict_exc is None or errors[0] == strict_exc
    )
    if not ok:
        failures += 1
    print(f"{label}:")
    print("   strict :", describe_exc(strict_exc) if strict_exc else "ok " + describe(strict_obj))
    print("   collect:", [describe_exc(e) for e in errors], describe(coll_obj))
    print("   relation holds:", ok)


BASE_RULE = {
    "title": "Test",
    "id": "9a6cafa7-1481-4e64-89a1-1f69ed08618c",
    "logsource": {"category": "process_creation", "product": "windows"},
    "detection": {"sel": {"Image|endswith": "\\cmd.exe"}, "condition": "sel"},
}

DETECTIONS = [
    ("valid", {"sel": {"a": 1}, "condition": "sel"}),
    ("missing", "__delete__"),
    ("none", None),
    ("string", "sel"),
    ("int", 5),
    ("list", [{"sel": {"a": 1}}, "condition"]),
    ("empty map", {}),
    ("no condition", {"sel": {"a": 1}}),
    ("only condition", {"condition": "sel"}),
    ("condition none", {"sel": {"a": 1}, "condition": None}),
    ("condition int", {"sel": {"a": 1}, "condition": 1}),
    ("condition empty list", {"sel": {"a": 1}, "condition": []}),
    ("condition list", {"sel": {"a": 1}, "other": {"b": 2}, "condition": ["sel", "other"]}),
    ("condition list mixed", {"sel": {"a": 1}, "condition": ["sel", 2]}),
    ("condition list nested", {"sel": {"a": 1}, "condition": [["sel"]]}),
    ("condition map", {"sel": {"a": 1}, "condition": {"x": "sel"}}),
    ("condition empty string", {"sel": {"a": 1}, "condition": ""}),
    ("condition unparsable", {"sel": {"a": 1}, "condition": "sel and ("}),
    ("condition unknown id", {"sel": {"a": 1}, "condition": "nosuch"}),
    ("sel plain string", {"sel": "keyword", "condition": "sel"}),
    ("sel plain int", {"sel": 42, "condition": "sel"}),
    ("sel plain float", {"sel": 4.5, "condition": "sel"}),
    ("sel plain bool", {"sel": True, "condition": "sel"}),
    ("sel none", {"sel": None, "condition": "sel"}),
    ("sel empty list", {"sel": [], "condition": "sel"}),
    ("sel empty map", {"sel": {}, "condition": "sel"}),
    ("sel list of plain", {"sel": ["a", 1, 2.5, None, False], "condition": "sel"}),
    ("sel list of maps", {"sel": [{"a": 1}, {"b|contains": "x"}], "condition": "sel"}),
    ("sel list mixed", {"sel": ["a", {"b": 1}], "condition": "sel"}),
    ("sel list nested lists", {"sel": [["a", "b"], ["c"]], "condition": "sel"}),
    ("sel list with empty list", {"sel": ["a", []], "condition": "sel"}),
    ("sel list with empty map", {"sel": [{"a": 1}, {}], "condition": "sel"}),
    ("sel tuple", {"sel": ("a", "b"), "condition": "sel"}),
    ("sel set", {"sel": {"a", "b"}, "condition": "sel"}),
    ("sel bytes", {"sel": b"abc", "condition": "sel"}),
    ("sel ordered dict", {"sel": OrderedDict([("a", 1), ("b|startswith", "x")]), "condition": "sel"}),
    ("key int", {"sel": {1: "a"}, "condition": "sel"}),
    ("key none", {"sel": {None: "a"}, "condition": "sel"}),
    ("key bool", {"sel": {True: "a"}, "condition": "sel"}),
    ("key tuple", {"sel": {("a", "b"): "a"}, "condition": "sel"}),
    ("key empty", {"sel": {"": "a"}, "condition": "sel"}),
    ("key only modifier", {"sel": {"|contains": "a"}, "condition": "sel"}),
    ("key only pipe", {"sel": {"|": "a"}, "condition": "sel"}),
    ("key trailing pipe", {"sel": {"a|": "x"}, "condition": "sel"}),
    ("key double pipe", {"sel": {"a||contains": "x"}, "condition": "sel"}),
    ("unknown modifier", {"sel": {"a|foobar": "x"}, "condition": "sel"}),
    ("unknown modifier second", {"sel": {"a|contains|nope|all": "x"}, "condition": "sel"}),
    ("modifier chain", {"sel": {"a|contains|all": ["x", "y"]}, "condition": "sel"}),
    ("re string", {"sel": {"a|re": "x.*"}, "condition": "sel"}),
    ("re list strings", {"sel": {"a|re": ["x.*", "1", "true"]}, "condition": "sel"}),
    ("re int", {"sel": {"a|re": 1}, "condition": "sel"}),
    ("re list mixed", {"sel": {"a|re": ["x", 1]}, "condition": "sel"}),
    ("re none", {"sel": {"a|re": None}, "condition": "sel"}),
    ("re empty list", {"sel": {"a|re": []}, "condition": "sel"}),
    ("re invalid regex", {"sel": {"a|re": "(("}, "condition": "sel"}),
    ("re with flags", {"sel": {"a|re|i": "x"}, "condition": "sel"}),
    ("re keyword", {"sel": {"|re": "abc.*"}, "condition": "sel"}),
    ("re wildcard string", {"sel": {"a|re": "a*b?c\\*"}, "condition": "sel"}),
    ("contains int", {"sel": {"a|contains": 1}, "condition": "sel"}),
    ("base64 int", {"sel": {"a|base64": 1}, "condition": "sel"}),
    ("cidr bad", {"sel": {"a|cidr": "999.1.1.1/99"}, "condition": "sel"}),
    ("lt string", {"sel": {"a|lt": "x"}, "condition": "sel"}),
    ("value map", {"sel": {"a": {"b": 1}}, "condition": "sel"}),
    ("value nested list", {"sel": {"a": [["x"]]}, "condition": "sel"}),
    ("value list with map", {"sel": {"a": ["x", {"y": 1}]}, "condition": "sel"}),
    ("value empty list", {"sel": {"a": []}, "condition": "sel"}),
    ("value none", {"sel": {"a": None}, "condition": "sel"}),
    ("value bool", {"sel": {"a": False}, "condition": "sel"}),
    ("value numeric string", {"sel": {"a": "123"}, "condition": "sel"}),
    ("value wildcards", {"sel": {"a": "*x?y\\*"}, "condition": "sel"}),
    ("keyword null no field", {"sel": {"": []}, "condition": "sel"}),
    ("name int", {1: {"a": 1}, "condition": "1"}),
    ("name none", {None: {"a": 1}, "condition": "sel"}),
    ("condition key among many", {"a": "x", "condition": "a or b", "b": ["y", "z"]}),
]


def rule_loader(doc, collect):
    return SigmaRule.from_dict(doc, collect_errors=collect)


def rule_loader_src(doc, collect):
    return SigmaRule.from_dict(
        doc, collect_errors=collect, source=SigmaRuleLocation("/tmp/x.yml", 3, 4)
    )


def describe_rule(r):
    return describe_detections(r.detection)


print("==== SigmaRule.from_dict with mutated detection sections")
for label, detection in DETECTIONS:
    doc = copy.deepcopy(BASE_RULE)
    if isinstance(detection, str) and detection == "__delete__":
        del doc["detection"]
    else:
        doc["detection"] = detection
    check("rule/" + label, rule_loader, doc, describe_rule)

print("==== with a source location")
for label in ("unknown modifier", "re int", "key int", "no condition", "sel set", "valid"):
    doc = copy.deepcopy(BASE_RULE)
    doc["detection"] = dict(DETECTIONS)[label]
    check("rule+source/" + label, rule_loader_src, doc, describe_rule)

print("==== several errors at once: order of collected errors")
doc = copy.deepcopy(BASE_RULE)
doc["id"] = "no-uuid"
doc["level"] = "bogus"
doc["logsource"] = []
doc["detection"] = {"sel": {"a|re": 5}, "condition": "sel"}
check("rule/multi", rule_loader, doc, describe_rule)

print("==== SigmaFilter.from_dict with mutated rule conditions")
BASE_FILTER = {
    "title": "Filter",
    "logsource": {"category": "process_creation"},
    "filter": {"rules": ["r1"], "sel": {"User|startswith": "adm_"}, "condition": "not sel"},
}


def filter_loader(doc, collect):
    return SigmaFilter.from_dict(doc, collect_errors=collect)


def describe_filter(f):
    flt = f.filter
    return f"{type(flt).__name__}(detections={getattr(flt, 'detections', None)!r}, condition={getattr(flt, 'condition', None)!r})"


for label, flt in [
    ("valid", BASE_FILTER["filter"]),
    ("unknown modifier", {"rules": ["r1"], "sel": {"a|zzz": 1}, "condition": "sel"}),
    ("re int", {"rules": ["r1"], "sel": {"a|re": 1}, "condition": "sel"}),
    ("key int", {"rules": ["r1"], "sel": {7: 1}, "condition": "sel"}),
    ("sel set", {"rules": ["r1"], "sel": {1, 2}, "condition": "sel"}),
    ("sel empty", {"rules": ["r1"], "sel": {}, "condition": "sel"}),
    ("condition list", {"rules": ["r1"], "sel": {"a": 1}, "condition": ["sel"]}),
    ("condition int", {"rules": ["r1"], "sel": {"a": 1}, "condition": 3}),
    ("no condition", {"rules": ["r1"], "sel": {"a": 1}}),
    ("filter list", ["x"]),
    ("filter none", None),
]:
    doc = copy.deepcopy(BASE_FILTER)
    doc["filter"] = flt
    check("filter/" + label, filter_loader, doc, describe_filter)

print("==== SigmaCollection.from_dicts")


def coll_loader(docs, collect):
    return SigmaCollection.from_dicts(docs, collect_errors=collect)


def describe_coll(c):
    return "rules=" + repr(
        [describe_detections(getattr(r, "detection", None)) for r in c.rules]
    )


docs = []
for label in ("valid", "unknown modifier", "re list mixed", "sel list of maps", "key none"):
    doc = copy.deepcopy(BASE_RULE)
    doc["detection"] = dict(DETECTIONS)[label]
    docs.append(doc)
check("collection/mixed", coll_loader, docs, describe_coll)
check("collection/good only", coll_loader, [docs[0], docs[3]], describe_coll)

print("==== direct calls of the detection parsing functions")


def direct(label, fn, *args):
    global failures
    try:
        res = fn(*args)
        print(f"{label}: ok {res!r}")
    except SigmaError as e:
        print(f"{label}: {describe_exc(e)}")
    except Exception as e:
        # only reported, callers of these functions map TypeError/KeyError/AttributeError
        print(f"{label}: non-sigma {type(e).__name__}: {e}")


loc = SigmaRuleLocation("/tmp/y.yml", 1)
for key, val in [
    (None, "kw"),
    (None, ["kw", 1, None]),
    (None, []),
    ("", "x"),
    ("|", "x"),
    ("f", "x"),
    ("f|", "x"),
    ("f|contains|all", ["a", "b"]),
    ("f|re", "a.*"),
    ("f|re", ["1", "2"]),
    ("f|re", 1),
    ("f|re", [None]),
    ("f|re", []),
    ("f|re|m|s", "x"),
    ("f|all|re", [1]),
    ("f|nomod|re", [1]),
    ("f|re|nomod", [1]),
    (1, "x"),
    (1.5, "x"),
    (False, "x"),
    ((1, 2), "x"),
    ("f", {"a": 1}),
    ("f", (1, 2)),
    ("f", [[1]]),
    ("f", 1.5),
    ("f", True),
    ("f|exists", True),
    ("f|exists", "yes"),
    ("f|fieldref", "g"),
    ("f|expand", "%x%"),
    ("f|windash", "-a"),
    ("f|gt", 5),
]:
    direct(f"from_mapping({key!r}, {val!r})", SigmaDetectionItem.from_mapping, key, val, loc)
    direct(f"from_mapping({key!r}, {val!r}) nosrc", SigmaDetectionItem.from_mapping, key, val)

for definition in [
    {"a": 1},
    {},
    OrderedDict(a=1),
    "x",
    1,
    1.5,
    True,
    None,
    [],
    ["a", 1],
    [True, None],
    [{"a": 1}, {"b": 2}],
    ["a", {"b": 2}],
    [["a"], ["b", 1]],
    [[]],
    [{}],
    ("a",),
    {"a"},
    b"x",
    object,
    [b"x"],
    [("a",)],
    {"a|bad": 1},
    [{"a|re": 1}],
]:
    direct(f"from_definition({definition!r})", SigmaDetection.from_definition, definition, loc)

for d in [
    {"sel": {"a": 1}, "condition": "sel"},
    {"sel": {"a": 1}, "condition": ["sel"]},
    {"sel": {"a": 1}, "condition": ["sel", "not sel"]},
    {"sel": {"a": 1}, "condition": ("sel",)},
    {"sel": {"a": 1}, "condition": []},
    {"sel": {"a": 1}, "condition": None},
    {"sel": {"a": 1}, "condition": [None]},
    {"sel": {"a": 1}},
    {"condition": "sel"},
    {},
    [],
    ["condition"],
    "condition",
    None,
    5,
    OrderedDict([("condition", "sel"), ("sel", ["x"])]),
]:
    direct(f"SigmaDetections.from_dict({d!r})", SigmaDetections.from_dict, d, loc)


class ListSubclass(list):
    pass


class StrSubclass(str):
    pass


class IntSubclass(int):
    pass


print("==== subclass instances of plain types")
direct("list subclass plain", SigmaDetection.from_definition, ListSubclass(["a", "b"]))
direct("list of str subclass", SigmaDetection.from_definition, [StrSubclass("a"), "b"])
direct("str subclass", SigmaDetection.from_definition, StrSubclass("a"))
direct("int subclass", SigmaDetection.from_definition, IntSubclass(3))
direct("list of int subclass", SigmaDetection.from_definition, [IntSubclass(3)])
direct("str subclass key", SigmaDetectionItem.from_mapping, StrSubclass("f|contains"), "x")
direct("str subclass empty key", SigmaDetectionItem.from_mapping, StrSubclass(""), "x")
direct("list subclass value", SigmaDetectionItem.from_mapping, "f", ListSubclass(["a"]))
direct("list subclass re", SigmaDetectionItem.from_mapping, "f|re", ListSubclass(["a", 2]))
direct(
    "list subclass condition",
    SigmaDetections.from_dict,
    {"sel": {"a": 1}, "condition": ListSubclass(["sel"])},
)

print("failures:", failures)
sys.exit(1 if failures else 0)
