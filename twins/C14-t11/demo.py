"""Demo for C14/t11: nested post-processing, nested finalizers and back-pointers.

Prints everything it observes; output must be identical on clean HEAD and with the patch.
"""
import copy
import itertools
import json

from sigma.backends.test import TextQueryTestBackend
from sigma.collection import SigmaCollection
from sigma.exceptions import SigmaConfigurationError, SigmaTransformationError
from sigma.processing.finalization import (
    ConcatenateQueriesFinalizer,
    JSONFinalizer,
    NestedFinalizer,
    YAMLFinalizer,
)
from sigma.processing.pipeline import ProcessingPipeline, QueryPostprocessingItem
from sigma.processing.postprocessing import (
    EmbedQueryInJSONTransformation,
    EmbedQueryTransformation,
    NestedQueryPostprocessingTransformation,
    ReplaceQueryTransformation,
)
from sigma.processing.resolver import ProcessingPipelineResolver

RULES = """
title: Rule A
id: 11111111-1111-1111-1111-111111111111
status: test
logsource:
    category: process_creation
    product: windows
detection:
    sel:
        fieldA: valueA
        fieldC|contains: foo
    condition: sel
---
title: Rule B
id: 22222222-2222-2222-2222-222222222222
status: test
logsource:
    category: network_connection
    product: linux
detection:
    sel1:
        fieldB: 1
    sel2:
        fieldA:
            - x
            - y
    condition: sel1 or sel2
"""

DEFS = {
    "p1": {
        "name": "p1",
        "priority": 10,
        "vars": {"v": "p1", "only1": 1},
        "transformations": [
            {"id": "t1", "type": "field_name_mapping", "mapping": {"fieldA": "mappedA"}},
        ],
        "postprocessing": [
            {"id": "e1", "type": "embed", "prefix": "[", "suffix": "]"},
            {
                "id": "n1",
                "type": "nest",
                "items": [
                    {"id": "n1a", "type": "replace", "pattern": "mapped", "replacement": "M"},
                    {
                        "id": "n1b",
                        "type": "embed",
                        "prefix": "win<",
                        "suffix": ">",
                        "rule_conditions": [{"type": "logsource", "product": "windows"}],
                    },
                    {
                        "id": "n1c",
                        "type": "nest",
                        "items": [
                            {"id": "n1c1", "type": "embed", "prefix": "(", "suffix": ")"},
                            {"type": "embed", "prefix": "~", "suffix": "~"},
                        ],
                    },
                ],
            },
        ],
        "finalizers": [
            {
                "type": "nested",
                "finalizers": [
                    {"type": "concat", "separator": " ;; ", "prefix": "<<", "suffix": ">>"},
                ],
            }
        ],
    },
    "p2": {
        "name": "p2",
        "priority": 10,
        "vars": {"v": "p2", "only2": 2},
        "transformations": [
            {"id": "t2", "type": "field_name_prefix", "prefix": "x."},
        ],
        "postprocessing": [
            {
                "id": "j2",
                "type": "json",
                "json_template": '{"q": "%QUERY%", "l": ["%QUERY%", 1, 2.5, null, {"k": "%QUERY%", "z": "%query%"}], "n": 0}',
            },
        ],
        "finalizers": [],
    },
    "p3": {
        "name": "p3",
        "priority": 5,
        "vars": {"v": "p3"},
        "transformations": [
            {
                "id": "t3",
                "type": "add_condition",
                "conditions": {"idx": "main"},
                "rule_conditions": [{"type": "logsource", "product": "linux"}],
            },
        ],
        "postprocessing": [
            {"id": "s3", "type": "simple_template", "template": "{rule.title}: {query}"},
        ],
        "finalizers": [
            {"type": "json", "indent": 1},
            {
                "type": "nested",
                "finalizers": [
                    {"type": "nested", "finalizers": [{"type": "yaml"}]},
                    {
                        "type": "template",
                        "template": "{{ queries | upper }}|{{ pipeline.vars.v }}",
                        "allow_template_vars": True,
                    },
                ],
            },
        ],
    },
    "p4": {"name": "p4", "priority": 20, "vars": {}, "transformations": []},
    "p5": {
        "name": "p5",
        "priority": 5,
        "transformations": [],
        "postprocessing": [
            {"type": "nest", "items": []},
            {"id": "r5", "type": "replace", "pattern": r"\s+", "replacement": " "},
        ],
        "finalizers": [{"type": "nested", "finalizers": []}],
    },
}


def build_item(d):
    """Query post-processing item from a definition; 'nest' is built recursively by hand because
    pipeline definitions don't support it."""
    if d["type"] != "nest":
        return QueryPostprocessingItem.from_dict(d)
    if all(i["type"] != "nest" for i in d["items"]):
        transformation = NestedQueryPostprocessingTransformation.from_dict({"items": d["items"]})
    else:
        transformation = NestedQueryPostprocessingTransformation(
            items=[build_item(i) for i in d["items"]]
        )
    return QueryPostprocessingItem(transformation, identifier=d.get("id"))


def make(name):
    d = copy.deepcopy(DEFS[name])
    pp_defs = d.pop("postprocessing", [])
    base = ProcessingPipeline.from_dict(d)
    base._clear_pipeline()
    return ProcessingPipeline(
        base.items,
        [build_item(i) for i in pp_defs],
        base.finalizers,
        base.vars,
        base.priority,
        base.name,
    )


def rules():
    return SigmaCollection.from_yaml(RULES)


def convert(user_pipeline, output_format=None):
    backend = TextQueryTestBackend(user_pipeline)
    result = backend.convert(rules(), output_format)
    last = backend.last_processing_pipeline
    return result, last.applied, sorted(last.applied_ids), dict(sorted(last.vars.items(), key=str))


def show(label, value):
    print(f"{label}: {value!r}")


def attempt(label, fn):
    try:
        show(label, fn())
    except Exception as e:  # noqa
        print(f"{label}: raised {type(e).__name__}: {e}")


def bracketings(names):
    """All bracketings of '+' over freshly built pipelines."""
    if len(names) == 1:
        yield names[0], (lambda n=names[0]: make(n))
        return
    for i in range(1, len(names)):
        for ltxt, lf in bracketings(names[:i]):
            for rtxt, rf in bracketings(names[i:]):
                yield f"({ltxt}+{rtxt})", (lambda lf=lf, rf=rf: lf() + rf())


print("== single pipelines ==")
for name in DEFS:
    attempt(f"convert {name}", lambda: convert(make(name)))
    attempt(f"convert {name} fmt=test", lambda: convert(make(name), "test"))

print("== all bracketings of + ==")
for names in (["p1", "p2"], ["p2", "p1"], ["p1", "p2", "p3"], ["p3", "p5", "p1", "p2"], ["p5", "p4", "p5"]):
    results = {}
    for txt, build in bracketings(names):
        attempt(f"convert {txt}", lambda: results.setdefault(txt, convert(build())))
    print("all bracketings equal:", len({repr(v) for v in results.values()}) == 1)

print("== identity ==")
attempt("p1 + empty", lambda: convert(make("p1") + ProcessingPipeline()))
attempt("empty + p1", lambda: convert(ProcessingPipeline() + make("p1")))
attempt("p1 + None", lambda: convert(make("p1") + None))
attempt("sum([p3, p1])", lambda: convert(sum([make("p3"), make("p1")])))

print("== resolver, every order, same objects resolved repeatedly ==")
objs = {name: make(name) for name in DEFS}
resolver = ProcessingPipelineResolver(objs)
for k in (1, 2, 3):
    seen = set()
    for perm in itertools.permutations(sorted(DEFS), k):
        if k == 3 and perm[0] > "p2":
            continue
        resolved = resolver.resolve(list(perm))
        out = convert(resolved)
        key = (tuple(sorted(perm)), repr(out))
        seen.add(key)
        if k < 3:
            show(f"resolve {perm}", out)
    print(f"k={k}: distinct (set, result) pairs = {len(seen)}")
attempt("resolve twice the same name", lambda: convert(resolver.resolve(["p1", "p1"])))

print("== back-pointers ==")
p = make("p1") + make("p3")
for f in p.finalizers:
    show(type(f).__name__ + " owned by result", f._pipeline is p)
nested = [f for f in p.finalizers if isinstance(f, NestedFinalizer)]
for nf in nested:
    for inner in nf.finalizers:
        show("  inner " + type(inner).__name__ + " owned by nested pipeline", inner._pipeline is nf._nested_pipeline)
for it in p.postprocessing_items:
    show(f"item {it.identifier} owned", (it._pipeline is p, it.transformation._pipeline is p))
    tr = it.transformation
    if isinstance(tr, NestedQueryPostprocessingTransformation):
        for sub in tr.items:
            show(f"  sub {sub.identifier} owned by nested", sub._pipeline is tr._nested_pipeline)
fin = ConcatenateQueriesFinalizer(separator=",")
show("fresh finalizer pipeline", fin._pipeline)
pp = ProcessingPipeline(finalizers=[fin])
show("after construction", fin._pipeline is pp)
attempt("set_pipeline twice", lambda: fin.set_pipeline(pp))
show("still owned by first", fin._pipeline is pp)
attempt("second pipeline with same finalizer", lambda: ProcessingPipeline(finalizers=[fin]))
q = pp + ProcessingPipeline(finalizers=[JSONFinalizer()])
show("re-owned after +", (fin._pipeline is q, fin._pipeline is pp))
show("finalize", q.finalize(["a", "b"]))

print("== nested post-processing without and with owner ==")
rule = rules().rules[0]
tr = NestedQueryPostprocessingTransformation(
    items=[
        QueryPostprocessingItem(EmbedQueryTransformation("a", "b"), identifier="x1"),
        QueryPostprocessingItem(ReplaceQueryTransformation("q", "Q"), identifier="x2"),
        QueryPostprocessingItem(EmbedQueryTransformation("c", "d")),
    ]
)
show("no owner", (tr.apply(rule, "q"), tr._pipeline, sorted(tr._nested_pipeline.applied_ids)))
owner = ProcessingPipeline(postprocessing_items=[QueryPostprocessingItem(tr, identifier="outer")])
owner.applied_ids.add("kept")
show("owner", (owner.postprocess_query(rule, "qq"), sorted(owner.applied_ids), sorted(tr._nested_pipeline.applied_ids)))
show("owner again", (owner.postprocess_query(rule, ""), sorted(owner.applied_ids)))
attempt("embed non-string", lambda: EmbedQueryTransformation("a", "b").apply(rule, 5))
attempt("embed non-string list", lambda: EmbedQueryTransformation("a", "b").apply(rule, ["x"]))
attempt("nested with non-string", lambda: tr.apply(rule, None))
show("ids after failure", (sorted(owner.applied_ids), sorted(tr._nested_pipeline.applied_ids)))

print("== json embedding ==")
for tmpl in ('"%QUERY%"', '["%QUERY%", ["%QUERY%", {"a": ["%QUERY%"]}], "x%QUERY%"]', '{"%QUERY%": "%QUERY%", "b": true, "c": null, "d": 1.5}', "3", '{}', '[]'):
    t = EmbedQueryInJSONTransformation(tmpl)
    for query in ("f=1", 'a="b"', "", {"d": ["%QUERY%"]}, ["%QUERY%"], 7):
        attempt(f"json {tmpl} <- {query!r}", lambda: t.apply(rule, query))
    show("template untouched", t.parsed_json)
attempt("json bad template", lambda: EmbedQueryInJSONTransformation("{"))

print("== from_dict error paths and side effects ==")
d = {"finalizers": [{"type": "concat", "separator": "-", "allow_template_vars": True, "vars_allowed_paths": ("/",), "allow_external_sources": True}, {"type": "nested", "finalizers": [{"type": "json", "indent": 2, "allow_template_vars": 1}]}]}
attempt("nested from_dict", lambda: NestedFinalizer.from_dict(d))
show("definition after from_dict", d)
attempt("apply it", lambda: NestedFinalizer.from_dict({"finalizers": [{"type": "concat", "separator": "-"}, {"type": "nested", "finalizers": [{"type": "json"}]}]}).apply(["a", "b"]))
attempt("no finalizers key", lambda: NestedFinalizer.from_dict({"x": 1}))
d2 = {"finalizers": [{"type": "json"}, {"separator": "x", "allow_template_vars": True}, {"type": "yaml"}]}
attempt("missing type", lambda: NestedFinalizer.from_dict(d2))
show("definition after failure", d2)
d3 = {"finalizers": [{"type": "concat"}, {"type": "nope", "vars_allowed_paths": 1}, {"type": "yaml"}]}
attempt("unknown type", lambda: NestedFinalizer.from_dict(d3))
show("definition after failure", d3)
attempt("bad parameter", lambda: NestedFinalizer.from_dict({"finalizers": [{"type": "concat", "foo": 1}]}))
attempt("template without template", lambda: NestedFinalizer.from_dict({"finalizers": [{"type": "template"}]}))
attempt("template kwargs", lambda: (lambda f: (f.finalizers[0].allow_template_vars, f.finalizers[0].vars_allowed_paths, f.apply(["q"])))(NestedFinalizer.from_dict({"finalizers": [{"type": "template", "template": "{{ queries }}", "allow_template_vars": True}]}, allow_template_vars=False, vars_allowed_paths=("/nonexistent",))))
attempt("non-dict entry", lambda: NestedFinalizer.from_dict({"finalizers": ["concat"]}))
attempt("finalizers None", lambda: NestedFinalizer.from_dict({"finalizers": None}))
attempt("nest from_dict no items", lambda: NestedQueryPostprocessingTransformation.from_dict({}))
attempt("nest from_dict bad item", lambda: NestedQueryPostprocessingTransformation.from_dict({"items": [{"id": "a"}]}))
attempt("nest from_dict unknown item", lambda: NestedQueryPostprocessingTransformation.from_dict({"items": [{"type": "zzz"}]}))
attempt("nest from_dict ok", lambda: NestedQueryPostprocessingTransformation.from_dict({"items": [{"type": "embed", "prefix": "<", "id": "k"}]}).apply(rule, "q"))
attempt("pipeline missing finalizer type", lambda: ProcessingPipeline.from_dict({"finalizers": [{"type": "nested", "finalizers": [{}]}]}))
print("done")
