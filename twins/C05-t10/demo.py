"""Demo for C05/t10: SigmaString.startswith/endswith/contains_special/__len__ and
TextQueryBackend.decide_string_quoting, observed directly and through the renderings."""
import itertools
import re

from sigma.collection import SigmaCollection
from sigma.conversion.base import TextQueryBackend
from sigma.conversion.state import ConversionState
from sigma.types import Placeholder, SigmaCasedString, SigmaString, SpecialChars

from sigma.backends.test import TextQueryTestBackend


def show(*args):
    print(*[repr(a) if not isinstance(a, str) else a for a in args])


def attempt(f):
    try:
        return f()
    except Exception as e:  # noqa: BLE001
        return f"{type(e).__name__}: {e}"


SOURCES = [
    "", "*", "?", "**", "*?", "a", "abc", "*abc", "abc*", "*abc*", "?abc?", "a*b", "a?b*",
    "\\*abc", "abc\\*", "abc\\\\*", "\\\\", "\\", "a\\", "\\?x\\?", "*a\\*", '"q"*', "'*'",
    "*a b*", "a.b$c^*", "*[x](y){z}|+", "%ph%abc*", "äöü*", "* ", "* ", " *",
]
PROBES = [
    SpecialChars.WILDCARD_MULTI, SpecialChars.WILDCARD_SINGLE, "", "a", "abc", "*", "\\", "c", "ä",
    Placeholder("ph"), Placeholder("other"),
]

print("== parts / len / contains_special / startswith / endswith")
for src in SOURCES:
    variants = [SigmaString(src), SigmaString(src, escape=False), SigmaCasedString(src)]
    if "%" in src:
        variants.append(SigmaString(src).insert_placeholders())
    for s in variants:
        show(type(s).__name__, repr(src), s.s, len(s), s.contains_special())
        show("  sw", [attempt(lambda: s.startswith(p)) for p in PROBES])
        show("  ew", [attempt(lambda: s.endswith(p)) for p in PROBES])

print("== odd probes")
weird = SigmaString("abc*")
for p in [None, 1, b"a", ("a", "b"), SigmaString("a"), ["a"]]:
    show(repr(p), attempt(lambda: weird.startswith(p)), attempt(lambda: weird.endswith(p)),
         attempt(lambda: SigmaString("*x").startswith(p)), attempt(lambda: SigmaString("x?").endswith(p)))
hand = SigmaString()
hand.s = [Placeholder("p"), "mid", SpecialChars.WILDCARD_SINGLE, 5]
show(len(hand), hand.contains_special(), attempt(lambda: hand.startswith(Placeholder("p"))),
     attempt(lambda: hand.startswith(Placeholder("q"))), attempt(lambda: hand.endswith(5)),
     attempt(lambda: hand.endswith(True)), attempt(lambda: hand.endswith("5")))
empty = SigmaString()
empty.s = []
show(len(empty), empty.contains_special(), empty.startswith(""), empty.endswith(""))

print("== slicing driven by len()")
for src in ["*abc*", "a*b?c", "\\*x*", "ab", "*"]:
    s = SigmaString(src)
    for idx in [slice(None, -1), slice(1, None), slice(1, -1), -1, 0, slice(-2, None), slice(0, len(s)), slice(0, len(s) + 1), 7]:
        show(repr(src), idx, attempt(lambda: s[idx].s), attempt(lambda: s[idx].to_plain()))

print("== decide_string_quoting / convert_value_str")
state = ConversionState()
CONFIGS = [
    dict(),
    dict(str_quote=""),
    dict(str_quote="'"),
    dict(str_quote_pattern=None),
    dict(str_quote_pattern=re.compile(r"^\w+$"), str_quote_pattern_negation=True),
    dict(str_quote_pattern=re.compile(r"^\w+$"), str_quote_pattern_negation=False),
    dict(str_quote_pattern=re.compile(r".*\s"), str_quote_pattern_negation=False),
    dict(str_quote_pattern=re.compile(r""), str_quote_pattern_negation=True),
    dict(str_quote="", str_quote_pattern=re.compile(r".*"), str_quote_pattern_negation=False),
    dict(str_quote="|", str_quote_pattern=re.compile(r"^$"), str_quote_pattern_negation=1),
    dict(str_quote="|", str_quote_pattern=re.compile(r"^$"), str_quote_pattern_negation=0),
]
for n, cfg in enumerate(CONFIGS):
    backend = TextQueryTestBackend()
    for k, v in cfg.items():
        setattr(backend, k, v)
    show("config", n, sorted((k, getattr(v, "pattern", v)) for k, v in cfg.items()))
    for src in SOURCES:
        s = SigmaString(src)
        show("  ", repr(src), attempt(lambda: backend.decide_string_quoting(s)),
             attempt(lambda: backend.convert_value_str(s, state)))
    show("   bad part", attempt(lambda: backend.decide_string_quoting(hand)))

print("== whole rule conversion (startswith/endswith/contains/wildcard selection)")
VALUES = ["abc", "abc*", "*abc", "*abc*", "a*c", "*a*c", "a*c*", "*a?c*", "*", "**", "?", "abc\\*", "\\*abc", "*ab\\*", 'q"uo*', "*has space", "x\\\\*"]
for mod, val in itertools.product(["", "|cased"], VALUES):
    rule = f"""
title: T
status: test
logsource:
    category: test
detection:
    sel:
        "field name{mod}": '{val.replace("'", "''")}'
    condition: sel
"""
    show(repr(mod), repr(val), attempt(lambda: TextQueryTestBackend().convert(SigmaCollection.from_yaml(rule))))
