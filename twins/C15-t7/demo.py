"""Demo for C15 / t7: result of converting a probe rule after a history of other conversions.

Exercises convert_rule / convert_correlation_rule (fresh ConversionState per condition / raw query,
finalization tail, storing of conversion result and states) with histories that set pipeline state,
fail, use callbacks, collect errors, use correlation rules with and without generate.
"""

import sys
from typing import ClassVar

from sigma.backends.test import TextQueryTestBackend
from sigma.collection import SigmaCollection
from sigma.exceptions import SigmaError
from sigma.processing.pipeline import ProcessingPipeline
from sigma.rule import SigmaRule

PIPELINE = """
name: demo
priority: 10
transformations:
  - id: idx_win
    type: set_state
    key: index
    val: winidx
    rule_conditions:
      - type: logsource
        product: windows
  - id: map
    type: field_name_mapping
    mapping:
      fieldA: mappedA
      fieldB:
        - mappedB1
        - mappedB2
  - id: fail_on_bad
    type: rule_failure
    message: bad rule
    rule_conditions:
      - type: logsource
        category: bad
  - id: drop
    type: drop_detection_item
    field_name_conditions:
      - type: include_fields
        fields:
          - dropme
"""


def rule(title, product, detection, category=None, name=None, rid=None):
    ls = f"    product: {product}\n" + (f"    category: {category}\n" if category else "")
    head = f"title: {title}\n"
    if name:
        head += f"name: {name}\n"
    if rid:
        head += f"id: {rid}\n"
    return f"{head}status: test\nlogsource:\n{ls}detection:\n{detection}"


PROBE = rule(
    "probe",
    "windows",
    """    sel:
        fieldA: foo
        fieldB|contains: bar
    filter:
        fieldC: 1
        dropme: x
    condition:
        - sel and not filter
        - 1 of sel*
        - sel or filter
""",
)

PROBE_LINUX = rule(
    "probe linux",
    "linux",
    """    sel:
        fieldA:
            - foo
            - b*r
    filter:
        fieldC|exists: false
    condition: sel and not filter
""",
)

H_SAME_COND = rule(
    "same cond other values",
    "windows",
    """    sel:
        fieldA: other
    filter:
        fieldB: 2
    condition: sel and not filter
""",
)
H_FAIL_PIPELINE = rule(
    "failing in pipeline",
    "windows",
    """    sel:
        fieldA: foo
    condition: sel
""",
    category="bad",
)
H_FAIL_CONVERT = rule(
    "failing in conversion",
    "linux",
    """    sel:
        fieldA|re: 'a[bc'
    filter:
        fieldB|cidr: 10.0.0.0/8
    condition: sel and not filter
""",
)
H_BAD_CONDITION = rule(
    "bad condition",
    "windows",
    """    sel:
        fieldA: foo
    condition: sel and not missing
""",
)
H_UNBOUND = rule(
    "keyword and null",
    "windows",
    """    sel:
        - kw1
        - kw2
    filter:
        fieldA: null
    condition: sel and not filter
""",
)

CORRELATION = """
title: base one
name: base_one
status: test
logsource:
    product: windows
detection:
    sel:
        fieldA: foo
    condition: sel
---
title: base two
name: base_two
status: test
logsource:
    product: linux
detection:
    sel:
        fieldB: bar
    condition: sel
---
title: correlation
name: corr
status: test
correlation:
    type: event_count
    rules:
        - base_one
        - base_two
    group-by:
        - fieldA
    timespan: 5m
    condition:
        gte: 10
"""

CORRELATION_GENERATE = CORRELATION.replace(
    "correlation:\n    type: event_count", "correlation:\n    generate: true\n    type: event_count"
)

CORRELATION_NESTED = (
    CORRELATION
    + """---
title: outer
name: outer
status: test
correlation:
    type: temporal
    rules:
        - corr
        - base_two
    timespan: 1h
"""
)


class NotEqBackend(TextQueryTestBackend):
    convert_not_as_not_eq: ClassVar[bool] = True
    not_eq_token: ClassVar[str] = "!="
    not_eq_expression: ClassVar[str] = "{field}{backend.not_eq_token}{value}"


class FinalizingSubqueriesBackend(TextQueryTestBackend):
    finalize_correlation_subqueries = True


def describe_states(r):
    try:
        return [sorted(s.processing_state.items()) for s in r.get_conversion_states()]
    except SigmaError as e:
        return f"{type(e).__name__}"


def describe_result(r):
    try:
        return r.get_conversion_result()
    except SigmaError as e:
        return f"{type(e).__name__}"


def run(label, func):
    try:
        res = func()
        print(f"  {label}: OK {res!r}")
    except Exception as e:  # noqa: BLE001 - demo prints everything
        print(f"  {label}: {type(e).__name__}: {e}")


def probe(backend, text, fmt=None, callback=None):
    r = SigmaRule.from_yaml(text)
    out = backend.convert_rule(r, fmt, callback)
    states = r.get_conversion_states()
    distinct = len({id(s) for s in states}) == len(states)
    distinct_dicts = len({id(s.processing_state) for s in states}) == len(states)
    pipeline_state_shared = any(
        s.processing_state is backend.last_processing_pipeline.state for s in states
    )
    return (
        out,
        describe_result(r),
        describe_states(r),
        distinct,
        distinct_dicts,
        pipeline_state_shared,
        sorted(backend.last_processing_pipeline.applied_ids),
        backend.last_processing_pipeline.applied,
    )


def collection(backend, text, fmt=None, method=None, callback=None):
    coll = SigmaCollection.from_yaml(text)
    out = backend.convert(coll, fmt, method, callback)
    per_rule = [
        (str(r.title), describe_result(r), describe_states(r), bool(r._output)) for r in coll.rules
    ]
    return out, per_rule, [(str(r.title), type(e).__name__, str(e)) for r, e in backend.errors]


def cb_drop_second(rule, output_format, index, cond, result):
    return None if index == 1 else f"<{index}:{result}>"


def histories(backend_cls, **kw):
    def mk():
        return backend_cls(ProcessingPipeline.from_yaml(PIPELINE), **kw)

    def h_none(b):
        pass

    def h_same_cond(b):
        b.convert_rule(SigmaRule.from_yaml(H_SAME_COND))
        b.convert_rule(SigmaRule.from_yaml(H_UNBOUND), "state")

    def h_failures(b):
        for t in (H_FAIL_PIPELINE, H_FAIL_CONVERT, H_BAD_CONDITION):
            try:
                b.convert_rule(SigmaRule.from_yaml(t))
            except Exception as e:  # noqa: BLE001
                print(f"    history failure: {type(e).__name__}: {e}")

    def h_correlation(b):
        for t in (CORRELATION, CORRELATION_GENERATE, CORRELATION_NESTED):
            try:
                b.convert(SigmaCollection.from_yaml(t))
            except Exception as e:  # noqa: BLE001
                print(f"    history failure: {type(e).__name__}: {e}")

    def h_other_backend(b):
        other = backend_cls(b.processing_pipeline)
        other.convert_rule(SigmaRule.from_yaml(H_SAME_COND), "test")
        b.convert_rule(SigmaRule.from_yaml(PROBE_LINUX), "state")
        other.convert_rule(SigmaRule.from_yaml(PROBE), "state", cb_drop_second)

    def h_long(b):
        h_same_cond(b)
        h_failures(b)
        h_correlation(b)
        h_other_backend(b)

    return mk, [h_none, h_same_cond, h_failures, h_correlation, h_other_backend, h_long]


def main():
    for backend_cls, kw in (
        (TextQueryTestBackend, {}),
        (TextQueryTestBackend, {"collect_errors": True}),
        (NotEqBackend, {}),
        (FinalizingSubqueriesBackend, {}),
    ):
        mk, hs = histories(backend_cls, **kw)
        print(f"=== {backend_cls.__name__} {kw}")
        reference = {}
        for h in hs:
            print(f" history {h.__name__}")
            for plabel, text, fmt, cb in (
                ("probe/default", PROBE, None, None),
                ("probe/state", PROBE, "state", None),
                ("probe/test+cb", PROBE, "test", cb_drop_second),
                ("linux/state", PROBE_LINUX, "state", None),
                ("failing", H_FAIL_CONVERT, None, None),
                ("bad-cond", H_BAD_CONDITION, "state", None),
            ):
                b = mk()
                h(b)
                b.errors.clear()
                try:
                    res = ("OK", probe(b, text, fmt, cb))
                except Exception as e:  # noqa: BLE001
                    res = (type(e).__name__, str(e))
                res = (res, [(type(e).__name__, str(e)) for _, e in b.errors])
                print(f"  {plabel}: {res!r}")
                if h.__name__ == "h_none":
                    reference[plabel] = repr(res)
                else:
                    print(f"   same as fresh: {reference[plabel] == repr(res)}")
            for clabel, text, fmt in (
                ("corr", CORRELATION, None),
                ("corr-generate", CORRELATION_GENERATE, "state"),
                ("corr-nested", CORRELATION_NESTED, "test"),
                ("corr-unknown-method", CORRELATION, None),
            ):
                b = mk()
                h(b)
                b.errors.clear()
                method = "nosuch" if clabel == "corr-unknown-method" else None
                cb = cb_drop_second if clabel == "corr-nested" else None
                run(clabel, lambda: collection(b, text, fmt, method, cb))
    return 0


if __name__ == "__main__":
    sys.exit(main())
