"""Demo for property C02: condition text parses to the boolean function it spells."""
import itertools
import sys

import sigma.conditions as sc
from sigma.conditions import (
    ConditionAND,
    ConditionOR,
    ConditionNOT,
    ConditionIdentifier,
    ConditionSelector,
    ConditionFieldEqualsValueExpression,
    ConditionValueExpression,
    SigmaCondition,
)
from sigma.rule.detection import SigmaDetections
from sigma.exceptions import SigmaError

print("module:", sc.__name__)


def detections(names, condition="dummy"):
    d = {name: {"f": name} for name in names}
    d["condition"] = condition
    return SigmaDetections.from_dict(d)


def evaluate(node, assignment):
    if node is None:
        return None
    if isinstance(node, ConditionAND):
        return all([evaluate(a, assignment) for a in node.args])
    if isinstance(node, ConditionOR):
        return any([evaluate(a, assignment) for a in node.args])
    if isinstance(node, ConditionNOT):
        return not evaluate(node.args[0], assignment)
    if isinstance(node, ConditionFieldEqualsValueExpression):
        return assignment[str(node.value)]
    raise TypeError(type(node))


def shape(node):
    """Structural rendering of a tree (class names, identifiers, leaves, parent class)."""
    if node is None:
        return "None"
    parent = type(node.parent).__name__ if node.parent is not None else "-"
    if isinstance(node, ConditionIdentifier):
        return f"Id({node.identifier})^{parent}"
    if isinstance(node, ConditionSelector):
        return f"Sel({node.args[0]},{node.pattern},{node.cond_class.__name__})^{parent}"
    if isinstance(node, (ConditionAND, ConditionOR, ConditionNOT)):
        return (
            type(node).__name__[9:]
            + "("
            + ", ".join(shape(a) for a in node.args)
            + ")^"
            + parent
        )
    if isinstance(node, ConditionFieldEqualsValueExpression):
        return f"{node.field}={node.value}^{parent}"
    if isinstance(node, ConditionValueExpression):
        return f"val={node.value}^{parent}"
    return repr(node)


def truth_table(names, cond):
    dets = detections(names, cond)
    c = dets.parsed_condition[0]
    try:
        raw = c.parse(False)
        tree = c.parsed
    except SigmaError as e:
        return f"{type(e).__name__}: {e}"
    bits = ""
    for values in itertools.product([False, True], repeat=len(names)):
        bits += "1" if evaluate(tree, dict(zip(names, values))) else "0"
    return f"{bits}\n      raw : {shape(raw)}\n      tree: {shape(tree)}"


NAMES1 = ["a", "b", "c"]
CONDS1 = [
    "a",
    "not a",
    "a and b or c",
    "a or b and c",
    "not a and b",
    "not a or not b and c",
    "not (a or b) and c",
    "a and (b or c)",
    "a or b or c",
    "a and b and c",
    "a and not b and not c",
    "((a))",
    "not not a",
    "a and not (b and not (c or a))",
    "1 of them",
    "all of them",
    "any of them",
    "1 of a*",
    "all of *",
    "not 1 of them and a",
    "a or all of b* and c",
    "a and",
    "a b",
    "(a",
    "a | count() > 3",
    "d",
    "1 of x*",
    "2 of them",
]

NAMES2 = ["nothing", "android", "oracle", "allowed", "anyone", "often", "themselves", "sel1"]
CONDS2 = [
    "nothing",
    "not nothing",
    "android and oracle",
    "nothing or android and oracle",
    "not android and not oracle or allowed",
    "anyone and often",
    "themselves or sel1",
    "all of a*",
    "1 of an*",
    "any of o*",
    "1 of *e*",
    "all of *s",
    "1 of sel*",
    "all of *l*e*",
    "not 1 of o* and all of a*",
    "1 of them and not themselves",
    "1 of of*",
    "all of them",
]

NAMES3 = ["sel_a", "sel_b", "_hidden", "_filt_x1_sel", "_filt_x1_other", "_", "filter-1", "x_"]
CONDS3 = [
    "1 of them",
    "all of them",
    "1 of sel_*",
    "all of sel_*",
    "1 of *",
    "all of *_*",
    "1 of _*",
    "all of _*",
    "1 of _h*",
    "1 of _filt_*",
    "all of _filt_x1_*",
    "1 of _filt_x1_s*",
    "all of *sel*",
    "1 of *_",
    "1 of _",
    "all of x*",
    "1 of filter-*",
    "1 of *-1",
    "sel_a and not 1 of _filt_x1_*",
    "_hidden or _filt_x1_sel",
    "_ and x_",
    "1 of _f*",
    "1 of __*",
    "all of *other",
    "1 of *x1*",
    "any of _filt_x1_sel",
    "all of them and not 1 of _*",
]

for names, conds in ((NAMES1, CONDS1), (NAMES2, CONDS2), (NAMES3, CONDS3)):
    print("=== detections:", names)
    for cond in conds:
        print(f"  {cond!r}: {truth_table(names, cond)}")

# Selector resolution directly (constructed objects, also patterns the grammar cannot produce)
print("=== resolve_referenced_detections")
dets = detections(NAMES3 + ["a.b", "aXb", "them"])
for quant, pattern in [
    ("1", "them"),
    ("all", "*"),
    ("any", "_*"),
    ("1", "_filt_*"),
    ("1", "_filt*"),
    ("1", "_fil*"),
    ("all", "a.b"),
    ("all", "sel_a|sel_b"),
    ("1", ""),
    ("1", "**"),
    ("1", "_filt_"),
    ("1", "[_]*"),
    ("1", "(_filt_.*)"),
    ("1", "("),
]:
    try:
        sel = ConditionSelector([quant, pattern])
        ids = sel.resolve_referenced_detections(dets)
        print(f"  {quant} of {pattern!r}: {[i.identifier for i in ids]} {sel.cond_class.__name__}")
        print(f"     -> {shape(sel.postprocess(dets))}")
    except Exception as e:
        print(f"  {quant} of {pattern!r}: {type(e).__name__}: {e}")
try:
    ConditionSelector(["2", "x"])
except Exception as e:
    print("  bad quantifier:", type(e).__name__, e)

# ConditionItem.postprocess: collapse / drop / keep, built by hand (incl. None args)
print("=== ConditionItem.postprocess by hand")
dets = detections(["a", "b"])
marker = ConditionNOT([ConditionIdentifier(["a"])])
cases = {
    "AND[a]": lambda: ConditionAND([ConditionIdentifier(["a"])]),
    "OR[a,None]": lambda: ConditionOR([ConditionIdentifier(["a"]), None]),
    "AND[None,None]": lambda: ConditionAND([None, None]),
    "AND[]": lambda: ConditionAND([]),
    "NOT[None]": lambda: ConditionNOT([None]),
    "NOT[]": lambda: ConditionNOT([]),
    "NOT[a]": lambda: ConditionNOT([ConditionIdentifier(["a"])]),
    "NOT[a,b]": lambda: ConditionNOT([ConditionIdentifier(["a"]), ConditionIdentifier(["b"])]),
    "AND[a,b,a]": lambda: ConditionAND(
        [ConditionIdentifier(["a"]), ConditionIdentifier(["b"]), ConditionIdentifier(["a"])]
    ),
    "OR[AND[a],NOT[None]]": lambda: ConditionOR(
        [ConditionAND([ConditionIdentifier(["a"])]), ConditionNOT([None])]
    ),
    "AND[OR[None],b]": lambda: ConditionAND([ConditionOR([None]), ConditionIdentifier(["b"])]),
}
for label, make in cases.items():
    item = make()
    result = item.postprocess(dets, marker)
    print(
        f"  {label}: {shape(result)} | same object: {result is item} | "
        f"item.args={len(item.args)} item.parent={type(item.parent).__name__}"
    )

sys.exit(0)
