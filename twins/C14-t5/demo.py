"""
Demo for C14 / t5: stage order of a conversion (backend pipeline, user pipeline, output format
pipeline; transformations -> conversion -> query finalization + post-processing per query in item
order -> output finalization + finalizers once in order) observed with recording transformations,
post-processing items and finalizers.

Prints only deterministic values; the output must be identical with and without the patch.
"""

from collections import defaultdict
from dataclasses import dataclass, field
import sys
from typing import Any, ClassVar

from sigma.backends.test import TextQueryTestBackend
from sigma.collection import SigmaCollection
from sigma.exceptions import SigmaError, SigmaTransformationError
from sigma.processing.conditions import LogsourceCondition, RuleProcessingItemAppliedCondition
from sigma.processing.finalization import (
    ConcatenateQueriesFinalizer,
    Finalizer,
    NestedFinalizer,
)
from sigma.processing.pipeline import (
    ProcessingItem,
    ProcessingPipeline,
    QueryPostprocessingItem,
)
from sigma.processing.postprocessing import (
    EmbedQueryTransformation,
    NestedQueryPostprocessingTransformation,
    QueryPostprocessingTransformation,
    ReplaceQueryTransformation,
)
from sigma.processing.resolver import ProcessingPipelineResolver
from sigma.processing.transformations import (
    FieldMappingTransformation,
    RuleFailureTransformation,
    SetStateTransformation,
)
from sigma.processing.transformations.base import PreprocessingTransformation

LOG: list[str] = []


@dataclass
class RecordT(PreprocessingTransformation):
    tag: str
    fail: str | None = None

    def apply(self, rule):
        super().apply(rule)
        LOG.append(f"T:{self.tag}:{rule.title}")
        if self.fail == "sigma":
            raise SigmaTransformationError(f"failure in {self.tag}")
        if self.fail == "notimpl":
            raise NotImplementedError(f"not implemented in {self.tag}")
        if self.fail == "value":
            raise ValueError(f"value error in {self.tag}")
        if self.fail == "value2":
            raise ValueError(f"value error in {self.tag}", "second arg")


@dataclass
class RecordP(QueryPostprocessingTransformation):
    tag: str

    def apply(self, rule, query):
        super().apply(rule, query)
        LOG.append(f"P:{self.tag}:{rule.title}:{query}")
        return f"{self.tag}({query})"


@dataclass
class RecordF(Finalizer):
    tag: str = ""

    def apply(self, queries):
        LOG.append(f"F:{self.tag}:{queries!r}")
        if isinstance(queries, list):
            return queries + [f"finalized by {self.tag}"]
        return f"{self.tag}<{queries}>"


def pipe(tag, priority=0, fail=None, with_vars=True, cond=False):
    return ProcessingPipeline(
        items=[
            ProcessingItem(RecordT(tag + ".1", fail=fail), identifier=tag + "_t1"),
            ProcessingItem(
                RecordT(tag + ".2"),
                rule_conditions=[LogsourceCondition(product="windows")] if cond else [],
                identifier=tag + "_t2",
            ),
        ],
        postprocessing_items=[
            QueryPostprocessingItem(RecordP(tag + ".p1"), identifier=tag + "_p1"),
            QueryPostprocessingItem(
                RecordP(tag + ".p2"),
                rule_conditions=(
                    [RuleProcessingItemAppliedCondition(tag + "_t2")] if cond else []
                ),
                identifier=tag + "_p2",
            ),
        ],
        finalizers=[RecordF(tag + ".f1"), RecordF(tag + ".f2")],
        vars={"who": tag, tag: priority} if with_vars else {},
        priority=priority,
        name=tag,
    )


class Backend(TextQueryTestBackend):
    name: ClassVar[str] = "Recording backend"
    backend_processing_pipeline = ProcessingPipeline()  # replaced per instance
    output_format_processing_pipeline = defaultdict(ProcessingPipeline)

    def __init__(self, user=None, collect_errors=False, **kwargs):
        super().__init__(user, collect_errors, **kwargs)
        self.backend_processing_pipeline = pipe("backend")
        self.output_format_processing_pipeline = defaultdict(
            ProcessingPipeline, test=pipe("fmt_test"), str=pipe("fmt_str", with_vars=False)
        )

    def finalize_query_default(self, rule, query, index, state):
        LOG.append(f"Q:{rule.title}:{index}:{query}")
        return super().finalize_query_default(rule, query, index, state)

    def finalize_output_default(self, queries):
        LOG.append(f"O:{len(queries)}")
        return super().finalize_output_default(queries)


RULES = """
title: R1
id: 11111111-1111-1111-1111-111111111111
name: r1
status: test
logsource:
    product: windows
detection:
    sel:
        fieldA: valueA
        fieldC: valueC
    condition: sel
---
title: R2
id: 22222222-2222-2222-2222-222222222222
name: r2
status: test
logsource:
    product: linux
detection:
    a:
        fieldA: x
    b:
        fieldB: y
    condition:
        - a
        - a and b
        - not b
"""

CORRELATION = """
title: Base
name: base_rule
status: test
logsource:
    product: windows
detection:
    selection:
        EventID: 4625
    condition: selection
---
title: Corr
status: test
correlation:
    type: event_count
    rules:
        - base_rule
    generate: {generate}
    group-by:
        - User
    timespan: 5m
    condition:
        gte: 10
"""


def show(title, fn):
    LOG.clear()
    print(f"=== {title}")
    try:
        res = fn()
        print("result:", repr(res))
    except Exception as e:  # noqa
        print("exception:", type(e).__name__, e.args)
    for line in LOG:
        print("   ", line)


def tracking(backend):
    lp = backend.last_processing_pipeline
    print("    applied:", lp.applied)
    print("    applied_ids:", sorted(lp.applied_ids))
    print("    vars:", dict(lp.vars))
    print("    format:", backend.last_processing_pipeline_format)


def main():
    rules = lambda: SigmaCollection.from_yaml(RULES)

    # 1. all formats, with and without user pipeline
    for fmt in (None, "default", "test", "str"):
        for user in (None, "user"):
            b = Backend(pipe("user", cond=True) if user else None, opt="x")
            show(f"convert format={fmt} user={user}", lambda: b.convert(rules(), fmt))
            tracking(b)

    # 2. user pipeline from the resolver (priority order, all orders of naming) and as sum
    resolver = ProcessingPipelineResolver.from_pipeline_list(
        [pipe("u_late", 50), pipe("u_early", 10, cond=True), pipe("u_mid", 10)]
    )
    for specs in (["u_late", "u_early", "u_mid"], ["u_mid", "u_early", "u_late"]):
        resolver = ProcessingPipelineResolver.from_pipeline_list(
            [pipe("u_late", 50), pipe("u_early", 10, cond=True), pipe("u_mid", 10)]
        )
        b = Backend(resolver.resolve(specs))
        show(f"resolved {specs}", lambda: b.convert(rules(), "test"))
        tracking(b)
    b = Backend(pipe("u1") + (pipe("u2") + pipe("u3")))
    show("u1+(u2+u3)", lambda: b.convert(rules()))
    tracking(b)
    b = Backend((pipe("u1") + pipe("u2")) + pipe("u3"))
    show("(u1+u2)+u3", lambda: b.convert(rules()))
    tracking(b)

    # 3. convert_rule() directly: no pipeline initialized yet, pipeline reset to None, format
    # switch between calls, same format twice (pipeline object kept)
    b = Backend(pipe("user"))
    r = rules().rules
    show("convert_rule first call, no format", lambda: b.convert_rule(r[0]))
    first = b.last_processing_pipeline
    show("convert_rule same format again", lambda: b.convert_rule(r[1], "default"))
    print("    pipeline kept:", b.last_processing_pipeline is first)
    show("convert_rule other format", lambda: b.convert_rule(r[1], "test"))
    print("    pipeline kept:", b.last_processing_pipeline is first)
    tracking(b)
    second = b.last_processing_pipeline
    show("convert_rule back to None format", lambda: b.convert_rule(r[0], None))
    print("    pipeline kept:", b.last_processing_pipeline is second)
    b.last_processing_pipeline = None
    show("convert_rule after reset to None", lambda: b.convert_rule(r[0], "default"))
    print("    pipeline set:", b.last_processing_pipeline is not None)
    del b.last_processing_pipeline_format
    third = b.last_processing_pipeline
    show("convert_rule without format attribute", lambda: b.convert_rule(r[0], "default"))
    print("    pipeline kept:", b.last_processing_pipeline is third)
    show("convert_rule unknown format", lambda: b.convert_rule(r[0], "nonexistent"))
    show("convert unknown format", lambda: b.convert(rules(), "nonexistent"))
    print("    conversion results:", [x.get_conversion_result() for x in r])

    # 4. callbacks: drop results, modify results, see None results
    def cb_drop_odd(rule, fmt, index, cond, result):
        LOG.append(f"CB:{rule.title}:{fmt}:{index}:{result}")
        return None if index % 2 else result

    def cb_wrap(rule, fmt, index, cond, result):
        LOG.append(f"CB:{rule.title}:{fmt}:{index}:{result}")
        return f"wrapped[{result}]"

    for cb in (cb_drop_odd, cb_wrap):
        b = Backend(pipe("user"))
        show(f"callback {cb.__name__}", lambda: b.convert(rules(), "test", callback=cb))
        tracking(b)

    # 5. errors in the transformation stage: raised or collected, message enrichment
    for fail in ("sigma", "notimpl", "value", "value2"):
        for collect in (False, True):
            b = Backend(pipe("user", fail=fail), collect_errors=collect)
            show(f"fail={fail} collect={collect}", lambda: b.convert(rules()))
            print("    errors:", [(r_.title, type(e).__name__, str(e)) for r_, e in b.errors])
    b = Backend(
        ProcessingPipeline(
            [
                ProcessingItem(
                    RuleFailureTransformation("no linux"),
                    rule_conditions=[LogsourceCondition(product="linux")],
                )
            ]
        ),
        collect_errors=True,
    )
    show("failure for one rule only", lambda: b.convert(rules(), "str"))
    print("    errors:", [(r_.title, type(e).__name__, str(e)) for r_, e in b.errors])

    # 6. correlation rules: raw embedding of the referenced rule's query, generate on/off
    for generate in ("true", "false"):
        for fmt in ("default", "test"):
            b = Backend(pipe("user"))
            coll = SigmaCollection.from_yaml(CORRELATION.format(generate=generate))
            show(f"correlation generate={generate} format={fmt}", lambda: b.convert(coll, fmt))
            print(
                "    base rule result:",
                coll.rules[0].get_conversion_result(),
                "states:",
                len(coll.rules[0].get_conversion_states()),
            )
            tracking(b)

    # 7. library post-processing and finalizers incl. nested ones; empty rule collection
    user = ProcessingPipeline(
        items=[
            ProcessingItem(SetStateTransformation("index", "win"), identifier="set_state"),
            ProcessingItem(FieldMappingTransformation({"fieldB": "mappedB"}), identifier="map"),
        ],
        postprocessing_items=[
            QueryPostprocessingItem(EmbedQueryTransformation("{", "}"), identifier="embed"),
            QueryPostprocessingItem(
                NestedQueryPostprocessingTransformation(
                    items=[
                        QueryPostprocessingItem(
                            ReplaceQueryTransformation("field", "FIELD"), identifier="repl"
                        ),
                        QueryPostprocessingItem(
                            EmbedQueryTransformation("<", ">"),
                            rule_conditions=[LogsourceCondition(product="linux")],
                            identifier="inner_embed",
                        ),
                    ]
                ),
                identifier="nest",
            ),
        ],
        finalizers=[
            NestedFinalizer(
                finalizers=[
                    ConcatenateQueriesFinalizer(" | ", "(", ")"),
                    RecordF("inner"),
                ]
            ),
            RecordF("outer"),
        ],
    )
    b = Backend(user)
    show("library post-processing and finalizers, state format", lambda: b.convert(rules(), "state"))
    tracking(b)
    b = Backend(pipe("user"))
    show("empty collection", lambda: b.convert(SigmaCollection([]), "test"))

    # 8. pipeline stages called directly
    p = pipe("direct", cond=True)
    rule = rules().rules[0]
    show("pipeline.apply", lambda: p.apply(rule).title)
    print("    applied:", p.applied, sorted(p.applied_ids))
    show("pipeline.postprocess_query", lambda: p.postprocess_query(rule, "q"))
    print("    applied_ids:", sorted(p.applied_ids))
    show("pipeline.finalize list", lambda: p.finalize(["a", "b"]))
    show("pipeline.finalize str", lambda: p.finalize("a"))
    show("empty pipeline.finalize", lambda: ProcessingPipeline().finalize(["a"]))
    show("empty pipeline.postprocess_query", lambda: ProcessingPipeline().postprocess_query(rule, 1))
    noid = ProcessingPipeline(
        [ProcessingItem(RecordT("noid"))],
        [QueryPostprocessingItem(RecordP("noid.p"))],
    )
    noid.items[0].identifier = ""
    noid.postprocessing_items[0].identifier = None
    show("items without identifier", lambda: (noid.apply(rule).title, noid.postprocess_query(rule, "q")))
    print("    applied:", noid.applied, sorted(noid.applied_ids))
    return 0


if __name__ == "__main__":
    sys.exit(main())
