"""Demo for C19/t10: per-rule metadata validators and the 'them' condition validators.

Prints the issues reported for a handful of rules (usual and unusual ones), in several rule and
validator orders, with exclusions, and checks that validation leaves dict form and queries alone.
"""
import itertools
import yaml

from sigma.backends.test import TextQueryTestBackend
from sigma.collection import SigmaCollection
from sigma.exceptions import SigmaRuleLocation
from sigma.rule import SigmaRule
from sigma.correlations import SigmaCorrelationRule
from sigma.validation import SigmaValidator
from sigma.validators.core import validators
from sigma.validators.core.metadata import (
    CustomAttributesValidator,
    DuplicateReferencesValidator,
    FilenameLengthValidator,
    IdentifierExistenceValidator,
    is_uuid_v4,
)
from sigma.validators.core.condition import (
    AllOfThemConditionValidator,
    ThemConditionWithSingleDetectionValidator,
)

RULES = {
    # name: (yaml dict, source path or None)
    "plain": (
        {
            "title": "Plain",
            "id": "5013332f-8a70-4a04-bcc1-06a98a2cca2e",
            "status": "test",
            "logsource": {"category": "process_creation", "product": "windows"},
            "references": ["https://a", "https://b"],
            "detection": {"selection": {"Image|endswith": "\\cmd.exe"}, "condition": "selection"},
        },
        "/rules/windows/proc_creation_win_plain.yml",
    ),
    "one_of_them_single": (
        {
            "title": "Them single",
            "logsource": {"category": "test"},
            "references": ["https://a", "https://b", "https://a", "https://c", "https://c", "https://a"],
            "realted": [{"id": "x", "type": "derived"}],
            "detection": {"sel": {"a": 1}, "condition": "1 of them"},
        },
        "/rules/x.yml",
    ),
    "all_of_them_two": (
        {
            "title": "All of them",
            "id": "5013332f-8a70-4a04-bcc1-06a98a2cca2f",
            "logsource": {"category": "test"},
            "reference": "https://single",
            "rlated": "typo",
            "detection": {"sel1": {"a": 1}, "sel2": {"b": "x*"}, "condition": "all   of  them"},
        },
        "/rules/" + "n" * 95 + ".yml",
    ),
    "all_of_them_single_multi_condition": (
        {
            "title": "Several conditions",
            "id": "5013332f-8a70-4a04-bcc1-06a98a2cca2f",
            "logsource": {"category": "test"},
            "references": [],
            "detection": {
                "_sel": {"a": "v"},
                "condition": ["_sel", "all of them", "1 of _sel*"],
            },
        },
        None,
    ),
    "themida_not_them": (
        {
            "title": "Themida",
            "logsource": {"product": "windows"},
            "unrelated": 1,
            "relatde": 2,
            "relted": 3,
            "detection": {
                "selection_themida": {"a": "b"},
                "condition": "1 of themida* or all of them-x or 1 of them_y or 1 of selection_themida",
            },
        },
        "/other/x.yml",
    ),
    "exactly_ten": (
        {
            "title": "Ten chars",
            "id": "00000000-0000-0000-0000-000000000000",
            "logsource": {"category": "test"},
            "references": ["r", "r"],
            "detection": {"keywords": ["a", "b"], "unused": {"f": 1}, "condition": "keywords and 1 of nothing*"},
        },
        "/rules/123456.yml",
    ),
    "nine_chars": (
        {
            "title": "Nine chars",
            "logsource": {"category": "test"},
            "detection": {"sel": {"f": "1234"}, "condition": "not 1 of them and all of them"},
        },
        "/rules/12345.yml",
    ),
}

CORRELATION = {
    "title": "Correlation",
    "name": "corr",
    "references": ["https://dup", "https://dup"],
    "reference": "typo",
    "correlation": {
        "type": "event_count",
        "rules": ["5013332f-8a70-4a04-bcc1-06a98a2cca2e"],
        "group-by": ["user"],
        "timespan": "5m",
        "condition": {"gte": 10},
    },
}


def build(names):
    rules = []
    for name in names:
        d, path = RULES[name]
        source = SigmaRuleLocation(path) if path is not None else None
        rules.append(SigmaRule.from_dict(d, source=source))
    return rules


def convert(rule):
    try:
        return TextQueryTestBackend().convert_rule(rule)
    except Exception as e:
        return f"{type(e).__name__}: {e}"


def show(issues):
    return sorted(
        f"{type(i).__name__}|{sorted(r.title for r in i.rules)}|"
        + "|".join(f"{k}={v!r}" for k, v in vars(i).items() if k != "rules")
        for i in issues
    )


def main():
    print("== is_uuid_v4")
    for v in [
        "5013332f-8a70-4a04-bcc1-06a98a2cca2e",
        "00000000-0000-0000-0000-000000000000",
        "6ba7b810-9dad-11d1-80b4-00c04fd430c8",
        "5013332F8A704A04BCC106A98A2CCA2E",
        "{5013332f-8a70-4a04-bcc1-06a98a2cca2e}",
        "urn:uuid:5013332f-8a70-4a04-bcc1-06a98a2cca2e",
        "not-a-uuid",
        "",
        None,
        4,
    ]:
        print(repr(v), is_uuid_v4(v))

    names = list(RULES)
    all_validator_names = sorted(validators)
    print("== all built-in validators:", len(all_validator_names))

    reference = None
    for order in [names, names[::-1], names[3:] + names[:3]]:
        rules = build(order)
        dicts_before = [r.to_dict() for r in rules]
        queries_before = [convert(r) for r in build(order)]
        for vorder in [all_validator_names, all_validator_names[::-1]]:
            validator = SigmaValidator([validators[n] for n in vorder])
            issues = show(validator.validate_rules(iter(rules)))
            if reference is None:
                reference = issues
                for line in issues:
                    print(line)
            print("order", order[0], vorder[0], "same as first:", issues == reference, len(issues))
        dicts_after = [r.to_dict() for r in rules]
        queries_after = [convert(r) for r in rules]
        if order is names:
            for n, q in zip(order, queries_after):
                print("query", n, q)
        print("dicts unchanged:", dicts_before == dicts_after, "queries unchanged:", queries_before == queries_after)
        # validation after conversion
        validator = SigmaValidator([validators[n] for n in all_validator_names])
        print("after conversion same:", show(validator.validate_rules(iter(rules))) == reference)

    print("== the rewritten validators one by one")
    rules = build(names)
    corr = SigmaCorrelationRule.from_dict(CORRELATION, source=SigmaRuleLocation("/rules/c.yml"))
    for cls in [
        IdentifierExistenceValidator,
        DuplicateReferencesValidator,
        FilenameLengthValidator,
        CustomAttributesValidator,
        ThemConditionWithSingleDetectionValidator,
        AllOfThemConditionValidator,
    ]:
        v = cls()
        for r in rules + [corr]:
            for i in v.validate(r):
                print(cls.__name__, r.title, "->", str(i).split(" rules=")[0], {k: x for k, x in vars(i).items() if k != "rules"})
        print(cls.__name__, "finalize", v.finalize())

    print("== duplicate references keep first-appearance order")
    r = build(["one_of_them_single"])[0]
    print([i.reference for i in DuplicateReferencesValidator().validate(r)])
    r.references = ["z", "y", "z", "y", "x", 1, 1.0, True]
    print([i.reference for i in DuplicateReferencesValidator().validate(r)])
    r.references = [["unhashable"]]
    try:
        DuplicateReferencesValidator().validate(r)
    except Exception as e:
        print(type(e).__name__, e)

    print("== filename limits")
    for lo, hi in [(10, 90), (0, 5), (5, 5), (6, 5), (0, 0), (99, 100), (10.5, float("nan")), (float("nan"), 90)]:
        v = FilenameLengthValidator(lo, hi)
        print(lo, hi, [[i.filename for i in v.validate(r)] for r in rules], v == FilenameLengthValidator(lo, hi))

    print("== custom attributes: first suspicious key in dict order")
    r = rules[0]
    for attrs in [None, {}, {"x": 1}, {"reference": 1, "realted": 2}, {"realted": 2, "reference": 1}, {None: 1, 3: 4, "rlated": None}]:
        r.custom_attributes = attrs
        print(attrs, [i.fieldname for i in CustomAttributesValidator().validate(r)])

    print("== unusual condition lists")
    r = build(["one_of_them_single"])[0]
    for cond in [[], ["sel"], ["1 of them"], ["sel", "all of them"], ["all of them*"], ["1 of\tthem"], ["1 ofthem"], ["ALL OF THEM"], ["1 of them", 5], [None]]:
        r.detection.condition = cond
        for cls in (ThemConditionWithSingleDetectionValidator, AllOfThemConditionValidator):
            try:
                print(cond, cls.__name__, len(cls().validate(r)))
            except Exception as e:
                print(cond, cls.__name__, type(e).__name__, e)

    print("== exclusions")
    conf = {
        "validators": ["all", "-tlptag"],
        "exclusions": {
            "5013332f-8a70-4a04-bcc1-06a98a2cca2f": ["all_of_them_condition", "duplicate_references"],
            "00000000-0000-0000-0000-000000000000": "filename_length",
        },
    }
    validator = SigmaValidator.from_dict(conf, validators)
    for line in show(validator.validate_rules(iter(build(names)))):
        if line.split("|")[0] in (
            "AllOfThemConditionIssue", "DuplicateReferencesIssue", "FilenameLengthIssue",
            "ThemConditionWithSingleDetectionIssue", "CustomAttributesIssue", "IdentifierExistenceIssue",
        ):
            print(line)


if __name__ == "__main__":
    main()
