"""Exercises field name conditions (IncludeFieldCondition / ExcludeFieldCondition and the
FieldNameProcessingCondition base methods) directly and through ProcessingPipeline.apply."""
import itertools
from sigma.collection import SigmaCollection
from sigma.exceptions import SigmaConfigurationError
from sigma.processing.conditions import IncludeFieldCondition, ExcludeFieldCondition
from sigma.processing.pipeline import ProcessingPipeline
from sigma.rule import SigmaDetectionItem, SigmaRule
from sigma.types import SigmaFieldReference, SigmaString, SigmaNumber, SigmaNull


def show(label, fn):
    try:
        r = fn()
        print(f"{label}: {type(r).__name__} {r!r}")
    except BaseException as e:  # noqa
        cause = e.__cause__
        print(
            f"{label}: raised {type(e).__name__} args={e.args!r} "
            f"cause={type(cause).__name__ if cause is not None else None}"
        )


print("== construction")
for cls in (IncludeFieldCondition, ExcludeFieldCondition):
    for kwargs in (
        dict(fields=["a", "b"]),
        dict(fields=["a", "b"], mode="plain"),
        dict(fields=["a.*", "^b$"], mode="re"),
        dict(fields=[], mode="re"),
        dict(fields=["ok", "(unclosed", "[also"], mode="re"),
        dict(fields=["a"], mode="regex"),
        dict(fields=["("], mode="glob"),
        dict(fields=["a"], mode=None),
        dict(fields=["a"], mode=["re"]),
        dict(fields=["a", 5], mode="re"),
        dict(fields=None, mode="re"),
        dict(fields=None, mode="plain"),
        dict(fields="abc", mode="re"),
    ):
        def build(cls=cls, kwargs=kwargs):
            c = cls(**kwargs)
            return (repr(c), [p.pattern for p in c.patterns], c.mode)
        show(f"{cls.__name__}({kwargs!r})", build)

print("== match_field_name")
names = [None, "", "a", "ab", "b", "bb", "A", "xa", "field.name", "a\nb", "é", 5, b"a", ("a",)]
conds = {
    "inc_plain": IncludeFieldCondition(fields=["a", "b", "field.name", ""]),
    "exc_plain": ExcludeFieldCondition(fields=["a", "b", "field.name", ""]),
    "inc_plain_empty": IncludeFieldCondition(fields=[]),
    "exc_plain_empty": ExcludeFieldCondition(fields=[]),
    "inc_re": IncludeFieldCondition(fields=["a.*", "^b$", "field\\.name"], mode="re"),
    "exc_re": ExcludeFieldCondition(fields=["a.*", "^b$", "field\\.name"], mode="re"),
    "inc_re_empty": IncludeFieldCondition(fields=[], mode="re"),
    "exc_re_empty": ExcludeFieldCondition(fields=[], mode="re"),
    "inc_re_emptymatch": IncludeFieldCondition(fields=["x*"], mode="re"),
    "inc_plain_str": IncludeFieldCondition(fields="abc"),
}
for (cname, c), n in itertools.product(conds.items(), names):
    show(f"{cname}.match_field_name({n!r})", lambda: c.match_field_name(n))


class Raising:
    """Stand-in for a compiled pattern whose match raises a prepared exception."""

    def __init__(self, exc):
        self.exc = exc
        self.calls = 0

    def match(self, s):
        self.calls += 1
        raise self.exc


class Never:
    def __init__(self):
        self.calls = 0

    def match(self, s):
        self.calls += 1
        return None


print("== exceptions while matching")
for exc in (
    ValueError("one"),
    ValueError("one", "two", 3),
    ValueError(),
    ValueError(7),
    KeyError("k"),
    OSError(2, "nope"),
    KeyboardInterrupt("stop"),
):
    for cls in (IncludeFieldCondition, ExcludeFieldCondition):
        c = cls(fields=["zzz"], mode="re")
        never, raising, after = Never(), Raising(exc), Never()
        c.patterns = [never, raising, after]
        show(f"{cls.__name__} raising {type(exc).__name__}{exc.args!r}", lambda: c.match_field_name("fld"))
        print("   calls:", never.calls, raising.calls, after.calls)
c = IncludeFieldCondition(fields=["a"], mode="re")
c.patterns = None
show("patterns None", lambda: c.match_field_name("a"))
c.patterns = [5]
show("patterns [5]", lambda: c.match_field_name("a"))
c = IncludeFieldCondition(fields=["a"], mode="re")
first, second = Never(), Never()
c.patterns = [first] + c.patterns + [second]
show("short circuit", lambda: c.match_field_name("abc"))
print("   calls:", first.calls, second.calls)

print("== detection item level")
items = {
    "plain a=1": SigmaDetectionItem("a", [], [SigmaNumber(1)]),
    "keyword": SigmaDetectionItem(None, [], [SigmaString("kw")]),
    "x=ref(a)": SigmaDetectionItem("x", [], [SigmaFieldReference("a")]),
    "x=[s, ref(b), ref(q)]": SigmaDetectionItem(
        "x", [], [SigmaString("s"), SigmaFieldReference("b"), SigmaFieldReference("q")]
    ),
    "b=[ref(q), null]": SigmaDetectionItem("b", [], [SigmaFieldReference("q"), SigmaNull()]),
    "x=[]": SigmaDetectionItem("x", [], []),
}
values = [SigmaString("a"), SigmaNumber(1), SigmaNull(), SigmaFieldReference("a"),
          SigmaFieldReference("zz"), SigmaFieldReference("field.name"), "a", None]
for cname, c in conds.items():
    for iname, it in items.items():
        print(
            f"{cname} / {iname}:",
            c.match_detection_item(it),
            c.match_detection_item_field(it),
            c.match_detection_item_value(it),
        )
    print(f"{cname} match_value:", [c.match_value(v) for v in values])

print("== through ProcessingPipeline.apply")
RULE = """
title: T
logsource:
    category: test
detection:
    sel:
        a: 1
        ab|contains: two
        b|fieldref: a
        c|fieldref:
            - q
            - ab
        field.name: null
    kw:
        - kw1
    other:
        - zz: 1
          xa|re: f.o
    condition: sel and kw and other
fields:
    - a
    - zz
    - q
"""

def pipeline_yaml(cond_block):
    return f"""
name: demo
priority: 10
transformations:
    - id: marker
      type: field_name_prefix
      prefix: "M_"
{cond_block}
"""

blocks = {
    "none": "",
    "inc plain": """
      field_name_conditions:
        - type: include_fields
          fields: [a, zz]
""",
    "exc plain": """
      field_name_conditions:
        - type: exclude_fields
          fields: [a, zz]
""",
    "inc re": """
      field_name_conditions:
        - type: include_fields
          fields: ["a.*", "q"]
          mode: re
""",
    "exc re not": """
      field_name_cond_not: true
      field_name_conditions:
        - type: exclude_fields
          fields: ["a.*", "^field"]
          mode: re
""",
    "two and": """
      field_name_cond_op: and
      field_name_conditions:
        - type: include_fields
          fields: ["a.*"]
          mode: re
        - type: exclude_fields
          fields: [a]
""",
    "two or": """
      field_name_cond_op: or
      field_name_conditions:
        - type: include_fields
          fields: [q]
        - type: include_fields
          fields: ["^z"]
          mode: re
""",
    "two or not": """
      field_name_cond_op: or
      field_name_cond_not: true
      field_name_conditions:
        - type: include_fields
          fields: [q]
        - type: include_fields
          fields: ["^z"]
          mode: re
""",
    "expr": """
      field_name_cond_expr: "(i1 or i2) and not e1"
      field_name_conditions:
        i1:
          type: include_fields
          fields: ["a.*", "c"]
          mode: re
        i2:
          type: include_fields
          fields: [zz, q]
        e1:
          type: exclude_fields
          fields: ["^a$", "q"]
          mode: re
""",
    "bad mode": """
      field_name_conditions:
        - type: include_fields
          fields: [a]
          mode: regexp
""",
    "bad regex": """
      field_name_conditions:
        - type: exclude_fields
          fields: ["fine", "(broken"]
          mode: re
""",
}


def dump(detection, depth=0):
    out = []
    for di in detection.detection_items:
        if isinstance(di, SigmaDetectionItem):
            out.append((di.field, [repr(v) for v in di.value], sorted(di.applied_processing_items)))
        else:
            out.append(dump(di, depth + 1))
    return out


for bname, block in blocks.items():
    print("--", bname)
    try:
        pipeline = ProcessingPipeline.from_yaml(pipeline_yaml(block))
    except Exception as e:
        print("   from_yaml raised", type(e).__name__, e.args,
              type(e.__cause__).__name__ if e.__cause__ is not None else None)
        continue
    rule = SigmaRule.from_yaml(RULE)
    pipeline.apply(rule)
    for name, det in rule.detection.detections.items():
        print("  ", name, dump(det))
    print("   fields:", rule.fields)
    print("   applied:", sorted(pipeline.applied), sorted(pipeline.applied_ids),
          {k: sorted(v) for k, v in sorted(pipeline.field_name_applied_ids.items(), key=lambda kv: str(kv[0]))})
    print("   mappings:", {k: sorted(v) for k, v in sorted(pipeline.field_mappings.items(), key=lambda kv: str(kv[0]))})
print("done")
