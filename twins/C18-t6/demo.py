"""Demo for property C18: CIDR expansion and its use in conversion.

Run as: PYTHONPATH=/tmp/wt7-C18 /venv/bin/python demo.py
Prints everything it observes; output has to be identical with and without the patch.
"""

import hashlib
import random
import sys
from ipaddress import IPv4Address, IPv4Network, IPv6Address, IPv6Network, ip_network

from sigma.backends.test import TextQueryTestBackend
from sigma.collection import SigmaCollection
from sigma.exceptions import SigmaError
from sigma.types import SigmaCIDRExpression


def show_expand(cidr, *args, limit=20):
    try:
        expr = SigmaCIDRExpression(cidr)
        res = expr.expand(*args)
    except Exception as e:  # class and message are part of the behaviour
        print(f"expand({cidr!r}, {args!r}) raised {type(e).__name__}: {e}")
        return None
    digest = hashlib.sha256(repr(res).encode()).hexdigest()[:16]
    print(f"expand({cidr!r}, {args!r}) -> n={len(res)} sha={digest} head={res[:limit]!r}")
    return res


def v4_range(pattern):
    """Integer range of the dotted quads matched by an IPv4 wildcard pattern."""
    if pattern == "*":
        return (0, 2**32 - 1)
    if pattern.endswith(".*"):
        groups = pattern[:-2].split(".")
        base = 0
        for g in groups:
            base = base * 256 + int(g)
        free = 8 * (4 - len(groups))
        return (base << free, ((base + 1) << free) - 1)
    a = int(IPv4Address(pattern))
    return (a, a)


print("== IPv4: all prefix lengths, boundary + random addresses, exact set equality ==")
rnd = random.Random(18)
bases = [0, 2**32 - 1, int(IPv4Address("192.168.1.77")), int(IPv4Address("10.0.0.0"))] + [
    rnd.getrandbits(32) for _ in range(3)
]
for plen in range(33):
    for base in bases:
        net = IPv4Network((base, plen), strict=False)
        res = SigmaCIDRExpression(str(net)).expand()
        ranges = sorted(v4_range(p) for p in res)
        ok = (
            ranges[0][0] == int(net.network_address)
            and ranges[-1][1] == int(net.broadcast_address)
            and all(a[1] + 1 == b[0] for a, b in zip(ranges, ranges[1:]))
        )
        if not ok:
            print("MISMATCH", net, res)
            sys.exit(1)
    show_expand(str(IPv4Network((bases[2], plen), strict=False)), limit=4)

print("== IPv4: host bits set, other wildcards ==")
for cidr in ["192.168.1.77/24", "1.2.3.4/32", "0.0.0.0/0", "10.1.2.3", "255.255.255.255/31"]:
    show_expand(cidr)
for wc in ["%", "", "??", None]:
    for cidr in ["0.0.0.0/0", "10.0.0.0/7", "10.2.0.0/15", "10.1.2.0/23", "10.1.2.3/32", "10.1.2.2/31"]:
        show_expand(cidr, wc)

print("== IPv6: all prefix lengths on several addresses, coverage check ==")
v6_addrs = [
    "::",
    "::1",
    "fe80::",
    "2001:db8::",
    "2001:db8:0:0:1::",
    "1:0:0:2:0:0:0:3",
    "1:2:3:4:5:6:7:8",
    "0:0:1:0:0:0:0:0",
    "ffff:ffff:ffff:ffff:ffff:ffff:ffff:ffff",
    "a:0:b:0:c:0:d:0",
    "0:a:0:b:0:c:0:d",
    "1234:5678:0:ab00::",
]
for addr in v6_addrs:
    h = hashlib.sha256()
    total = 0
    for plen in range(129):
        net = IPv6Network((int(IPv6Address(addr)), plen), strict=False)
        res = SigmaCIDRExpression(str(net)).expand()
        total += len(res)
        h.update(repr(res).encode())
        # every sampled address of the network is matched by at least one pattern
        samples = [net.network_address, net.broadcast_address] + [
            IPv6Address(int(net.network_address) + rnd.randrange(net.num_addresses))
            for _ in range(3)
        ]
        for s in samples:
            text = str(s)
            if not any(
                (p.endswith("*") and text.startswith(p[:-1])) or text == p for p in res
            ):
                print(f"uncovered {text} in {net}: {res}")
    print(f"{addr}: patterns over /0../128 = {total}, sha={h.hexdigest()[:16]}")

for cidr in [
    "::/0",
    "::/1",
    "::1/128",
    "::1",
    "fe80::/64",
    "fe80::/10",
    "2001:db8::/33",
    "2001:db8::/47",
    "1234:5678:0:ab00::/56",
    "1:2:3:4:5:6:7:8/127",
    "1:2:3:4:5:6:7:0/113",
    "::ffff:10.0.0.0/104",
    "ff00::/8",
]:
    show_expand(cidr)
    show_expand(cidr, "%")
show_expand("fe80::/66", None)
show_expand("::1/128", None)

print("== invalid values ==")
for cidr in [
    "",
    "abc",
    "1.2.3.4/33",
    "1.2.3/24",
    "1.2.3.4/24",
    "1.2.3.4/-1",
    "1.2.3.4/0.0.0.255",
    "1.2.3.0/255.255.255.0",
    "fe80::1%eth0/128",
    "fe80::%1/64",
    "::1/129",
    "1:2:3:4:5:6:7:8:9/64",
    "10.0.0.0/8 ",
    "10.0.0.0//8",
    "192.168.*",
]:
    show_expand(cidr)

print("== conversion: expanded vs native ==")


def convert(backend, detection):
    rule = f"""
title: Test
status: test
logsource:
    category: test_category
    product: test_product
detection:
{detection}
"""
    try:
        print(backend.convert(SigmaCollection.from_yaml(rule)))
    except (SigmaError, NotImplementedError, TypeError) as e:
        print(f"raised {type(e).__name__}: {e}")


detections = [
    "    sel:\n        fieldA|cidr: 192.168.0.0/14\n    condition: sel",
    "    sel:\n        fieldA|cidr: 192.168.0.0/16\n        fieldB: x\n    condition: sel",
    "    sel:\n        fieldA|cidr: 192.168.0.0/15\n        fieldB: x\n    condition: sel",
    "    sel:\n        fieldA|cidr:\n            - 192.168.0.0/14\n            - 10.0.0.0/8\n            - ::1/128\n    condition: sel",
    "    sel:\n        fieldA|cidr: 1234:5678:0:ab00::/57\n    filter:\n        fieldA|cidr: 1234:5678:0:ab00::/64\n    condition: sel and not filter",
    "    sel:\n        fieldA|cidr: 10.11.12.13/32\n    condition: not sel",
    "    sel:\n        fieldA|cidr: 10.11.12.12/30\n    condition: not sel",
    "    sel:\n        fieldA|cidr: 192.168.1.1/24\n    condition: sel",
    "    sel:\n        fieldA|cidr: fe80::1%eth0/128\n    condition: sel",
    "    sel:\n        fieldA|contains|cidr: 10.0.0.0/8\n    condition: sel",
    "    sel:\n        fieldA|cidr: fe80::/64\n    condition: sel",
]


class NoCIDRBackend(TextQueryTestBackend):
    cidr_expression = None


class NoCIDRNoInBackend(TextQueryTestBackend):
    cidr_expression = None
    convert_or_as_in = False
    convert_and_as_in = False


class TemplateBackend(TextQueryTestBackend):
    cidr_expression = "cidr({field}|{value}|{network}|{prefixlen}|{netmask})"


for cls in (TextQueryTestBackend, NoCIDRBackend, NoCIDRNoInBackend, TemplateBackend):
    print(f"-- {cls.__name__}")
    for d in detections:
        convert(cls(), d)
