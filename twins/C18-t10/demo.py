"""Exercises SigmaCIDRExpression.expand() and the conversion of cidr values (expanded and native)."""

import hashlib
import random
from ipaddress import IPv6Address, IPv6Network, ip_network

from sigma.collection import SigmaCollection
from sigma.conversion.base import TextQueryBackend
from sigma.exceptions import SigmaError
from sigma.types import SigmaCIDRExpression


def show(label, func):
    try:
        print(label, "->", func())
    except Exception as e:  # exception class and message are part of the behaviour
        print(label, "-> EXC", type(e).__name__, str(e))


def digest(patterns):
    return hashlib.sha256("\n".join(patterns).encode()).hexdigest()[:16], len(patterns)


# --- IPv4: every prefix length on a few addresses
for base in ("0.0.0.0", "10.20.30.40", "192.168.255.255", "255.255.255.255", "127.0.0.1"):
    for plen in range(33):
        net = ip_network(f"{base}/{plen}", strict=False)
        pats = SigmaCIDRExpression(str(net)).expand()
        if len(pats) <= 4:
            print(net, pats)
        else:
            print(net, pats[:2], pats[-1], digest(pats))

# --- IPv6: every prefix length on addresses with zero runs in different positions
v6_bases = [
    "::",
    "::1",
    "fe80::",
    "fe80::1",
    "2001:db8::",
    "2001:db8:0:0:1:0:0:1",
    "2001:0:0:1::",
    "1:2:3:4:5:6:7:8",
    "1:0:3:0:5:0:7:0",
    "0:2:0:4:0:6:0:8",
    "ffff:ffff:ffff:ffff:ffff:ffff:ffff:ffff",
    "::ffff:10.1.2.3",
    "1::",
    "0:0:0:1::",
    "a:b:c:d:e:f:0:0",
    "fff0::f",
]
for base in v6_bases:
    for plen in range(129):
        net = ip_network(f"{base}/{plen}", strict=False)
        pats = SigmaCIDRExpression(str(net)).expand()
        print(net, pats if len(pats) <= 2 else (pats[0], pats[-1], digest(pats)))

# --- random IPv6 networks, other wildcard strings
rnd = random.Random(18)
for _ in range(300):
    plen = rnd.randint(0, 128)
    groups = [rnd.choice([0, 0, 1, 0xF, 0xFF00, rnd.getrandbits(16)]) for _ in range(8)]
    addr = IPv6Address(int("".join(f"{g:04x}" for g in groups), 16))
    net = IPv6Network((addr, plen), strict=False)
    wildcard = rnd.choice(["*", "%", "", ".*"])
    pats = SigmaCIDRExpression(str(net)).expand(wildcard)
    print(net, repr(wildcard), pats if len(pats) <= 2 else (pats[0], pats[-1], digest(pats)))

# --- non-string wildcard and host bits, invalid values
show("v4 /8 wildcard=None", lambda: SigmaCIDRExpression("10.0.0.0/8").expand(None))
show("v4 /0 wildcard=None", lambda: SigmaCIDRExpression("0.0.0.0/0").expand(None))
show("v6 /64 wildcard=None", lambda: SigmaCIDRExpression("fe80::/64").expand(None))
show("v6 /128 wildcard=None", lambda: SigmaCIDRExpression("::1/128").expand(None))
show("v6 /127 wildcard=7", lambda: SigmaCIDRExpression("::/127").expand(7))
for bad in (
    "10.0.0.1/8",
    "10.0.0.0/33",
    "fe80::1%eth0/128",
    "fe80::%1/64",
    "::/129",
    "1.2.3/24",
    "",
    "abc",
    "1::2::3/64",
    "::1/-1",
):
    show(f"invalid {bad!r}", lambda bad=bad: SigmaCIDRExpression(bad).expand())
show("no prefix v4", lambda: SigmaCIDRExpression("1.2.3.4").expand())
show("no prefix v6", lambda: SigmaCIDRExpression("::1").expand())


# --- conversion: expanded and native
class ExpandingBackend(TextQueryBackend):
    name = "expanding"
    formats = {"default": "default"}
    group_expression = "({expr})"
    or_token = "or"
    and_token = "and"
    not_token = "not"
    eq_token = "="
    str_quote = '"'
    escape_char = "\\"
    wildcard_multi = "*"
    wildcard_single = "?"
    add_escaped = "\\"
    field_null_expression = "{field} is null"


class NativeBackend(ExpandingBackend):
    name = "native"
    cidr_expression = "cidrmatch({field}, {value}, {network}, {prefixlen}, {netmask})"


RULE = """
title: t
logsource:
    category: test
detection:
    sel:
        ip|cidr: {value}
    other:
        user: admin
    condition: {condition}
"""

for value in (
    "10.0.0.0/7",
    "192.168.1.0/24",
    "1.2.3.4/32",
    "0.0.0.0/0",
    "fe80::/10",
    "::1/128",
    "2001:db8::/33",
    "::/0",
    "['10.0.0.0/15', '::/3']",
    "fe80::1%eth0/128",
    "10.0.0.1/8",
):
    for condition in ("sel", "sel and other", "not sel", "other or sel"):
        for backend in (ExpandingBackend, NativeBackend):
            show(
                f"{backend.name} {value} [{condition}]",
                lambda: backend().convert(
                    SigmaCollection.from_yaml(RULE.format(value=value, condition=condition))
                ),
            )
