"""
Demo for property C17: placeholders expand completely or conversion fails; never emitted as text.

Prints, for a grid of values x modifiers x pipelines, the queries produced by the text test backend
or the class and message of the raised error. Also exercises the string level API directly.
"""

import itertools
import re
import sys

from sigma.backends.test import TextQueryTestBackend
from sigma.collection import SigmaCollection
from sigma.exceptions import SigmaError
from sigma.processing.pipeline import ProcessingPipeline
from sigma.types import (
    Placeholder,
    SigmaCasedString,
    SigmaRegularExpression,
    SigmaString,
    SpecialChars,
)

RULE = """
title: Test
status: test
logsource:
    category: test
detection:
    sel:
{items}
    condition: sel
"""


def yaml_str(v):
    return "'" + v.replace("'", "''") + "'"


def rule_field(modifiers, values):
    key = "field" + "".join("|" + m for m in modifiers)
    lines = [f"        {key}:"]
    for v in values:
        lines.append(f"            - {yaml_str(v)}")
    return RULE.format(items="\n".join(lines))


def rule_keywords(values):
    lines = ["title: Test", "status: test", "logsource:", "    category: test", "detection:", "    sel:"]
    for v in values:
        lines.append(f"        - {yaml_str(v)}")
    lines.append("    condition: sel")
    return "\n".join(lines)


def rule_keywords_expand(values):
    # keywords with modifiers are written with an empty field name
    lines = ["        '|expand':"]
    for v in values:
        lines.append(f"            - {yaml_str(v)}")
    return RULE.format(items="\n".join(lines))


PIPELINES = {
    "none": {"name": "none", "priority": 0, "transformations": []},
    "valuelist": {
        "name": "valuelist",
        "priority": 0,
        "vars": {"a": ["A1", "A2"], "b": ["B1", "B*2", "B?3"], "n": 7, "f": 1.5, "e": []},
        "transformations": [{"type": "value_placeholders"}],
    },
    "valuelist_include_a": {
        "name": "vi",
        "priority": 0,
        "vars": {"a": ["A1", "A2"], "b": ["B1"]},
        "transformations": [{"type": "value_placeholders", "include": ["a"]}],
    },
    "valuelist_exclude_a": {
        "name": "ve",
        "priority": 0,
        "vars": {"a": ["A1", "A2"], "b": ["B1", "B2"]},
        "transformations": [{"type": "value_placeholders", "exclude": ["a"]}],
    },
    "valuelist_then_wildcard": {
        "name": "vw",
        "priority": 0,
        "vars": {"a": ["A1", "A2"]},
        "transformations": [
            {"type": "value_placeholders", "include": ["a"]},
            {"type": "wildcard_placeholders"},
        ],
    },
    "wildcard_then_valuelist": {
        "name": "wv",
        "priority": 0,
        "vars": {"a": ["A1", "A2"]},
        "transformations": [
            {"type": "wildcard_placeholders", "exclude": ["a"]},
            {"type": "value_placeholders"},
        ],
    },
    "wildcard": {
        "name": "w",
        "priority": 0,
        "transformations": [{"type": "wildcard_placeholders"}],
    },
    "wrongtype": {
        "name": "wt",
        "priority": 0,
        "vars": {"a": ["A1", None], "b": {"x": 1}, "n": [1, "two", 3.0]},
        "transformations": [{"type": "value_placeholders"}],
    },
    "queryexpr": {
        "name": "qe",
        "priority": 0,
        "transformations": [
            {
                "type": "query_expression_placeholders",
                "include": ["a", "n"],
                "expression": "{field} lookup {id}",
                "mapping": {"a": "mapped_a", "n": ""},
            }
        ],
    },
    "queryexpr_then_valuelist": {
        "name": "qv",
        "priority": 0,
        "vars": {"b": ["B1", "B2"]},
        "transformations": [
            {
                "type": "query_expression_placeholders",
                "exclude": ["b"],
                "expression": "{field} in list({id})",
            },
            {"type": "value_placeholders"},
        ],
    },
}

VALUES = [
    "plain",
    "%a%",
    "%n%",
    "%f%",
    "%e%",
    "%missing%",
    "pre%a%post",
    "%a%%b%",
    "x%a%-%b%-%n%y",
    "*%a%?",
    "100\\%%a%",
    "\\%a\\%",
    "50\\% of %b% and \\%a\\%",
    "%a",
    "%%",
    "% a%",
    "%a%\\*lit",
]

MODIFIER_SETS = [
    ["expand"],
    ["contains", "expand"],
    ["startswith", "expand"],
    ["endswith", "expand"],
    ["expand", "contains"],
    ["re", "expand"],
    ["cased", "expand"],
    [],
]


def convert(rule_yaml, pipeline_dict):
    try:
        backend = TextQueryTestBackend(ProcessingPipeline.from_dict(pipeline_dict))
        return repr(backend.convert(SigmaCollection.from_yaml(rule_yaml)))
    except SigmaError as e:
        return f"{type(e).__name__}: {e}"


def check_no_raw(values, out):
    """The property itself: no raw %name% of an expanded value in a produced query."""
    if out.startswith("["):
        for m in re.finditer(r"(?<!\\)%([a-z]+)%", " ".join(values)):
            if "%" + m.group(1) + "%" in out:
                return "  !! raw placeholder in output"
    return ""


def main():
    print("== single values ==")
    for (pname, pipeline), mods, v in itertools.product(PIPELINES.items(), MODIFIER_SETS, VALUES):
        out = convert(rule_field(mods, [v]), pipeline)
        note = check_no_raw([v], out) if "expand" in mods else ""
        print(f"{pname:26} {'|'.join(mods):18} {v!r:28} -> {out}{note}")

    print("== value lists, all modifier, keywords ==")
    lists = [
        ["%a%", "%b%"],
        ["x%a%", "plain", "%n%y"],
        ["%a%%b%", "%missing%"],
        ["%e%", "keep"],
    ]
    for (pname, pipeline), vals in itertools.product(PIPELINES.items(), lists):
        for mods in (["expand"], ["expand", "all"], ["contains", "all", "expand"], ["re", "expand"]):
            out = convert(rule_field(mods, vals), pipeline)
            print(f"{pname:26} {'|'.join(mods):22} {vals!r:36} -> {out}{check_no_raw(vals, out)}")
        out = convert(rule_keywords_expand(vals), pipeline)
        print(f"{pname:26} {'keywords|expand':22} {vals!r:36} -> {out}{check_no_raw(vals, out)}")
        out = convert(rule_keywords(vals), pipeline)
        print(f"{pname:26} {'keywords (no expand)':22} {vals!r:36} -> {out}")

    print("== windash + expand ==")
    for pname in ("valuelist", "wildcard", "none"):
        out = convert(rule_field(["windash", "expand"], ["-p %a% /q"]), PIPELINES[pname])
        print(f"{pname:26} -> {out}")
        out = convert(rule_field(["expand", "windash"], ["-p %a% /q"]), PIPELINES[pname])
        print(f"{pname:26} -> {out}")

    print("== configuration errors ==")
    for tr in (
        {"type": "value_placeholders", "include": ["a"], "exclude": ["b"]},
        {"type": "wildcard_placeholders", "include": [], "exclude": []},
        {"type": "query_expression_placeholders", "include": ["a"], "exclude": ["b"], "expression": "x"},
    ):
        try:
            ProcessingPipeline.from_dict({"name": "x", "priority": 0, "transformations": [tr]})
            print(tr, "-> ok")
        except SigmaError as e:
            print(tr, "->", type(e).__name__, e)

    print("== string level ==")
    strings = [
        "",
        "plain",
        "%a%",
        "%a%%b%",
        "x%a%y%b%z",
        "\\%a\\%",
        "\\%a%b%",
        "%a\\%b%",
        "%a\\\\%b%",
        "*%a%?\\*\\?",
        "%a% %a%",
        "%%%a%%%",
        "ä%ü%ö",
        "%a b%",
        "\\\\%a%",
    ]

    def cb(p):
        if p.name == "a":
            yield "1"
            yield SpecialChars.WILDCARD_MULTI
        elif p.name == "b":
            yield SigmaString("x*y")
            yield SpecialChars.WILDCARD_SINGLE
            yield "%c%"
        else:
            yield p

    for cls, s in itertools.product((SigmaString, SigmaCasedString), strings):
        orig = cls(s)
        before = list(orig.s)
        ins = orig.insert_placeholders()
        print(cls.__name__, repr(s), "->", type(ins).__name__, ins.s, "| same object:", ins is orig,
              "| original untouched:", orig.s == before)
        print("   plain:", repr(ins.to_plain()), "| regex plain:", repr(ins.to_plain_regex()),
              "| str:", repr(str(ins)), "| bytes:", bytes(ins), "| len:", len(ins))
        print("   contains:", ins.contains_placeholder(), ins.contains_placeholder(["a"]),
              ins.contains_placeholder(None, ["a"]), ins.contains_placeholder(["a"], ["a"]),
              ins.contains_placeholder([]), ins.contains_placeholder(None, []))
        rep = ins.replace_placeholders(cb)
        print("   replaced:", [(type(r).__name__, r.s) for r in rep])
        twice = ins.insert_placeholders()
        print("   inserted twice:", twice.s)
        for r in rep:
            try:
                print("   convert:", repr(r.convert()))
            except SigmaError as e:
                print("   convert:", type(e).__name__, e)

    print("== invalid parts ==")
    bad = SigmaString("x")
    bad.s = ["x", 5]
    for f in (bad.to_plain, bad.to_plain_regex, bad.insert_placeholders, bad.contains_placeholder, bad.convert):
        try:
            r = f()
            print(f.__name__, "->", r.s if isinstance(r, SigmaString) else repr(r))
        except Exception as e:
            print(f.__name__, "->", type(e).__name__, e)

    print("== regular expressions ==")
    for s in ("a%a%b", "%a%|%b%", "\\%a\\%x", "[%]%a%", "(%a%)+", "%a", "a\\\\%a%"):
        try:
            r = SigmaRegularExpression(s)
            r2 = r.insert_placeholders()
            print(repr(s), "->", r2.regexp.s, "| same:", r2 is r, "| plain:", repr(r2.to_plain()),
                  "| contains:", r2.contains_placeholder(), r2.contains_placeholder(["a"]),
                  r2.contains_placeholder(None, ["a"]))
            for x in r2.replace_placeholders(cb):
                try:
                    print("    ", x.regexp.s, repr(x.escape(("/",))))
                except SigmaError as e:
                    print("    ", x.regexp.s, type(e).__name__, e)
        except SigmaError as e:
            print(repr(s), "->", type(e).__name__, e)

    print("== transformation level ==")
    from sigma.conditions import ConditionAND, ConditionOR
    from sigma.processing.transformations import (
        QueryExpressionPlaceholderTransformation,
        ValueListPlaceholderTransformation,
        WildcardPlaceholderTransformation,
    )
    from sigma.rule import SigmaDetectionItem
    from sigma.types import SigmaExpansion, SigmaNull, SigmaNumber

    def values():
        return [
            SigmaNumber(5),
            SigmaString("plain"),
            SigmaString("x%a%").insert_placeholders(),
            SigmaCasedString("%a%%b%").insert_placeholders(),
            SigmaExpansion(
                [SigmaString("-p %a%").insert_placeholders(), SigmaString("/p"), SigmaNumber(1)]
            ),
            SigmaExpansion([SigmaString("nothing"), SigmaNull()]),
            SigmaRegularExpression("r%b%+").insert_placeholders(),
            SigmaNull(),
            SigmaString("%e%").insert_placeholders(),
        ]

    def show(v):
        if isinstance(v, SigmaExpansion):
            return "Expansion(" + ", ".join(show(x) for x in v.values) + ")"
        if isinstance(v, SigmaRegularExpression):
            return f"Re({v.regexp.s})"
        if isinstance(v, SigmaString):
            return f"{type(v).__name__}({v.s})"
        return repr(v)

    pipeline = ProcessingPipeline(vars={"a": ["A1", "A2"], "b": "B", "e": []})
    transformations = {
        "valuelist": lambda: ValueListPlaceholderTransformation(),
        "valuelist include a": lambda: ValueListPlaceholderTransformation(include=["a"]),
        "valuelist exclude a,e": lambda: ValueListPlaceholderTransformation(exclude=["a", "e"]),
        "valuelist include zz": lambda: ValueListPlaceholderTransformation(include=["zz"]),
        "wildcard": lambda: WildcardPlaceholderTransformation(),
        "wildcard exclude b": lambda: WildcardPlaceholderTransformation(exclude=["b"]),
        "queryexpr include zz": lambda: QueryExpressionPlaceholderTransformation(
            include=["zz"], expression="{field} in {id}"
        ),
    }
    for (tname, make), linking, subset in itertools.product(
        transformations.items(), (ConditionOR, ConditionAND), (slice(None), slice(0, 2), slice(2, 3), slice(5, 8), slice(0, 0))
    ):
        t = make()
        t.set_pipeline(pipeline)
        vals = values()[subset]
        item = SigmaDetectionItem("field", [], vals)
        item.value_linking = linking
        value_list_before = item.value
        try:
            res = t.apply_detection_item(item)
            print(f"{tname:24} {linking.__name__:13} {len(vals)} values -> returned item: {res is item}, None: {res is None}, "
                  f"value list replaced: {item.value is not value_list_before}")
            for v in item.value:
                print("      ", show(v))
        except SigmaError as e:
            print(f"{tname:24} {linking.__name__:13} {len(vals)} values -> {type(e).__name__}: {e} | "
                  f"value list untouched: {item.value is value_list_before and [show(v) for v in item.value] == [show(v) for v in vals]}")
    for tname, make in transformations.items():
        t = make()
        t.set_pipeline(pipeline)
        print(tname)
        for v in values():
            try:
                r = t.apply_value("field", v)
                print("       apply_value", show(v), "->", None if r is None else [show(x) for x in r])
            except SigmaError as e:
                print("       apply_value", show(v), "->", type(e).__name__, e)

    t = ValueListPlaceholderTransformation()
    try:
        print(list(t.placeholder_replacements(Placeholder("a"))))
    except SigmaError as e:
        print("no pipeline ->", type(e).__name__, e)

    return 0


if __name__ == "__main__":
    sys.exit(main())
