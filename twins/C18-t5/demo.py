"""Exercise CIDR expansion, validation and conversion (property C18)."""
import hashlib
import ipaddress
import random

import sigma.types
from sigma.backends.test import TextQueryTestBackend
from sigma.collection import SigmaCollection
from sigma.exceptions import SigmaError
from sigma.types import SigmaCIDRExpression

print("module:", sigma.types.__file__.replace("/tmp/wt6-C18/", ""))


def show(label, value):
    print(f"{label}: {value!r}")


def digest(items):
    return hashlib.sha256("\n".join(items).encode()).hexdigest()[:16]


# --- IPv4: all prefix lengths for several base addresses -------------------------------------
rnd = random.Random(18)
v4_bases = [0, 0xFFFFFFFF, 0x0A000000, 0xC0A801FF, 0x7F000001, 0x80000000] + [
    rnd.getrandbits(32) for _ in range(4)
]
for base in v4_bases:
    for plen in range(33):
        net = ipaddress.ip_network((base, plen), strict=False)
        pats = SigmaCIDRExpression(str(net)).expand()
        if len(pats) <= 8:
            show(f"v4 {net}", pats)
        else:
            show(f"v4 {net}", (len(pats), pats[0], pats[-1], digest(pats)))

# --- IPv6: all prefix lengths, addresses with and without zero runs --------------------------
v6_bases = [
    "::",
    "::1",
    "fe80::",
    "2001:db8::",
    "2001:db8:0:0:1::",
    "2001:0:0:1::1",
    "1:2:3:4:5:6:7:8",
    "1:0:3:0:5:0:7:0",
    "0:2:0:4:0:6:0:8",
    "ffff:ffff:ffff:ffff:ffff:ffff:ffff:ffff",
    "1::8",
    "1:2:3:4::",
    "::5:6:7:8",
    "1:2:3::6:7:8",
]
for base in v6_bases:
    addr = int(ipaddress.IPv6Address(base))
    for plen in range(129):
        net = ipaddress.ip_network((addr, plen), strict=False)
        pats = SigmaCIDRExpression(str(net)).expand()
        show(f"v6 {net}", pats)

# --- other wildcard strings, host-bit forms, equality, str -----------------------------------
for cidr, wc in [
    ("10.0.0.0/7", "%"),
    ("0.0.0.0/0", ""),
    ("192.168.1.1/32", ".*"),
    ("192.168.1.1", "*"),
    ("::1", "*"),
    ("fe80::/64", "?"),
    ("fe80::/63", "[*]"),
    ("::/0", "%"),
    ("010.1.2.0/24", "*"),
]:
    try:
        e = SigmaCIDRExpression(cidr)
        show(f"wc {cidr} {wc!r}", (str(e), str(e.network), e.expand(wc), e.expand(wildcard=wc)))
    except SigmaError as exc:
        show(f"wc {cidr} {wc!r}", (type(exc).__name__, str(exc)))
a, b = SigmaCIDRExpression("10.0.0.0/8"), SigmaCIDRExpression("10.0.0.0/8")
show("eq", (a == b, a == SigmaCIDRExpression("10.0.0.0/9"), a.network == b.network, repr(a)))

# --- invalid values --------------------------------------------------------------------------
for bad in [
    "",
    "abc",
    "10.0.0.1/8",
    "10.0.0.0/33",
    "10.0.0.0/-1",
    "10.0.0.0/8/8",
    "10.0.0/8",
    "256.0.0.0/8",
    "fe80::1%eth0/128",
    "fe80::%eth0/64",
    "fe80::1%/128",
    "abc%def",
    "10.0.0.0%1/8",
    "::1/129",
    ":::/0",
    "fe80::1/64",
    "1.2.3.4/255.255.255.255",
    "1.2.3.0/0.0.0.255",
    " 10.0.0.0/8",
    "10.0.0.0/ 8",
    "10.0.0.0/8\n",
]:
    try:
        e = SigmaCIDRExpression(bad, source=None)
        show(f"bad {bad!r}", ("accepted", str(e.network), e.expand()))
    except Exception as exc:
        show(
            f"bad {bad!r}",
            (type(exc).__name__, str(exc), type(exc.__context__).__name__, exc.__suppress_context__),
        )

# --- re-validation of an existing object (side effects on the object) ------------------------
obj = SigmaCIDRExpression("10.0.0.0/8")
for newval in ["fe80::1%eth0/128", "nonsense", "192.168.0.0/16"]:
    obj.cidr = newval
    try:
        obj.__post_init__()
        show(f"revalidate {newval}", ("ok", str(obj.network)))
    except SigmaError as exc:
        show(f"revalidate {newval}", (type(exc).__name__, str(exc), str(obj.network)))


# --- conversion: native and expanded ---------------------------------------------------------
class NoCIDRBackend(TextQueryTestBackend):
    cidr_expression = None


class NoCIDRNoInBackend(TextQueryTestBackend):
    cidr_expression = None
    convert_or_as_in = False
    convert_and_as_in = False


class TemplateBackend(TextQueryTestBackend):
    cidr_expression = "cidr({field},{value},{network},{prefixlen},{netmask})"


RULE = """
title: Test
status: test
logsource:
    category: test_category
    product: test_product
detection:
    sel:
        fieldA|cidr: {v1}
        fieldB: foo
    other:
        fieldC|cidr:
            - {v1}
            - {v2}
    condition: {cond}
"""
for v1, v2 in [
    ("192.168.0.0/14", "10.10.10.0/24"),
    ("10.1.2.3/32", "0.0.0.0/0"),
    ("fe80::/10", "::1/128"),
    ("2001:db8::/47", "::/1"),
    ("1.2.3.4", "::ffff:1.2.3.4/128"),
    ("10.0.0.0/255.0.0.0", "1:2:3:4:5:6:7:8/125"),
]:
    for cond in ["sel", "sel and other", "sel or not other", "not sel and other"]:
        for backend_cls in (TextQueryTestBackend, TemplateBackend, NoCIDRBackend, NoCIDRNoInBackend):
            try:
                rule = SigmaCollection.from_yaml(RULE.format(v1=v1, v2=v2, cond=cond))
                show(f"conv {backend_cls.__name__} {v1} {v2} [{cond}]", backend_cls().convert(rule))
            except Exception as exc:
                show(
                    f"conv {backend_cls.__name__} {v1} {v2} [{cond}]",
                    (type(exc).__name__, str(exc)),
                )

# --- modifier errors -------------------------------------------------------------------------
for det in [
    "fieldA|cidr: 10.0.0.1/8",
    "fieldA|cidr: fe80::1%eth0/128",
    "fieldA|contains|cidr: 10.0.0.0/8",
    "fieldA|cidr|contains: 10.0.0.0/8",
    "fieldA|cidr: 10",
    "fieldA|cidr: 10.0.*.0/8",
    "'|cidr': 10.0.0.0/8",
    "fieldA|cidr|all: [10.0.0.0/8, 10.0.0.0/9]",
]:
    text = (
        "title: T\nstatus: test\nlogsource:\n    category: c\ndetection:\n    sel:\n        "
        + det
        + "\n    condition: sel\n"
    )
    for backend_cls in (TextQueryTestBackend, NoCIDRBackend):
        try:
            rule = SigmaCollection.from_yaml(text)
            show(f"mod {backend_cls.__name__} {det}", backend_cls().convert(rule))
        except Exception as exc:
            show(f"mod {backend_cls.__name__} {det}", (type(exc).__name__, str(exc)))
