"""Demo for C02: condition text -> boolean function.

Builds rules from plain dicts, parses their conditions (raw parse tree and postprocessed
condition tree), prints the trees and the full truth table over all assignments of the
detections.  Also exercises ConditionSelector.resolve_referenced_detections / postprocess directly with
many name sets and patterns (odd ones included).
Run: PYTHONPATH=/tmp/wt5-C02 /venv/bin/python demo.py
"""
import itertools
import sys
from typing import ClassVar
from dataclasses import dataclass

from pyparsing import ParseResults

from sigma.conditions import (
    ConditionAND,
    ConditionFieldEqualsValueExpression,
    ConditionIdentifier,
    ConditionItem,
    ConditionNOT,
    ConditionOR,
    ConditionSelector,
    ConditionValueExpression,
    SigmaCondition,
    _parse_condition_string,
)
from sigma.exceptions import SigmaError
from sigma.rule import SigmaDetections

NAMES = [
    "sel",
    "sel1",
    "sel2",
    "notepad",
    "android",
    "oracle",
    "all_in",
    "anything",
    "of-course",
    "them_too",
    "1st",
    "filter_main",
    "_injected",
    "_filt_ab12_x",
]

CONDITIONS = [
    "sel",
    "not sel",
    "not not sel",
    "not not not sel",
    "sel and sel1",
    "sel or sel1",
    "sel and sel1 and sel2",
    "sel or sel1 or sel2",
    "sel or sel1 and sel2",
    "sel and sel1 or sel2",
    "sel or not sel1 and sel2",
    "not sel or sel1 and not sel2",
    "not (sel or sel1) and sel2",
    "(sel or sel1) and (sel2 or notepad)",
    "((sel))",
    "(((sel and sel1)))",
    "sel and (sel1 or (sel2 and not (notepad or android)))",
    "sel and not sel1 or sel2 and not notepad or android",
    "notepad",
    "not notepad",
    "notepad and android or oracle",
    "not android and not oracle",
    "all_in or anything and of-course",
    "them_too and 1st",
    "not 1st",
    "1 of sel*",
    "any of sel*",
    "all of sel*",
    "1 of them",
    "all of them",
    "any of them",
    "1 of *",
    "all of *",
    "1 of *_in",
    "1 of s*l*",
    "all of *n*",
    "1 of _*",
    "all of _*",
    "1 of _filt_*",
    "1 of _filt_ab12_*",
    "1 of filter_*",
    "not 1 of sel*",
    "not all of sel*",
    "sel and not 1 of filter_*",
    "1 of sel* and all of *o*",
    "all of sel* or 1 of a* and not notepad",
    "(1 of sel*) and not (all of a*)",
    "1 of sel",
    "all of notepad",
    "  sel   and\tsel1  ",
    "SEL",
    "sel AND sel1",
    "sel and",
    "and sel",
    "sel sel1",
    "(sel and sel1",
    "sel and sel1)",
    "",
    "not",
    "1 of",
    "2 of sel*",
    "1 of nomatch*",
    "all of zzz",
    "undefined",
    "sel and undefined",
    "sel | count() > 5",
    "1 of sel* | count() > 5",
    "sel.x",
    "1 of (sel*)",
    "not1 of sel*",
    "all of them and not them_too",
    "them",
    "of",
    "sel of sel",
    "1 of 1st",
    "any of an*",
]


def detections_dict(names, condition):
    d = {name: {"f_" + name: "v"} for name in names}
    d["condition"] = condition
    return d


def chain(node):
    try:
        return ">".join(c.__name__ for c in node.parent_chain_classes())
    except Exception as e:  # pragma: no cover
        return "!" + type(e).__name__


def show(node):
    """Serialise a tree including the class chain of the parents of each node."""
    if node is None:
        return "None"
    if isinstance(node, ConditionIdentifier):
        return "Id(%r)" % (node.identifier,)
    if isinstance(node, ConditionSelector):
        return "Sel(%s,%r,%r)" % (node.cond_class.__name__, node.pattern, node.args)
    if isinstance(node, ConditionItem):
        return "%s[%s](%s)" % (
            type(node).__name__,
            chain(node),
            ", ".join(show(a) for a in node.args),
        )
    if isinstance(node, ConditionFieldEqualsValueExpression):
        return "FV[%s](%s=%s)" % (chain(node), node.field, node.value)
    if isinstance(node, ConditionValueExpression):
        return "V[%s](%s)" % (chain(node), node.value)
    if isinstance(node, str):
        return repr(node)
    return "?%s" % type(node).__name__


def evaluate(node, env):
    if isinstance(node, ConditionAND):
        return all(evaluate(a, env) for a in node.args)
    if isinstance(node, ConditionOR):
        return any(evaluate(a, env) for a in node.args)
    if isinstance(node, ConditionNOT):
        return not evaluate(node.args[0], env)
    if isinstance(node, ConditionFieldEqualsValueExpression):
        return env[node.field]
    raise TypeError(type(node).__name__)


def truth_table(tree, names):
    bits = []
    for values in itertools.product([False, True], repeat=len(names)):
        env = {"f_" + n: v for n, v in zip(names, values)}
        bits.append("1" if evaluate(tree, env) else "0")
    s = "".join(bits)
    # compress: the table over 14 names has 16384 entries; print a digest and the head
    import hashlib

    return "%s..(%d) sha1=%s" % (s[:32], len(s), hashlib.sha1(s.encode()).hexdigest()[:16])


def run_condition(names, cond):
    print("== %r" % (cond,))
    try:
        dets = SigmaDetections.from_dict(detections_dict(names, cond))
    except SigmaError as e:
        print("   construct: %s: %s" % (type(e).__name__, e))
        return
    c = dets.parsed_condition[0]
    for label, fn in (("raw   ", lambda: c.parse(False)), ("parsed", lambda: c.parsed)):
        try:
            tree = fn()
        except SigmaError as e:
            print("   %s: %s: %s" % (label, type(e).__name__, e))
            continue
        except Exception as e:
            print("   %s: UNEXPECTED %s: %s" % (label, type(e).__name__, e))
            continue
        print("   %s: %s" % (label, show(tree)))
        if label == "parsed" and tree is not None:
            print("   truth : %s" % truth_table(tree, names))
    # second access: parse cache hands out fresh copies
    try:
        a, b = c.parsed, c.parsed
        print("   again : equal=%s same=%s" % (a == b, a is b))
    except SigmaError as e:
        print("   again : %s" % type(e).__name__)


def run_selectors():
    """Selector resolution called directly: many name sets x patterns, odd patterns, odd names."""
    from sigma.rule import SigmaDetection

    print("== resolve_referenced_detections directly")
    name_sets = [
        ["a"],
        ["_a"],
        ["a", "_a", "__a", "_filt_a", "_filt_", "_filt", "filt_a", "a_", "a_filt_b"],
        ["sel", "selection", "sel_1", "sel-2", "not_sel", "_sel", "_filt_xyz_sel", "them", "*"],
        ["1", "all", "any", "of", "them", "not", "and", "or"],
        ["", " ", "a b", "a\nb", "a.b", "A", "\u00e4"],
    ]
    patterns = [
        "them", "*", "**", "a", "a*", "*a", "*a*", "s*l*", "sel", "sel*", "sel_*", "sel-*",
        "_*", "_a", "__*", "_filt_*", "_filt*", "_fil*", "_filt_xyz_*", "*_sel", "*sel",
        "*_", "them*", "*them", "1", "all", "", "a.b", "a.*", ".", "A", "a|sel", "(a)", "[a_]*",
        "se[l", "a(", "*+", "+", "\\",
    ]
    for names in name_sets:
        dets = SigmaDetections(
            detections={n: SigmaDetection.from_definition({"f": "v"}) for n in names},
            condition=["1 of them"],
        )
        print("   names=%r" % (names,))
        for q in ("1", "all"):
            for pat in patterns:
                sel = ConditionSelector([q, pat])
                try:
                    ids = sel.resolve_referenced_detections(dets)
                    res = "%s %s" % (type(ids).__name__, [i.identifier for i in ids])
                    assert all(type(i) is ConditionIdentifier and i.parent is None for i in ids)
                except Exception as e:
                    res = "%s: %s" % (type(e).__name__, e)
                if q == "1":
                    print("     %-14r -> %s" % (pat, res))
                try:
                    tree = sel.postprocess(dets)
                    res2 = show(tree)
                except Exception as e:
                    res2 = "%s: %s" % (type(e).__name__, e)
                print("     %-3s of %-10r => %s" % (q, pat, res2))
    # names that are not strings
    for key in (5, None, b"sel", ("a",)):
        dets = SigmaDetections(
            detections={"sel": SigmaDetection.from_definition({"f": "v"}), key: SigmaDetection.from_definition({"f": "v"})},
            condition=["1 of them"],
        )
        for pat in ("them", "sel*", "_*", "zzz"):
            try:
                ids = ConditionSelector(["1", pat]).resolve_referenced_detections(dets)
                res = [i.identifier for i in ids]
            except Exception as e:
                res = "%s: %s" % (type(e).__name__, e)
            print("   key=%r pat=%r -> %s" % (key, pat, res))
    # patterns that are not strings
    dets = SigmaDetections(
        detections={"sel": SigmaDetection.from_definition({"f": "v"})}, condition=["sel"]
    )
    for pat in (None, 5, b"sel*", ["sel"]):
        try:
            sel = ConditionSelector(["1", pat])
            res = [i.identifier for i in sel.resolve_referenced_detections(dets)]
        except Exception as e:
            res = "%s: %s" % (type(e).__name__, e)
        print("   pattern=%r -> %s" % (pat, res))
    # the resolved condition keeps order of definition and source
    from sigma.exceptions import SigmaRuleLocation

    loc = SigmaRuleLocation("x.yml")
    dets = SigmaDetections.from_dict(detections_dict(["b", "a", "_c", "c"], "all of them"), loc)
    t = dets.parsed_condition[0].parsed
    print("   order:", show(t), t.source == loc, [type(a.parent).__name__ for a in t.args])
    try:
        SigmaDetections.from_dict(detections_dict(["b"], "1 of q*"), loc).parsed_condition[0].parsed
    except SigmaError as e:
        print("   nomatch:", type(e).__name__, str(e).split(" in ")[0], e.source == loc)


def run_filter():
    """A filter applied to a rule: filter identifiers carry the _filt_ prefix."""
    import random
    import re
    from sigma.collection import SigmaCollection
    from sigma.filters import SigmaFilter

    print("== filter applied to rules")
    for rule_cond in ("1 of sel*", "all of them", "1 of _*", "sel_a and not 1 of filter_*", "1 of *"):
        for filt_cond in ("not selection", "not 1 of them", "not all of sel*", "not 1 of *_x"):
            random.seed(1234)
            rules = SigmaCollection.from_yaml(
                """
title: r
id: 6f3e2987-db24-4c78-a860-b4f4095a7095
logsource:
    category: process_creation
    product: windows
detection:
    sel_a:
        fa: 1
    sel_b:
        fb: 2
    filter_c:
        fc: 3
    _own:
        fo: 4
    condition: %s
"""
                % rule_cond
            )
            flt = SigmaFilter.from_yaml(
                """
title: f
logsource:
    category: process_creation
    product: windows
filter:
  rules:
    - 6f3e2987-db24-4c78-a860-b4f4095a7095
  selection:
      User|startswith: 'adm_'
  sel_x:
      Ux: 1
  condition: %s
"""
                % filt_cond
            )
            try:
                rules.apply_filters([flt])
                rule = rules.rules[0]
                cond = rule.detection.parsed_condition[0]
                out = "%s => %s" % (cond.condition, show(cond.parsed))
            except Exception as e:
                out = "%s: %s" % (type(e).__name__, e)
            out = re.sub(r"_filt_[a-z]{10}", "_filt_R", out)
            out = re.sub(r"\[[A-Za-z>]*\]", "", out)
            print("   %-28r + %-18r: %s" % (rule_cond, filt_cond, out))


def main():
    for cond in CONDITIONS:
        run_condition(NAMES, cond)
    # small name set: selectors that resolve to a single detection collapse
    for cond in ["1 of s*", "all of s*", "not 1 of s*", "x and all of s*", "1 of them", "1 of _*"]:
        run_condition(["sel", "x", "_y"], cond)
    run_selectors()
    run_filter()
    info = _parse_condition_string.cache_info()
    print("cache: hits=%d misses=%d maxsize=%d" % (info.hits, info.misses, info.maxsize))
    return 0


if __name__ == "__main__":
    sys.exit(main())
