"""Demo for C07 / t4: level, status, date and modified parsing in from_dict_common_params.

Prints, for many malformed documents, what strict loading raises and what collecting loading
returns. Output must be identical with and without the patch.
"""
import copy
import datetime
import sys

from sigma.collection import SigmaCollection
from sigma.correlations import SigmaCorrelationRule
from sigma.exceptions import SigmaError
from sigma.filters import SigmaFilter
from sigma.rule import SigmaRule

RULE = {
    "title": "Test rule",
    "id": "9a6cafa7-1481-4e64-89a1-1f69ed08618c",
    "status": "test",
    "level": "high",
    "date": "2024-01-02",
    "modified": "2024/3/4",
    "logsource": {"category": "process_creation", "product": "windows"},
    "detection": {"sel": {"Image|endswith": "\\cmd.exe"}, "condition": "sel"},
}
CORRELATION = {
    "title": "Test correlation",
    "name": "corr",
    "status": "stable",
    "level": "low",
    "date": datetime.date(2024, 5, 6),
    "correlation": {
        "type": "event_count",
        "rules": ["rule_a"],
        "group-by": ["user"],
        "timespan": "5m",
        "condition": {"gte": 10},
    },
}
FILTER = {
    "title": "Test filter",
    "status": "experimental",
    "level": "informational",
    "modified": datetime.datetime(2024, 7, 8, 9, 10, 11),
    "logsource": {"product": "windows"},
    "filter": {"rules": ["rule_a"], "sel": {"User": "admin"}, "condition": "not sel"},
}


class OddStr(str):
    """String subclass, e.g. from a custom loader."""


VALUES = {
    "level": [
        "high", "HIGH", "High", "critical", "informational", "medium", "low",
        "", " high", "high ", "hıgh", "nonsense", "ß", OddStr("low"), OddStr("bad"),
        None, 0, 1, 1.5, True, False, [], ["high"], {}, {"a": "b"}, b"high",
        datetime.date(2024, 1, 1),
    ],
    "status": [
        "test", "TEST", "stable", "experimental", "deprecated", "unsupported",
        "", "tset", "test\n", "ſtable", OddStr("stable"), OddStr("nope"),
        None, 0, 2, 2.5, True, [], ["test"], {}, {"x": 1}, b"test",
        datetime.datetime(2024, 1, 1, 0, 0),
    ],
    "date": [
        "2024-01-02", "2024/01/02", "2024/1/2", "2024/1/02", "2024/01/2", "1000-01-01",
        "3999-12-31", "3999/12/31", "0999-12-31", "4000-01-01", "2024-1-2", "24-1-24", "24/1/1",
        "2024-13-01", "2024-00-10", "2024-02-30", "2024/19/1", "2024/2/39", "2024/0/1", "2024/1/0",
        "2024-01-02 ", " 2024-01-02", "2024-01-02\n", "2024-01-02T10:00:00", "２０２４-01-02",
        "", "today", None, 0, 20240102, 2024.0102, True, False, [], ["2024-01-02"], {},
        {"2024-01-02": None}, b"2024-01-02", datetime.date(1, 1, 1),
        datetime.datetime(2024, 1, 2, 3, 4, 5), OddStr("2024-01-02"), OddStr("x"),
    ],
}
VALUES["modified"] = VALUES["date"]

KINDS = [
    ("rule", SigmaRule, RULE),
    ("correlation", SigmaCorrelationRule, CORRELATION),
    ("filter", SigmaFilter, FILTER),
]


def show_error(e):
    return f"{type(e).__module__}.{type(e).__name__}: {e}"


def load_both(cls, doc):
    """Returns a printable description of strict and collecting loading of doc."""
    try:
        obj = cls.from_dict(copy.deepcopy(doc))
        strict = "ok " + " ".join(
            f"{a}={getattr(obj, a)!r}" for a in ("level", "status", "date", "modified")
        )
        raised = None
    except SigmaError as e:
        strict = "raises " + show_error(e)
        raised = e
    try:
        obj = cls.from_dict(copy.deepcopy(doc), collect_errors=True)
    except Exception as e:  # must never happen
        return strict, "COLLECTING RAISED " + show_error(e), False
    collected = "errors=[" + "; ".join(show_error(e) for e in obj.errors) + "] " + " ".join(
        f"{a}={getattr(obj, a)!r}" for a in ("level", "status", "date", "modified")
    )
    consistent = (raised is None and not obj.errors) or (
        raised is not None and bool(obj.errors) and obj.errors[0] == raised
    )
    return strict, collected, consistent


def main():
    bad = 0
    for kind, cls, base in KINDS:
        for attr, values in VALUES.items():
            for value in values:
                doc = copy.deepcopy(base)
                doc[attr] = value
                try:
                    strict, collected, consistent = load_both(cls, doc)
                except Exception as e:  # non-Sigma exception escaped from strict loading
                    strict, collected, consistent = "ESCAPED " + show_error(e), "", False
                print(f"{kind} {attr}={value!r}")
                print(f"   strict    : {strict}")
                print(f"   collecting: {collected}")
                print(f"   consistent: {consistent}")
                bad += not consistent
            # attribute missing
            doc = copy.deepcopy(base)
            doc.pop(attr, None)
            print(f"{kind} without {attr}: {load_both(cls, doc)}")
        # several broken attributes at once: order of collected errors
        doc = copy.deepcopy(base)
        doc.update({"level": "x", "status": ["y"], "date": "1-2-3", "modified": {}, "id": "no"})
        print(f"{kind} all broken: {load_both(cls, doc)}")

    # the same through a collection
    docs = [dict(RULE, level="nope"), dict(RULE, status=5, date="2024-1-1"), dict(RULE)]
    try:
        SigmaCollection.from_dicts(copy.deepcopy(docs))
    except SigmaError as e:
        print("collection strict raises", show_error(e))
    coll = SigmaCollection.from_dicts(copy.deepcopy(docs), collect_errors=True)
    print("collection errors:", [show_error(e) for e in coll.errors])
    for r in coll.rules:
        print("  rule errors:", [show_error(e) for e in r.errors], r.level, r.status, r.date)
    yaml_doc = "title: T\nlevel: [high]\nstatus: gone\ndate: \"2024-99-01\"\nlogsource:\n  product: x\ndetection:\n  s:\n    a: b\n  condition: s\n"
    coll = SigmaCollection.from_yaml(yaml_doc, collect_errors=True)
    print("yaml collection errors:", [show_error(e) for e in coll.errors])
    try:
        SigmaCollection.from_yaml(yaml_doc)
    except SigmaError as e:
        print("yaml collection strict raises", show_error(e))

    # keys that look like internals of the rule classes stay custom attributes
    for kind, cls, base in KINDS:
        doc = dict(copy.deepcopy(base), _accepted_date_regexps=["x"], get_rule_as_enum=1, errors=[1])
        obj = cls.from_dict(doc, collect_errors=True)
        print(kind, "custom attributes:", obj.custom_attributes, "errors:", obj.errors)

    print("inconsistent cases:", bad)
    return 0


if __name__ == "__main__":
    sys.exit(main())
