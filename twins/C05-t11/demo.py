"""Demo for C05/t11: the Sigma string parser and every rendering that depends on its result."""
import hashlib
import itertools
import re

from sigma.backends.test import TextQueryTestBackend
from sigma.conversion.state import ConversionState
from sigma.exceptions import SigmaValueError
from sigma.types import SigmaString, SigmaCasedString, SpecialChars

SAMPLES = [
    None,
    "",
    "plain",
    "*",
    "?",
    "**",
    "*?*",
    "a*b?c",
    "\\",
    "\\\\",
    "\\\\\\",
    "\\*",
    "\\?",
    "\\\\*",
    "\\\\\\*",
    "\\a",
    "a\\",
    "a\\*",
    "*\\",
    "C:\\Windows\\*\\cmd.exe",
    "\\\\server\\share\\?",
    'quo"te\'s',
    "re.g+ex^$[](){}|",
    "%placeholder%",
    "\u00e4\u00f6\u00fc*\u20ac?",
    "tab\there\nnewline*",
    " * ",
]


def render_all(value, escape=True):
    out = []
    s = SigmaString(value, escape) if value is not None else SigmaString()
    out.append(("original", s.original))
    out.append(("parts", repr(s.s)))
    plain = s.to_plain()
    out.append(("plain", plain))
    out.append(("plain_regex", s.to_plain(regex=True)))
    if escape:
        out.append(("roundtrip", SigmaString(plain).s == s.s))
    out.append(("convert_default", s.convert()))
    out.append(
        (
            "convert_custom",
            s.convert(escape_char="^", wildcard_multi="%%", wildcard_single="_", add_escaped='"^', filter_chars="'"),
        )
    )
    try:
        out.append(("convert_nowild", s.convert(wildcard_multi=None, wildcard_single=None)))
    except SigmaValueError as e:
        out.append(("convert_nowild", f"{type(e).__name__}: {e}"))
    try:
        out.append(("convert_noescape", s.convert(escape_char=None, add_escaped="\\")))
    except SigmaValueError as e:
        out.append(("convert_noescape", f"{type(e).__name__}: {e}"))
    rx = s.to_regex()
    out.append(("regex", (str(rx.regexp), repr(rx.regexp.s))))
    out.append(("len", len(s)))
    out.append(("wild", (s.contains_special(), s.startswith(SpecialChars.WILDCARD_MULTI), s.endswith(SpecialChars.WILDCARD_MULTI))))
    if len(s) > 1:
        out.append(("slice", repr(s[1:].s) + " " + repr(s[:-1].s)))
    return out


print("== explicit samples ==")
for value in SAMPLES:
    for escape in (True, False):
        print(repr(value), "escape=", escape)
        for k, v in render_all(value, escape):
            print("   ", k, "=>", repr(v))

print("== regex rendering matches what the wildcard pattern matches ==")
subjects = ["", "a", "ab", "a*b", "a\\b", "\\", "*", "?", "axb", "a.b", "ab."]
for value in ["a*b", "a?b", "a\\*b", "a\\\\*b", "a\\\\b", "*", "\\*", "\\?", "a.b", "\\"]:
    rx = re.compile(str(SigmaString(value).to_regex().regexp), re.DOTALL)
    print(repr(value), [subj for subj in subjects if rx.fullmatch(subj)])

print("== exhaustive: alphabet x length <= 6, digest of all renderings ==")
alphabet = ["\\", "*", "?", '"', "a", "."]
for escape in (True, False):
    digest = hashlib.sha256()
    count = 0
    roundtrip_failures = 0
    for n in range(0, 7):
        for chars in itertools.product(alphabet, repeat=n):
            value = "".join(chars)
            s = SigmaString(value, escape)
            plain = s.to_plain()
            if escape and SigmaString(plain).s != s.s:
                roundtrip_failures += 1
            record = (
                value,
                repr(s.s),
                plain,
                s.convert(),
                s.convert(escape_char="^", wildcard_multi=".*", wildcard_single="_", add_escaped='"', filter_chars="a"),
                str(s.to_regex().regexp),
            )
            digest.update(repr(record).encode())
            count += 1
    print("escape=", escape, "count=", count, "roundtrip_failures=", roundtrip_failures, "sha256=", digest.hexdigest())

print("== non-string iterables and odd arguments (parser sees items one by one) ==")
for value in [["ab", "*", "cd"], ("\\", "xy"), ["", "?"], [""], ["\\", "\\", "*"], [SpecialChars.WILDCARD_MULTI], ["a", 5], 5, ["\\", 5]]:
    for escape in (True, False, 0, "yes"):
        try:
            s = SigmaString(value, escape)  # type: ignore[arg-type]
            print(repr(value), repr(escape), "->", repr(s.s), repr(s.original))
        except Exception as e:
            print(repr(value), repr(escape), "->", type(e).__name__, str(e))

print("== subclass ==")
cs = SigmaCasedString("Ab\\*c*\\d\\")
print(type(cs).__name__, repr(cs.s), cs.to_plain(), cs.convert(), str(cs.to_regex().regexp))

print("== backend: convert_value_str / escape_and_quote_field ==")
backend = TextQueryTestBackend()
state = ConversionState()
for value in ["plain", "with space", 'quo"te', "back\\slash", "wild*card?", "\\*literal\\?", "a\\\\*", "", "C:\\dir\\*\\x.exe", "test*", "*"]:
    print(repr(value), "=>", repr(backend.convert_value_str(SigmaString(value), state)))
for name in ["field", "field name", "fie'ld", "a.b", "", "f*", "f\\x"]:
    print("field", repr(name), "=>", repr(backend.escape_and_quote_field(name)))
