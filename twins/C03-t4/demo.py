"""Demo for C03 / t4: observe value, value_linking, negated (or the exception) of detection items
built with modifier chains; plus direct probes of SigmaString.startswith/endswith/+ which were rewritten."""
import itertools
import sys

from sigma.exceptions import SigmaError
from sigma.modifiers import modifier_mapping
from sigma.rule import SigmaDetectionItem
from sigma.types import Placeholder, SigmaCasedString, SigmaString, SpecialChars

VALUES = [
    "", "abc", "*abc", "abc*", "*abc*", "*", "?", "**", "a*b?c", "\\*abc\\*", "abc\\", "abc\\\\", "abc\\\\*",
    "\\", "-param /switch -a-b x/y", "--long -é /ü", "- / -/ /-", "a-b -c", "cmd.exe /c -enc",
    "%var%", "pre%var%post", "\\%var%", "%a%%b%", "100%", "%%", "%a\\%b%", "% a b %*", "föö bär", "中文-–x",
    "10.0.0.0/8", "::1/128", "^foo.*", "foo$", ".*foo", "foo\\$", "foo\\\\.*", "(a|b",
    0, 1, -5, 3.5, 1e10, True, False, None,
    ["a", "b*"], ["-x", 1], [], [None, "n"], ["%a%", "-b%c%"], [1, 2.5], [True],
]

ALL = sorted(modifier_mapping)
CORE = ["all", "neq", "contains", "startswith", "endswith", "windash", "expand", "re", "i", "cased",
        "base64offset", "wide", "fieldref", "lt", "exists", "cidr"]
LONG = [
    ["windash", "contains", "all"], ["expand", "windash", "contains"], ["windash", "expand", "endswith", "neq"],
    ["re", "i", "m", "s"], ["re", "contains", "i"], ["re", "startswith", "endswith"], ["re", "expand", "contains"],
    ["base64offset", "contains", "all"], ["windash", "base64offset", "contains"], ["wide", "base64offset", "contains"],
    ["utf16", "base64", "startswith"], ["cased", "contains", "windash"], ["cased", "windash", "expand", "all"],
    ["fieldref", "contains"], ["fieldref", "startswith", "endswith", "neq"], ["contains", "contains", "contains"],
    ["all", "all", "neq", "neq"], ["windash", "windash"], ["expand", "expand", "cased"], ["lt", "neq"], ["minute", "all"],
]
CHAINS = [[]] + [[m] for m in ALL] + [list(p) for p in itertools.product(CORE, repeat=2)] + LONG


def show(key, value):
    try:
        item = SigmaDetectionItem.from_mapping(key, value)
        out = f"value={item.value!r} linking={item.value_linking.__name__} negated={item.negated}"
    except SigmaError as e:
        out = f"EXC {type(e).__name__}: {e}"
    print(f"{key!r} <- {value!r} => {out}")


for value in VALUES:
    for chain in CHAINS:
        show("|".join(["field"] + chain), value)

print("--- direct SigmaString probes")
W, Q = SpecialChars.WILDCARD_MULTI, SpecialChars.WILDCARD_SINGLE
P = Placeholder("p")
strings = [SigmaString(""), SigmaString("abc"), SigmaString("*abc?"), SigmaString("\\*abc\\?"), SigmaString("a*"),
           SigmaCasedString("*Xy"), SigmaString("%p%x").insert_placeholders(), SigmaString("x%p%").insert_placeholders()]
probes = ["", "a", "abc", "*", "c", "?", W, Q, P, Placeholder("q")]
for s in strings:
    for p in probes:
        print(f"{s!r}.startswith({p!r})={s.startswith(p)} endswith={s.endswith(p)}")
operands = strings + ["", "lit", "\\*", W, Q, P]
for a in operands:
    for b in operands:
        if not isinstance(a, SigmaString) and not isinstance(b, SigmaString):
            continue
        r = a + b
        print(f"{a!r} + {b!r} = {type(r).__name__} {r.s!r} plain={str(r)!r}")
for bad in (1, None, 2.5, ["x"], b"x"):
    for op in (lambda: SigmaString("a") + bad, lambda: bad + SigmaString("a")):
        try:
            print("unexpected", op())
        except TypeError as e:
            print(f"TypeError: {e}")
e = SigmaString("")
print("empty merge keeps list:", e._merge_strs() is e, e.s)
m = SigmaString(); m.s = ["a", "", "b", W, "", Q, Q, "c", "d", P, "", ""]
print("merged:", m._merge_strs().s)
sys.exit(0)
