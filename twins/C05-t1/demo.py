"""Demo for t1: SigmaString.convert() / to_regex() / TextQueryBackend.convert_value_str().

Prints the renderings of a handful of (unusual) values under several escaping
configurations and a digest over an exhaustive sweep (all strings up to length 4
over a nasty alphabet x all configurations).
"""
import hashlib
import itertools
import re

from sigma.conversion.base import TextQueryBackend
from sigma.conversion.state import ConversionState
from sigma.exceptions import SigmaPlaceholderError, SigmaValueError
from sigma.types import Placeholder, SigmaCasedString, SigmaString, SpecialChars

CONFIGS = [
    # escape_char, wildcard_multi, wildcard_single, add_escaped, filter_chars
    dict(),
    dict(escape_char="\\", wildcard_multi="*", wildcard_single="?", add_escaped='"\\', filter_chars=""),
    dict(escape_char="\\", wildcard_multi="%", wildcard_single="_", add_escaped="'", filter_chars="\x00;"),
    dict(escape_char="^", wildcard_multi=".*", wildcard_single=".", add_escaped="+$", filter_chars="a"),
    dict(escape_char=None, wildcard_multi="*", wildcard_single="?", add_escaped="", filter_chars=""),
    dict(escape_char=None, wildcard_multi=None, wildcard_single=None, add_escaped="", filter_chars=""),
    dict(escape_char=None, wildcard_multi=None, wildcard_single=None, add_escaped="", filter_chars="*?"),
    dict(escape_char="\\", wildcard_multi=None, wildcard_single="?", add_escaped="", filter_chars=""),
    dict(escape_char="\\", wildcard_multi="*", wildcard_single=None, add_escaped="", filter_chars="\\"),
    dict(escape_char="", wildcard_multi="", wildcard_single="", add_escaped="", filter_chars=""),
    dict(escape_char="\\\\", wildcard_multi="**", wildcard_single="??", add_escaped='a"', filter_chars='"'),
    dict(escape_char=None, wildcard_multi="*", wildcard_single="?", add_escaped="", filter_chars="*?"),
]

VALUES = [
    "",
    "plain",
    "*",
    "?",
    "a*b?c",
    "\\*",
    "\\\\*",
    "\\\\\\*",
    "a\\b",
    "a\\",
    'qu"ote\'s',
    "\\?\\*\\\\",
    "a.b+c$[d](e){f}|g^",
    "**??",
    "\x00;a;b",
    "ünï*cödé?",
    "%placeholder%",
]


def show(func):
    try:
        return repr(func())
    except (SigmaValueError, SigmaPlaceholderError) as e:
        return f"{type(e).__name__}: {e}"


def regex_of(s):
    r = s.to_regex()
    return (r.regexp.s, r.flags)


class Backend(TextQueryBackend):
    str_quote = '"'
    escape_char = "\\"
    wildcard_multi = "*"
    wildcard_single = "?"
    add_escaped = "\\"
    filter_chars = ""


class BackendQuotePattern(Backend):
    str_quote = "'"
    str_quote_pattern = re.compile(r"^\w+$")
    str_quote_pattern_negation = True
    add_escaped = ":"
    filter_chars = "\x00"


class BackendNoQuote(Backend):
    str_quote = ""
    escape_char = None
    add_escaped = ""


def main():
    print("== explicit values x configurations ==")
    for v in VALUES:
        s = SigmaString(v)
        for i, cfg in enumerate(CONFIGS):
            print(f"{v!r} cfg{i}: {show(lambda: s.convert(**cfg))}")
        print(f"{v!r} regex: {show(lambda: regex_of(s))}")
        print(f"{v!r} regex custom: {show(lambda: s.to_regex('a/').regexp.s)}")

    print("== hand-built part lists ==")
    odd = SigmaString()
    odd.s = ["a*", SpecialChars.WILDCARD_MULTI, "", "?b", SpecialChars.WILDCARD_SINGLE, "\\"]
    ph = SigmaString("x*%var%").insert_placeholders()
    bad = SigmaString()
    bad.s = ["ok", 42]
    cased = SigmaCasedString("Aa*\\*")
    late = SigmaString()
    late.s = [SpecialChars.WILDCARD_MULTI, "*", Placeholder("p")]
    for name, s in [("odd", odd), ("placeholder", ph), ("bad", bad), ("cased", cased), ("late", late)]:
        for i, cfg in enumerate(CONFIGS):
            print(f"{name} cfg{i}: {show(lambda: s.convert(**cfg))}")

    print("== backends ==")
    state = ConversionState()
    for cls in (Backend, BackendQuotePattern, BackendNoQuote):
        backend = cls()
        for v in VALUES:
            s = SigmaString(v)
            print(f"{cls.__name__} {v!r}: {show(lambda: backend.convert_value_str(s, state))}")

    print("== exhaustive sweep ==")
    alphabet = ["\\", "*", "?", '"', "'", "a", ".", ";"]
    h = hashlib.sha256()
    n = 0
    for length in range(0, 5):
        for chars in itertools.product(alphabet, repeat=length):
            s = SigmaString("".join(chars))
            for cfg in CONFIGS:
                h.update(show(lambda: s.convert(**cfg)).encode())
                h.update(b"\0")
                n += 1
            h.update(show(lambda: regex_of(s)).encode())
    print(f"{n} conversions, sha256 {h.hexdigest()}")


if __name__ == "__main__":
    main()
