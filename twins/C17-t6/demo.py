"""Demo for property C17: placeholders are expanded completely or the conversion fails."""
import itertools

from sigma.backends.test import TextQueryTestBackend
from sigma.collection import SigmaCollection
from sigma.exceptions import SigmaError
from sigma.processing.pipeline import ProcessingItem, ProcessingPipeline
from sigma.processing.transformations import (
    QueryExpressionPlaceholderTransformation,
    ValueListPlaceholderTransformation,
    WildcardPlaceholderTransformation,
)
from sigma.types import Placeholder, SigmaRegularExpression, SigmaString, SpecialChars

RULE = """
title: Test
status: test
logsource:
    category: test
detection:
    sel:
{items}
    condition: sel
"""

KEYWORD_RULE = """
title: Test
status: test
logsource:
    category: test
detection:
    keywords|expand:
{items}
    condition: keywords
"""


def rule(*items):
    return RULE.format(items="\n".join("        " + i for i in items))


def keyword_rule(*items):
    return KEYWORD_RULE.format(items="\n".join("        - " + i for i in items))


def run(label, pipeline, rule_yaml):
    try:
        backend = TextQueryTestBackend(pipeline)
        result = backend.convert(SigmaCollection.from_yaml(rule_yaml))
        print(f"{label}: OK {result!r}")
    except SigmaError as e:
        print(f"{label}: {type(e).__name__}: {e}")
    except Exception as e:  # unexpected, but must be identical too
        print(f"{label}: UNEXPECTED {type(e).__name__}: {e}")


def vl(**kwargs):
    return ProcessingItem(ValueListPlaceholderTransformation(**kwargs))


def wc(**kwargs):
    return ProcessingItem(WildcardPlaceholderTransformation(**kwargs))


def qe(**kwargs):
    return ProcessingItem(QueryExpressionPlaceholderTransformation(**kwargs))


VARS = [
    {},
    {"a": []},
    {"a": "single"},
    {"a": 5},
    {"a": 1.5},
    {"a": True},
    {"a": None},
    {"a": ["x", 2, 3.25]},
    {"a": ["x", None]},
    {"a": ["x", ["nested"]]},
    {"a": ("t1", "t2")},
    {"a": {"k": "v"}},
    {"a": ["v*1", "v?2", "p%c"], "b": ["b1", "b2"], "c": "c1"},
    {"a": ["1", "2"], "b": [], "c": "c1"},
    {"a": ["%b%"], "b": ["inner"]},
    {"a": [""], "b": ["\\\\x", "y\\*"]},
]

VALUES = [
    'field|expand: "%a%"',
    'field|expand: "pre%a%post"',
    'field|expand: "%a%-%b%"',
    'field|expand: "%a%*%b%?%c%"',
    'field|expand: "100\\\\%%a%"',
    'field|expand: "\\\\%a\\\\%"',
    'field|expand|contains: "%a%"',
    'field|expand|startswith: "%a%x"',
    'field|expand|endswith: "x%b%"',
    "field|expand|contains|all:\n            - '%a%'\n            - 'lit'\n            - '%b%z'",
    "field|expand:\n            - '%a%'\n            - 'lit*'\n            - '%c%'",
    'field|re|expand: "f[o]+%a%.*\\\\d"',
    'field|re|expand: "%a%|%b%"',
    'field|re|i|expand: "^%c%$"',
    'field|expand: "noplaceholder"',
    'field|expand: 123',
]

n = 0
for vars_ in VARS:
    for value in VALUES:
        n += 1
        run(f"vl#{n} vars={vars_!r} {value!r}", ProcessingPipeline([vl()], vars=dict(vars_)), rule(value))

# keyword position
for vars_ in (VARS[0], VARS[7], VARS[12], VARS[8]):
    run(
        f"kw vars={vars_!r}",
        ProcessingPipeline([vl()], vars=dict(vars_)),
        keyword_rule("'%a%'", "'kw*%b%'", "'plain'"),
    )

# include / exclude and mixed items in different orders
INCEXC = [
    dict(),
    dict(include=["a"]),
    dict(include=["b"]),
    dict(include=[]),
    dict(exclude=["a"]),
    dict(exclude=["a", "b", "c"]),
    dict(exclude=[]),
    dict(include=["a", "zz"]),
]
full_vars = {"a": ["a1", "a2"], "b": ["b1", 2], "c": "c1"}
mixed_values = [
    'field|expand: "%a%-%b%-%c%"',
    'field|expand: "%b%"',
    'field|re|expand: "x%a%y%b%"',
    "field|expand|all:\n            - '%a%'\n            - '%b%q'",
]
for ie in INCEXC:
    for value in mixed_values:
        run(f"vl-only {ie!r} {value!r}", ProcessingPipeline([vl(**ie)], vars=dict(full_vars)), rule(value))
        run(
            f"vl+wc {ie!r} {value!r}",
            ProcessingPipeline([vl(**ie), wc()], vars=dict(full_vars)),
            rule(value),
        )
        run(
            f"wc+vl {ie!r} {value!r}",
            ProcessingPipeline([wc(**ie), vl()], vars=dict(full_vars)),
            rule(value),
        )
        run(
            f"qe+vl {ie!r} {value!r}",
            ProcessingPipeline(
                [qe(expression="{field} lookup {id}", mapping={"b": "bee"}, **ie), vl()],
                vars=dict(full_vars),
            ),
            rule(value),
        )
        run(
            f"vl-partial-vars {ie!r} {value!r}",
            ProcessingPipeline([vl(**ie), wc(include=["c"])], vars={"a": ["only"]}),
            rule(value),
        )

# no pipeline at all / pipeline without placeholder item
for value in VALUES[:6] + VALUES[11:13]:
    run(f"nopipe {value!r}", None, rule(value))
    run(f"emptypipe {value!r}", ProcessingPipeline([]), rule(value))

# include and exclude at once
for cls in (ValueListPlaceholderTransformation, WildcardPlaceholderTransformation):
    try:
        cls(include=["a"], exclude=["b"])
        print(cls.__name__, "both lists accepted")
    except SigmaError as e:
        print(cls.__name__, type(e).__name__, e)

# transformation without pipeline
t = ValueListPlaceholderTransformation()
for name in ("a", ""):
    try:
        print("no pipeline:", list(t.placeholder_replacements(Placeholder(name))))
    except SigmaError as e:
        print("no pipeline:", type(e).__name__, e, "| context:", type(e.__context__).__name__)

# direct calls: callback results and context of errors
t = ValueListPlaceholderTransformation()
t.set_pipeline(ProcessingPipeline([], vars={"a": ["1", 2, 3.0, True], "e": [], "n": None, "s": "str", "l": [[1]]}))
for name in ("a", "e", "n", "s", "l", "missing"):
    try:
        print("direct", name, "->", list(t.placeholder_replacements(Placeholder(name))))
    except SigmaError as e:
        print("direct", name, "->", type(e).__name__, e, "| context:", type(e.__context__).__name__)
    try:
        print("base  ", name, "->", list(t.placeholder_replacements_base(Placeholder(name))))
    except SigmaError as e:
        print("base  ", name, "->", type(e).__name__, e, "| context:", type(e.__context__).__name__)

# contains_placeholder on strings and regular expressions
strings = [
    SigmaString(""),
    SigmaString("plain*?"),
    SigmaString("%a%").insert_placeholders(),
    SigmaString("x%a%y*%b%\\%c\\%").insert_placeholders(),
    SigmaString("%a%%a%%b%").insert_placeholders(),
    SigmaString("\\%a%b%").insert_placeholders(),
]
lists = [None, [], ["a"], ["b"], ["a", "b"], ["c"], ["zz"]]
for s in strings:
    row = []
    for inc, exc in itertools.product(lists, lists):
        row.append("1" if s.contains_placeholder(inc, exc) else "0")
        r = s.contains_placeholder(inc, exc)
        assert r is True or r is False
    print("contains", repr(s), "".join(row))
    print("contains kw", s.contains_placeholder(include=["a"]), s.contains_placeholder(exclude=["a"]), s.contains_placeholder())
for regex in ("a%a%b", "no.*placeholder", "%a%|%b%", "\\\\%a\\\\%"):
    r = SigmaRegularExpression(regex).insert_placeholders()
    print(
        "re contains",
        repr(r),
        [r.contains_placeholder(inc, exc) for inc, exc in itertools.product(lists[:5], lists[:5])],
    )

# replace_placeholders directly with odd callbacks
def cb(p):
    if p.name == "a":
        yield "A1"
        yield SpecialChars.WILDCARD_MULTI
        yield SigmaString("S*S")
    elif p.name == "b":
        yield from ()
    else:
        yield p

for s in strings:
    print("replace", repr(s), "->", s.replace_placeholders(cb))
for regex in ("a%a%b%c%", "%a%%b%", "%c%"):
    r = SigmaRegularExpression(regex).insert_placeholders()
    print("re replace", regex, "->", r.replace_placeholders(cb))
