"""Demo for C17: placeholder expansion through concatenation (SigmaString.__add__/__radd__/_merge_strs)
and the wildcard handling of SigmaRegularExpression.replace_placeholders."""
import itertools
import re

from sigma.backends.test import TextQueryTestBackend
from sigma.collection import SigmaCollection
from sigma.exceptions import SigmaError
from sigma.processing.pipeline import ProcessingItem, ProcessingPipeline
from sigma.processing.transformations import (
    QueryExpressionPlaceholderTransformation,
    ValueListPlaceholderTransformation,
    WildcardPlaceholderTransformation,
)
from sigma.types import (
    Placeholder,
    SigmaCasedString,
    SigmaRegularExpression,
    SigmaRegularExpressionFlag,
    SigmaString,
    SpecialChars,
)

RULE = """
title: Test
status: test
logsource:
    category: test
detection:
    sel:
{items}
    condition: sel
"""

VALUES = [
    ("field|expand", "'%a%'"),
    ("field|expand", "'pre%a%post'"),
    ("field|expand", "'%a%%b%'"),
    ("field|expand", "'x*%a%?y%b%z%c%'"),
    ("field|expand", "'100\\\\%%a%\\\\%'"),
    ("field|expand", "'*%a%*'"),
    ("field|contains|expand", "'%a%-%b%'"),
    ("field|startswith|expand", "'%a%\\\\*'"),
    ("field|endswith|expand", "'%b%%a%'"),
    ("field|contains|all|expand", "['%a%x', 'y%b%']"),
    ("field|cased|expand", "'A%a%B'"),
    ("field|re|expand", "'^%a%.*[%b%]+\\\\%%c%$'"),
    ("field|re|i|expand", "'(%a%|%b%)\\\\d'"),
    ("field|expand", "['%a%', 'plain', '%unknown%']"),
    ("field|expand", "''"),
    ("field|expand", "'%%'"),
    ("field|expand", "'%a%%a%%a%'"),
    ("|expand", None),  # keyword, filled below
]

PIPELINES = {
    "none": lambda: ProcessingPipeline(),
    "values": lambda: ProcessingPipeline(
        items=[ProcessingItem(ValueListPlaceholderTransformation())],
        vars={"a": ["v1", "v*2", 3], "b": "single", "c": [1.5, "w?x", "%d%"]},
    ),
    "values_incl_a_then_wild": lambda: ProcessingPipeline(
        items=[
            ProcessingItem(ValueListPlaceholderTransformation(include=["a"])),
            ProcessingItem(WildcardPlaceholderTransformation()),
        ],
        vars={"a": ["one", "two"]},
    ),
    "wild_excl_b_then_values": lambda: ProcessingPipeline(
        items=[
            ProcessingItem(WildcardPlaceholderTransformation(exclude=["b"])),
            ProcessingItem(ValueListPlaceholderTransformation()),
        ],
        vars={"b": ["b1", "b\\2", ""]},
    ),
    "wild_only_a": lambda: ProcessingPipeline(
        items=[ProcessingItem(WildcardPlaceholderTransformation(include=["a"]))]
    ),
    "queryexpr_then_values": lambda: ProcessingPipeline(
        items=[
            ProcessingItem(
                QueryExpressionPlaceholderTransformation(
                    expression="{field} lookup {id}", mapping={"a": "list_a"}, include=["a"]
                )
            ),
            ProcessingItem(ValueListPlaceholderTransformation()),
        ],
        vars={"a": ["x"], "b": ["y", "z"], "c": []},
    ),
    "wrong_type": lambda: ProcessingPipeline(
        items=[ProcessingItem(ValueListPlaceholderTransformation())],
        vars={"a": [None], "b": {"k": 1}, "c": ["ok"]},
    ),
    "empty_list": lambda: ProcessingPipeline(
        items=[ProcessingItem(ValueListPlaceholderTransformation())],
        vars={"a": [], "b": ["q"], "c": ["r"]},
    ),
}


def rule_for(key, value):
    if value is None:  # keywords
        return RULE.format(
            items="        '|expand':\n            - '%a%kw'\n            - 'kw*%b%'\n            - '%c%'"
        )
    return RULE.format(items=f"        {key}: {value}")


def convert(pipeline_name, key, value):
    backend = TextQueryTestBackend(PIPELINES[pipeline_name]())
    try:
        rule = SigmaCollection.from_yaml(rule_for(key, value))
        res = backend.convert(rule)
        out = repr(res)
        assert not re.search(r"%(a|b|c|d|unknown)%", out) or pipeline_name in (
            "values",
        ), out  # only the value '%d%' of the variable table may print as text
        return out
    except SigmaError as e:
        return f"{type(e).__name__}: {e}"


def direct():
    """Direct use of the rewritten functions."""
    P = Placeholder
    W, Q = SpecialChars.WILDCARD_MULTI, SpecialChars.WILDCARD_SINGLE

    def show(s):
        return f"{type(s).__name__}{s.s!r}"

    s = SigmaString("ab*c")
    cs = SigmaCasedString("X?")
    empty = SigmaString("")
    operands = [s, cs, empty, "str", "", W, Q, P("p"), 5, None, [1]]
    for l, r in itertools.product(operands, repeat=2):
        if not isinstance(l, SigmaString) and not isinstance(r, SigmaString):
            continue
        before = (list(l.s) if isinstance(l, SigmaString) else None, list(r.s) if isinstance(r, SigmaString) else None)
        try:
            res = l + r
            print("add", repr(l), repr(r), "->", show(res), res.s is getattr(l, "s", None), res.s is getattr(r, "s", None))
        except TypeError as e:
            print("add", repr(l), repr(r), "-> TypeError:", e)
        after = (list(l.s) if isinstance(l, SigmaString) else None, list(r.s) if isinstance(r, SigmaString) else None)
        assert before == after

    # _merge_strs on hand-made part lists, including identity of the list of an empty string
    for parts in ([], ["a"], ["a", "b", "c"], [W, W], ["a", W, "b", "c", P("x"), "", "d", Q, Q, "e"], ["", ""]):
        x = SigmaString()
        x.s = parts
        r = x._merge_strs()
        print("merge", parts, "->", r.s, r is x, x.s is parts)

    def cb(p):
        return {"a": ["1", W, Q, SigmaString("s*t"), P("kept")], "b": [W], "c": [], "d": ["", "x"]}[p.name]

    for text in ["%a%", "x%a%y", "%a%%b%", "%b%%b%", "a%c%b", "%d%%d%", "\\%%a%\\%", "no placeholder", "%a"]:
        ss = SigmaString(text).insert_placeholders()
        print("str", text, "->", [show(r) for r in ss.replace_placeholders(cb)])
        cs = SigmaCasedString(text).insert_placeholders()
        print("cased", text, "->", [show(r) for r in cs.replace_placeholders(cb)])
        regex = SigmaRegularExpression(text, {SigmaRegularExpressionFlag.IGNORECASE}).insert_placeholders()
        res = regex.replace_placeholders(cb)
        print("re", text, "->", [(show(r.regexp), sorted(f.name for f in r.flags), r.regexp is not regex.regexp) for r in res])
        for r in res:
            try:
                print("   escape:", r.escape(("/",)))
            except SigmaError as e:
                print(f"   {type(e).__name__}: {e}")

    # laziness/order of callback invocations
    calls = []

    def logging_cb(p):
        calls.append(("start", p.name))
        for v in ("1", W):
            calls.append(("yield", p.name, v))
            yield v
        calls.append(("end", p.name))

    print([show(r) for r in SigmaString("%a%-%b%").insert_placeholders().replace_placeholders(logging_cb)])
    print(calls)
    calls.clear()
    print([show(r.regexp) for r in SigmaRegularExpression("%a%-%b%").insert_placeholders().replace_placeholders(logging_cb)])
    print(calls)


if __name__ == "__main__":
    for (key, value), name in itertools.product(VALUES, PIPELINES):
        print(f"{name:26} {key}: {value} => {convert(name, key, value)}")
    direct()
