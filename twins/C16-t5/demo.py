"""Demo for property C16: a pipeline document cannot grant itself command execution, file or
network access or execution of a Python vars file.

Run: PYTHONPATH=/tmp/wt6-C16 /venv/bin/python demo.py
All output is deterministic (temporary directory and object addresses are masked).
"""

import copy
import os
import re
import shutil
import sys
import tempfile

import yaml

from sigma.backends.test import TextQueryTestBackend
from sigma.collection import SigmaCollection
from sigma.processing.pipeline import ProcessingPipeline
from sigma.processing.finalization import NestedFinalizer
from sigma.processing.resolver import ProcessingPipelineResolver
from sigma.processing.templates import TemplateBase
from sigma.processing.transformations.external import (
    ExternalSourceBaseTransformation,
    FilePlaceholderTransformation,
)

sys.dont_write_bytecode = True
for var in ("PYSIGMA_ALLOW_EXTERNAL_SOURCES", "PYSIGMA_ALLOW_VARS_EXECUTION"):
    os.environ.pop(var, None)

TMP = os.path.realpath(tempfile.mkdtemp(prefix="c16demo"))
ALLOWED = os.path.join(TMP, "allowed")
PREFIX = os.path.join(TMP, "allowedX")  # shares the prefix with the allowed directory
OUTSIDE = os.path.join(TMP, "outside")
for directory in (ALLOWED, os.path.join(ALLOWED, "sub"), PREFIX, OUTSIDE):
    os.makedirs(directory)

VARS_CODE = (
    "import builtins\n"
    "builtins._c16_exec = getattr(builtins, '_c16_exec', []) + [__file__]\n"
    "def shout(s):\n    return str(s).upper()\n"
    "vars = {'shout': shout}\n"
)
VARS_FILES = {
    "inside": os.path.join(ALLOWED, "v.py"),
    "inside_sub": os.path.join(ALLOWED, "sub", "v.py"),
    "prefix": os.path.join(PREFIX, "v.py"),
    "outside": os.path.join(OUTSIDE, "v.py"),
}
for path in VARS_FILES.values():
    with open(path, "w") as f:
        f.write(VARS_CODE)
VARS_FILES["symlink_out"] = os.path.join(ALLOWED, "link.py")
os.symlink(VARS_FILES["outside"], VARS_FILES["symlink_out"])
VARS_FILES["dotdot"] = os.path.join(ALLOWED, "..", "outside", "v.py")
VARS_FILES["novars"] = os.path.join(ALLOWED, "novars.py")
with open(VARS_FILES["novars"], "w") as f:
    f.write("x = 1\n")
VARS_FILES["missing"] = os.path.join(ALLOWED, "missing.py")
SOURCE = os.path.join(TMP, "values.txt")
with open(SOURCE, "w") as f:
    f.write("alpha\n\n  beta  \ngamma\n")

EVENTS = []
WATCHED = ("subprocess.Popen", "os.system", "socket.connect", "socket.getaddrinfo", "exec")


def mask(s):
    s = str(s).replace(TMP, "<TMP>")
    return re.sub(r"0x[0-9a-fA-F]+", "0xADDR", s)


def hook(event, args):
    if event == "open":
        if isinstance(args[0], str) and args[0].startswith(TMP):
            EVENTS.append("open:" + mask(args[0]))
    elif event == "exec":
        code = args[0]
        filename = getattr(code, "co_filename", "")
        if isinstance(filename, str) and filename.startswith(TMP):
            EVENTS.append("exec:" + mask(filename))
    elif event in WATCHED:
        EVENTS.append(event)


sys.addaudithook(hook)

RULE = """
title: Test
status: test
logsource:
    category: test
detection:
    sel:
        field|expand: "%ph%"
        other: value
    condition: sel
"""
PLAIN_RULE = """
title: Plain
status: test
logsource:
    category: test
detection:
    sel:
        field: value
    condition: sel
"""

OPTIN = {
    "allow_external_sources": True,
    "allow_template_vars": True,
    "vars_allowed_paths": ["/"],
}


def flags(obj, depth=0, seen=None):
    """Collect the capability flags of all items reachable from a pipeline."""
    out = []
    if isinstance(obj, ProcessingPipeline):
        for item in obj.items:
            out += flags(item.transformation, depth)
        for item in obj.postprocessing_items:
            out += flags(item.transformation, depth)
        for fin in obj.finalizers:
            out += flags(fin, depth)
        return out
    name = type(obj).__name__
    if isinstance(obj, ExternalSourceBaseTransformation):
        out.append((depth, name, "ext", obj.allow_external_sources))
    if isinstance(obj, TemplateBase):
        out.append((depth, name, "tpl", obj.allow_template_vars, mask(obj.vars_allowed_paths)))
    nested = getattr(obj, "_nested_pipeline", None)
    if nested is not None:
        out += flags(nested, depth + 1)
    return out


def run(label, doc, rule=RULE, via="dict", env=None, **kwargs):
    import builtins

    builtins._c16_exec = []
    del EVENTS[:]
    saved = {}
    for k, v in (env or {}).items():
        saved[k] = os.environ.get(k)
        os.environ[k] = v
    doc_in = copy.deepcopy(doc)
    try:
        try:
            if via == "dict":
                pipeline = ProcessingPipeline.from_dict(doc_in, **kwargs)
            else:
                pipeline = ProcessingPipeline.from_yaml(yaml.safe_dump(doc_in), **kwargs)
        except Exception as e:
            print(f"[{label}] via={via} LOAD {type(e).__name__}: {mask(e)}")
            pipeline = None
        if pipeline is not None:
            print(f"[{label}] via={via} flags={flags(pipeline)}")
            try:
                backend = TextQueryTestBackend(pipeline)
                result = backend.convert(SigmaCollection.from_yaml(rule))
                print(f"[{label}] via={via} RESULT {mask(result)!r}")
            except Exception as e:
                print(f"[{label}] via={via} CONVERT {type(e).__name__}: {mask(e)}")
        if via == "dict" and doc_in != doc:
            print(f"[{label}] input dict after load: {mask(doc_in)}")
        print(f"[{label}] via={via} events={EVENTS} executed={[mask(p) for p in builtins._c16_exec]}")
    finally:
        for k, v in saved.items():
            if v is None:
                os.environ.pop(k, None)
            else:
                os.environ[k] = v


def ext_item(kind, inject=True):
    item = {
        "file_placeholders": {"type": "file_placeholders", "path": SOURCE},
        "http_placeholders": {
            "type": "http_placeholders",
            "url": "http://127.0.0.1:9/values",
            "timeout": 1,
        },
        "command_placeholders": {"type": "command_placeholders", "cmd": "echo one; echo two"},
    }[kind]
    item = dict(item, id=kind)
    if inject:
        item.update(OPTIN)
    return item


def nest_tr(item, depth):
    for _ in range(depth):
        item = dict({"type": "nest", "items": [item]}, **OPTIN)
    return item


def tpl_post(vars_path, inject=True):
    item = {"type": "template", "template": "{{ shout(query) }}", "vars": vars_path}
    if inject:
        item.update(OPTIN)
    return item


def nest_post(item, depth):
    for _ in range(depth):
        item = dict({"type": "nest", "items": [item]}, **OPTIN)
    return item


def tpl_fin(vars_path, inject=True):
    item = {
        "type": "template",
        "template": "{% for q in queries %}{{ shout(q) }};{% endfor %}",
        "vars": vars_path,
    }
    if inject:
        item.update(OPTIN)
    return item


def nest_fin(item, depth):
    for _ in range(depth):
        item = dict({"type": "nested", "finalizers": [item]}, **OPTIN)
    return item


print("=== 1. external sources, keys injected in the document, default arguments")
for kind in ("file_placeholders", "http_placeholders", "command_placeholders"):
    for depth in range(0, 4):
        for via in ("dict", "yaml"):
            run(f"ext/{kind}/depth{depth}", {"transformations": [nest_tr(ext_item(kind), depth)]}, via=via)

print("=== 2. external sources, caller opt-in / environment variable")
for kind in ("file_placeholders", "command_placeholders", "http_placeholders"):
    run(f"ext-optin/{kind}", {"transformations": [ext_item(kind, False)]}, allow_external_sources=True)
    run(
        f"ext-optin-nested/{kind}",
        {"transformations": [nest_tr(ext_item(kind), 1)]},
        allow_external_sources=True,
    )
for value in ("", "0", "1", "true", "TRUE", "True", "yes", "on", " 1"):
    run(
        f"ext-env={value!r}",
        {"transformations": [ext_item("file_placeholders"), nest_tr(ext_item("file_placeholders"), 2)]},
        env={"PYSIGMA_ALLOW_EXTERNAL_SOURCES": value},
    )
run(
    "ext-no-placeholder-rule",
    {"transformations": [ext_item("command_placeholders")]},
    rule=PLAIN_RULE,
)
run(
    "ext-include-other",
    {"transformations": [dict(ext_item("command_placeholders"), include=["other"])]},
)

print("=== 3. template vars in post-processing and finalizers, keys injected, default arguments")
for depth in range(0, 4):
    for via in ("dict", "yaml"):
        run(
            f"tpl-post/depth{depth}",
            {"postprocessing": [nest_post(tpl_post(VARS_FILES["inside"]), depth)]},
            rule=PLAIN_RULE,
            via=via,
        )
        run(
            f"tpl-fin/depth{depth}",
            {"finalizers": [nest_fin(tpl_fin(VARS_FILES["inside"]), depth)]},
            rule=PLAIN_RULE,
            via=via,
        )
run(
    "mixed-finalizers",
    {
        "finalizers": [
            dict({"type": "concat", "separator": " | "}, **OPTIN),
            nest_fin(dict({"type": "json", "indent": None}, **OPTIN), 2),
            dict({"type": "template", "template": "[{{ queries }}]"}, **OPTIN),
        ]
    },
    rule=PLAIN_RULE,
)

print("=== 4. template vars, caller opt-in x allowed paths")
for name, path in VARS_FILES.items():
    for allowed in (None, (ALLOWED,), (ALLOWED + os.sep,), (OUTSIDE, PREFIX), ()):
        run(
            f"tpl-optin/{name}/allowed={mask(allowed)}",
            {
                "postprocessing": [tpl_post(path)],
                "finalizers": [nest_fin(tpl_fin(path), 1)],
            },
            rule=PLAIN_RULE,
            allow_template_vars=True,
            vars_allowed_paths=allowed,
        )
for value in ("0", "1", "true", "TRUE", "yes"):
    run(
        f"tpl-env={value!r}",
        {"finalizers": [tpl_fin(VARS_FILES["outside"]), nest_fin(tpl_fin(VARS_FILES["inside"]), 3)]},
        rule=PLAIN_RULE,
        env={"PYSIGMA_ALLOW_VARS_EXECUTION": value},
    )
    run(
        f"tpl-env={value!r}/allowed",
        {"finalizers": [nest_fin(tpl_fin(VARS_FILES["outside"]), 2)]},
        rule=PLAIN_RULE,
        env={"PYSIGMA_ALLOW_VARS_EXECUTION": value},
        vars_allowed_paths=(ALLOWED,),
    )

print("=== 5. from_yaml with source_path / resolver")
for name in ("inside", "inside_sub", "outside", "symlink_out", "prefix"):
    doc = {"postprocessing": [tpl_post(VARS_FILES[name])], "finalizers": [tpl_fin(VARS_FILES[name])]}
    run(
        f"source_path/{name}",
        doc,
        rule=PLAIN_RULE,
        via="yaml",
        allow_template_vars=True,
        source_path=os.path.join(ALLOWED, "pipeline.yml"),
    )
    run(f"source_path-noopt/{name}", doc, rule=PLAIN_RULE, via="yaml", source_path=os.path.join(ALLOWED, "p.yml"))
pipeline_file = os.path.join(ALLOWED, "pipeline.yml")
with open(pipeline_file, "w") as f:
    yaml.safe_dump(
        {
            "name": "file pipeline",
            "priority": 10,
            "transformations": [nest_tr(ext_item("command_placeholders"), 1)],
            "finalizers": [nest_fin(tpl_fin(VARS_FILES["inside"]), 1)],
        },
        f,
    )
del EVENTS[:]
try:
    resolved = ProcessingPipelineResolver().resolve_pipeline(pipeline_file)
    print("[resolver] flags", flags(resolved))
except Exception as e:
    print(f"[resolver] {type(e).__name__}: {mask(e)}")
print("[resolver] events", EVENTS)

print("=== 6. malformed documents")
for label, doc in (
    ("top-level-optin", dict({"transformations": [ext_item("file_placeholders")]}, **OPTIN)),
    ("fin-missing-type", {"finalizers": [dict({"template": "x"}, **OPTIN)]}),
    ("fin-unknown-type", {"finalizers": [dict({"type": "nope"}, **OPTIN)]}),
    ("fin-not-a-dict", {"finalizers": ["concat"]}),
    ("fin-none", {"finalizers": None}),
    ("fin-second-bad", {"finalizers": [{"type": "concat", "allow_template_vars": 1}, {"type": "nope"}]}),
    ("fin-nested-missing-key", {"finalizers": [dict({"type": "nested"}, **OPTIN)]}),
    ("fin-nested-missing-type", {"finalizers": [nest_fin(dict({"template": "x"}, **OPTIN), 1)]}),
    ("fin-nested-unknown-type", {"finalizers": [nest_fin({"type": "nope"}, 1)]}),
    ("fin-bad-param", {"finalizers": [{"type": "concat", "nope": 1}]}),
    ("tr-missing-type", {"transformations": [dict({"path": SOURCE}, **OPTIN)]}),
    ("tr-unknown-type", {"transformations": [dict({"type": "nope"}, **OPTIN)]}),
    ("tr-file-no-path", {"transformations": [dict({"type": "file_placeholders"}, **OPTIN)]}),
    ("tr-bad-format", {"transformations": [dict(ext_item("file_placeholders"), format="xml")]}),
    ("tr-bad-filter", {"transformations": [dict(ext_item("file_placeholders"), filter="(")]}),
    ("post-unknown-param", {"postprocessing": [dict(tpl_post(None), nope=1)]}),
):
    run(label, doc, rule=PLAIN_RULE)

print("=== 7. direct use of the item classes")
del EVENTS[:]
t = FilePlaceholderTransformation(path=SOURCE, filter="[lm]")
for attempt in ("denied", "allowed", "cached-after-revoke"):
    if attempt == "allowed":
        t.allow_external_sources = True
    elif attempt == "cached-after-revoke":
        t.allow_external_sources = False
    try:
        print(f"[direct-file] {attempt}: {t._get_values()} allowed={t._external_sources_allowed()!r}")
    except Exception as e:
        print(f"[direct-file] {attempt}: {type(e).__name__}: {mask(e)}")
print("[direct-file] events", EVENTS)
for truthy in (1, "yes", [0], 0, "", None):
    t2 = FilePlaceholderTransformation(path=SOURCE, allow_external_sources=truthy)
    print(f"[direct-file] flag={truthy!r} allowed={t2._external_sources_allowed()!r}")
for fmt, extra in (
    ("plaintext", {}),
    ("csv", {"csv_column": 0, "csv_has_header": False}),
    ("json", {"jq_expression": "."}),
    ("yaml", {"jq_expression": "."}),
):
    t3 = FilePlaceholderTransformation(path=SOURCE, format=fmt, allow_external_sources=True, **extra)
    try:
        print(f"[direct-file] format={fmt}: {t3._get_values()}")
    except Exception as e:
        print(f"[direct-file] format={fmt}: {type(e).__name__}: {mask(e)}")
t4 = FilePlaceholderTransformation(path=SOURCE, allow_external_sources=True)
for fmt in ("xml", ["plaintext"], None):
    t4.format = fmt
    try:
        print(f"[direct-file] late format={fmt!r}: {t4._parse_data('a')}")
    except Exception as e:
        print(f"[direct-file] late format={fmt!r}: {type(e).__name__}: {mask(e)}")
for d in (
    {"finalizers": [dict({"type": "concat"}, **OPTIN)]},
    {"finalizers": [tpl_fin(VARS_FILES["inside"])]},
    {},
):
    before = copy.deepcopy(d)
    try:
        nf = NestedFinalizer.from_dict(d)
        print(f"[direct-nested] flags={flags(nf)} mutated={mask(d) if d != before else False}")
    except Exception as e:
        print(f"[direct-nested] {type(e).__name__}: {mask(e)} mutated={mask(d) if d != before else False}")

print("=== 8. more on the external source gate")
import dataclasses
from sigma.processing.transformations.external import (
    CommandPlaceholderTransformation,
    HTTPPlaceholderTransformation,
)

for cls in (FilePlaceholderTransformation, HTTPPlaceholderTransformation, CommandPlaceholderTransformation):
    print(f"[fields] {cls.__name__}: {[(f.name, f.init, f.repr, f.compare) for f in dataclasses.fields(cls)]}")
a = FilePlaceholderTransformation(path=SOURCE, filter="a")
b = FilePlaceholderTransformation(path=SOURCE, filter="a")
print("[repr]", mask(repr(a)))
print("[eq]", a == b, a == FilePlaceholderTransformation(path=SOURCE, filter="a", allow_external_sources=True))

# environment variable is read at use time, not at load time; the flag wins without reading it
del EVENTS[:]
pipeline = ProcessingPipeline.from_dict(
    {"transformations": [dict(ext_item("command_placeholders"), cmd=["printf", "x\\ny\\n"], filter="y")]}
)
tr = pipeline.items[0].transformation
for value in (None, "0", "no", "TrUe", None):
    if value is None:
        os.environ.pop("PYSIGMA_ALLOW_EXTERNAL_SOURCES", None)
    else:
        os.environ["PYSIGMA_ALLOW_EXTERNAL_SOURCES"] = value
    try:
        first = tr._get_values()
        second = tr._get_values()
        print(f"[env-late] env={value!r}: {first} same_object={first is second} cache_is_result={tr._values_cache is first}")
    except Exception as e:
        print(f"[env-late] env={value!r}: {type(e).__name__} cache={tr._values_cache!r}")
    print(f"[env-late] env={value!r}: events={EVENTS}")
os.environ.pop("PYSIGMA_ALLOW_EXTERNAL_SOURCES", None)


class Flag:
    def __init__(self, value):
        self.value = value
        self.asked = 0

    def __bool__(self):
        self.asked += 1
        return self.value


class EnvSpy(dict):
    reads = 0

    def get(self, key, default=None):
        EnvSpy.reads += 1
        return super().get(key, default)


real_environ = os.environ
for flag_value, env_value in ((True, "0"), (False, "1"), (False, "0")):
    flag = Flag(flag_value)
    t5 = FilePlaceholderTransformation(path=SOURCE, allow_external_sources=flag)
    spy = EnvSpy({"PYSIGMA_ALLOW_EXTERNAL_SOURCES": env_value})
    EnvSpy.reads = 0
    os.environ = spy
    try:
        result = t5._external_sources_allowed()
    finally:
        os.environ = real_environ
    print(f"[flag-object] flag={flag_value} env={env_value}: result={result!r} asked={flag.asked} env_reads={EnvSpy.reads}")


# failures do not fill the cache, a later success does
missing = FilePlaceholderTransformation(path=os.path.join(TMP, "later.txt"), allow_external_sources=True)
for step in ("missing", "present"):
    if step == "present":
        with open(missing.path, "w") as f:
            f.write("late\n")
    try:
        print(f"[cache] {step}: {missing._get_values()} cache={missing._values_cache}")
    except Exception as e:
        print(f"[cache] {step}: {type(e).__name__}: {mask(e)} cache={missing._values_cache}")
empty = FilePlaceholderTransformation(path=SOURCE, filter="nomatch", allow_external_sources=True)
del EVENTS[:]
print(f"[cache] empty result: {empty._get_values()} {empty._get_values()} events={EVENTS}")


# parsers of subclasses are honoured, formats are compared with ==
@dataclasses.dataclass
class Upper(FilePlaceholderTransformation):
    def _parse_plaintext(self, data):
        return [v.upper() for v in super()._parse_plaintext(data)]

    def _parse_csv(self, data):
        return ["csv-override"]


class OddFormat(str):
    def __eq__(self, other):
        print(f"    compared with {other!r}")
        return other == "json"

    __hash__ = str.__hash__


for fmt, extra in (("plaintext", {}), ("csv", {}), ("yaml", {"jq_expression": "."})):
    u = Upper(path=SOURCE, format=fmt, filter="^[A-Zac]", allow_external_sources=True, **extra)
    print(f"[subclass] format={fmt}: {u._get_values()}")
odd = FilePlaceholderTransformation(path=SOURCE, allow_external_sources=True, jq_expression=".[]")
odd.format = OddFormat("weird")
try:
    print(f"[odd-format] {odd._parse_data('[1, null, 2.5, true]')}")
except Exception as e:
    print(f"[odd-format] {type(e).__name__}: {mask(e)}")
for data, fmt, extra in (
    ("h1,h2\na,b\nc,d\n", "csv", {"csv_column": "h2"}),
    ("h1,h2\na,b\nc,d\n", "csv", {"csv_column": "nope"}),
    ("h1,h2\na,b\nc,d\n", "csv", {}),
    ('{"items": ["x", "y", null]}', "json", {"jq_expression": ".items[]"}),
    ('{"items": ["x", "y", null]}', "json", {"jq_expression": ".items"}),
    ('{"items": ["x"', "json", {"jq_expression": ".items"}),
    ("items: [1, 2]", "yaml", {"jq_expression": ".items[]"}),
    ("items: [1, 2]", "yaml", {}),
    ("a\n\n b \n", "plaintext", {}),
):
    t6 = FilePlaceholderTransformation(path=SOURCE, format=fmt, **extra)
    try:
        print(f"[parse] {fmt} {extra}: {t6._parse_data(data)}")
    except Exception as e:
        print(f"[parse] {fmt} {extra}: {type(e).__name__}: {mask(e)}")

shutil.rmtree(TMP)
print("done")
