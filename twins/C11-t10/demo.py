"""Applies filters on rule collections and prints what the rules look like afterwards."""
import random
import traceback

from sigma.backends.test import TextQueryTestBackend
from sigma.collection import SigmaCollection
from sigma.filters import SigmaFilter, SigmaGlobalFilter, EmptySigmaGlobalFilter
from sigma.rule import SigmaRule, SigmaLogSource

RULES = """
title: Rule A
id: 11111111-1111-1111-1111-111111111111
name: rule_a
status: test
logsource:
    category: process_creation
    product: windows
detection:
    selection_img:
        Image|endswith: '\\\\cmd.exe'
    selection_cmd:
        CommandLine|contains: 'whoami'
    filter_user:
        User: SYSTEM
    _private:
        ParentImage: x
    of:
        A: 1
    not_this:
        B: 2
    1st:
        C: 3
    condition: %s
---
title: Rule B
id: 22222222-2222-2222-2222-222222222222
name: rule_b
status: test
logsource:
    category: process_creation
    product: linux
detection:
    sel:
        Image: /bin/sh
    condition: sel
---
title: Rule C
id: 33333333-3333-3333-3333-333333333333
name: rule_c
status: test
logsource:
    category: process_creation
    product: windows
    service: sysmon
detection:
    sel:
        Image: c.exe
    them_x:
        D: 4
    condition: 1 of them
"""

RULE_CONDITIONS = [
    "1 of selection_* and not filter_user",
    "all of them",
    "1 of _* or of",
    "not_this and 1st",
    "(selection_img or selection_cmd) and not 1 of filter_*",
]

FILTER = """
title: Filter
description: demo
logsource:
%s
filter:
    rules: %s
    selection:
        User|startswith: 'adm'
    selection_img:
        Image: allowed.exe
    other_allow:
        Host: h1
    of:
        X: 1
    them:
        Y: 2
    all:
        Z: 3
    1:
        W: 4
    and_more:
        V: 5
    condition: %s
"""

LOGSOURCES = [
    "    category: process_creation\n    product: windows",
    "    category: process_creation",
    "    product: windows",
    "    category: process_creation\n    product: windows\n    service: sysmon",
    "    category: file_event",
]

RULE_LISTS = [
    "any",
    "ANY",
    "[]",
    "[rule_a]",
    "['11111111-1111-1111-1111-111111111111', rule_c]",
    "rule_b",
    "[nothing]",
]

FILTER_CONDITIONS = [
    "selection",
    "not selection",
    "not 1 of selection*",
    "1 of them",
    "all of them",
    "any of *_allow",
    "not (selection or other_allow)",
    "of and them",
    "1 of of",
    "1 of 1 of them",
    "all  of\tthem",
    "1 of(them)",
    "all and 1",
    "not all of selection_* or (them and not and_more)",
    "1 of them and all of them or any of them",
    "selection and 1",
    "1 of not",
    "  selection  ",
    "1 of",
    "",
    "selection | other_allow",
    "1 of them or of",
]


def show(label, fn):
    try:
        res = fn()
        print(label, "->", res)
    except Exception as e:  # noqa
        print(label, "-> EXC", type(e).__name__, str(e))


def run(rule_cond, logsource, rule_list, filter_cond, seed):
    random.seed(seed)
    rules = SigmaCollection.from_yaml(RULES % rule_cond)
    flt = SigmaFilter.from_yaml(FILTER % (logsource, rule_list, filter_cond))
    rules.apply_filters([flt])
    out = []
    for rule in rules.rules:
        out.append(
            (
                rule.name,
                list(rule.detection.condition),
                [str(k) for k in rule.detection.detections.keys()],
            )
        )
    backend = TextQueryTestBackend()
    queries = []
    for rule in rules.rules:
        try:
            queries.append(backend.convert_rule(rule))
        except Exception as e:  # noqa
            queries.append("EXC %s %s" % (type(e).__name__, e))
    return out, queries


n = 0
for fc in FILTER_CONDITIONS:
    for i, rc in enumerate(RULE_CONDITIONS):
        ls = LOGSOURCES[(n + i) % len(LOGSOURCES)]
        rl = RULE_LISTS[(n * 3 + i) % len(RULE_LISTS)]
        n += 1
        show(
            "case %d rule=%r ls=%r rules=%s filter=%r" % (n, rc, ls.split(), rl, fc),
            lambda: run(rc, ls, rl, fc, n),
        )

# every filter condition on matching log source and 'any'
for fc in FILTER_CONDITIONS:
    show("any/%r" % fc, lambda: run(RULE_CONDITIONS[0], LOGSOURCES[1], "any", fc, 7))

# stacked filters, also in the constructor of the collection and with a correlation rule
STACK = (
    (RULES % "1 of selection_*")
    + """
---
title: Corr
name: corr
status: test
correlation:
    type: event_count
    rules:
        - rule_a
    group-by: User
    timespan: 5m
    condition:
        gte: 3
---
"""
    + (FILTER % (LOGSOURCES[1], "any", "not 1 of selection*")).strip()
    + "\n---\n"
    + (FILTER % (LOGSOURCES[2], "[rule_a, rule_c]", "1 of them and not of")).strip()
)


def stacked():
    random.seed(99)
    coll = SigmaCollection.from_yaml(STACK)
    res = [
        (r.name, getattr(getattr(r, "detection", None), "condition", None),
         [str(k) for k in getattr(getattr(r, "detection", None), "detections", {})])
        for r in coll.rules
    ]
    backend = TextQueryTestBackend()
    return res, backend.convert(coll)


show("stacked", stacked)


# prefix collision: the first draws are forced to collide with a detection of the rule
def collision():
    random.seed(5)
    first = "".join(random.choices("abcdefghijklmnopqrstuvwxyz", k=10))
    random.seed(5)
    rules = SigmaCollection.from_yaml(RULES % "selection_img")
    rule = rules.rules[0]
    rule.detection.detections["_filt_" + first + "_x"] = rule.detection.detections["of"]
    rule.detection.detections[17] = rule.detection.detections["of"]
    flt = SigmaFilter.from_yaml(FILTER % (LOGSOURCES[1], "any", "1 of them"))
    res = flt.apply_on_rule(rule)
    return res is rule, rule.detection.condition, [str(k) for k in rule.detection.detections]


show("collision", collision)


# directly constructed filters: empty condition list, non-string condition, empty rule list
def direct(condition, rules, glob=SigmaGlobalFilter):
    random.seed(3)
    coll = SigmaCollection.from_yaml(RULES % "selection_img")
    rule = coll.rules[0]
    gf = EmptySigmaGlobalFilter({}, condition, rules=rules) if glob is EmptySigmaGlobalFilter else glob(
        dict(SigmaFilter.from_yaml(FILTER % (LOGSOURCES[1], "any", "selection")).filter.detections),
        condition,
        rules=rules,
    )
    flt = SigmaFilter(title="t", logsource=SigmaLogSource(category="process_creation"), filter=gf)
    try:
        flt.apply_on_rule(rule)
    finally:
        print("   after:", rule.detection.condition, [str(k) for k in rule.detection.detections])
    return rule.detection.condition


show("direct empty-condition", lambda: direct([], "any", EmptySigmaGlobalFilter))
show("direct plain", lambda: direct(["selection"], "any") and None)
for cond in ([12], [b"selection"], [None]):
    def f(cond=cond):
        random.seed(3)
        coll = SigmaCollection.from_yaml(RULES % "selection_img")
        rule = coll.rules[0]
        flt = SigmaFilter.from_yaml(FILTER % (LOGSOURCES[1], "any", "selection"))
        flt.filter.condition = cond
        try:
            flt.apply_on_rule(rule)
        finally:
            print("   after:", rule.detection.condition, [str(k) for k in rule.detection.detections])
    show("bad condition %r" % (cond,), f)
show("direct empty rule list", lambda: direct(["selection"], []))


# subclass overriding the keyword sets
class MyFilter(SigmaFilter):
    _CONDITION_OPERATORS = frozenset({"not", "and", "or", "selection"})
    _CONDITION_QUANTIFIERS = frozenset({"all", "any", "1", "other_allow"})


def sub():
    random.seed(11)
    coll = SigmaCollection.from_yaml(RULES % "selection_img")
    rule = coll.rules[0]
    flt = MyFilter.from_yaml(FILTER % (LOGSOURCES[1], "any", "selection and other_allow of them"))
    try:
        flt.apply_on_rule(rule)
    except Exception as e:  # noqa
        print("   exc", type(e).__name__, e)
    return rule.detection.condition


show("subclass", sub)


# seeded random filter conditions from the vocabulary of the condition grammar
def fuzz():
    rnd = random.Random(2024)
    vocab = ["1", "any", "all", "of", "them", "not", "and", "or", "selection", "selection_*",
             "*_allow", "of_x", "1st", "_x", "them_", "*", "a-b", "ALL", "Of"]
    seps = [" ", "  ", "\t", "(", ")", " (", ") ", "|", " | ", ""]
    lines = []
    for k in range(400):
        cond = "".join(
            rnd.choice(vocab) + rnd.choice(seps) for _ in range(rnd.randint(1, 7))
        )
        random.seed(k)
        coll = SigmaCollection.from_yaml(RULES % "selection_img")
        rule = coll.rules[0]
        flt = SigmaFilter.from_yaml(FILTER % (LOGSOURCES[1], "any", "selection"))
        flt.filter.condition = [cond]
        try:
            flt.apply_on_rule(rule)
            res = "ok"
        except Exception as e:  # noqa
            res = "EXC %s %s" % (type(e).__name__, e)
        lines.append("%r => %r %s" % (cond, rule.detection.condition, res))
    return "\n" + "\n".join(lines)


show("fuzz", fuzz)
