"""Exercise the encoding modifiers and the plain/bytes forms of Sigma strings (property C04)."""
import base64
import itertools

from sigma.exceptions import SigmaError
from sigma.rule import SigmaDetectionItem
from sigma.types import Placeholder, SigmaCasedString, SigmaExpansion, SigmaString, SpecialChars

PAYLOADS = [
    "",
    "a",
    "ab",
    "abc",
    "abcd",
    "foo bar",
    "päyload",
    "€",
    "\U0001f600x",
    "back\\slash",
    "trailing\\",
    "esc\\*star",
    "esc\\?mark",
    "dbl\\\\*",
    "wild*card",
    "sin?gle",
    "*",
    "%notaplaceholder%",
    "\ud800",
    " lead and trail ",
    "\x00\x01",
]

CHAINS = [
    "base64",
    "base64offset",
    "base64offset|contains",
    "wide",
    "utf16le",
    "utf16be",
    "utf16",
    "wide|base64",
    "wide|base64offset",
    "utf16be|base64",
    "utf16|base64offset",
    "utf16be|base64offset|contains",
]


def show(v):
    if isinstance(v, SigmaExpansion):
        return "Expansion[" + ", ".join(show(x) for x in v.values) + "]"
    if isinstance(v, SigmaString):
        out = f"{type(v).__name__} s={v.s!r} str={str(v)!r} regex={v.to_plain_regex()!r}"
        try:
            out += f" bytes={bytes(v)!r}"
        except Exception as e:  # noqa: BLE001
            out += f" bytes!{type(e).__name__}: {e}"
        return out
    return repr(v)


def emit(*parts):
    print(ascii(" ".join(str(p) for p in parts))[1:-1])


def attempt(label, fn):
    try:
        emit(label, "->", fn())
    except SigmaError as e:
        emit(label, "!!", type(e).__name__, str(e))
    except Exception as e:  # noqa: BLE001
        emit(label, "!!", type(e).__name__, str(e))


print("== modifier chains ==")
for chain in CHAINS:
    for p in PAYLOADS:
        attempt(
            f"{chain} {p!r}",
            lambda: "; ".join(
                show(v) for v in SigmaDetectionItem.from_mapping(f"f|{chain}", p).value
            ),
        )

print("== list values and non-strings ==")
attempt("base64 list", lambda: [show(v) for v in SigmaDetectionItem.from_mapping("f|base64", ["x", "yz", "\\*"]).value])
attempt("base64 int", lambda: [show(v) for v in SigmaDetectionItem.from_mapping("f|base64", 5).value])
attempt("wide int", lambda: [show(v) for v in SigmaDetectionItem.from_mapping("f|wide", 5).value])

print("== alignment check ==")
bad = 0
for payload in ["a", "ab", "abc", "päy", "x\\*y", "q\\\\r", "€€"]:
    item = SigmaDetectionItem.from_mapping("f|base64offset|contains", payload)
    raw = bytes(SigmaString(payload))
    variants = []
    flat = [x for v in item.value for x in (v.values if isinstance(v, SigmaExpansion) else [v])]
    for v in flat:
        assert v.s[0] is SpecialChars.WILDCARD_MULTI and v.s[-1] is SpecialChars.WILDCARD_MULTI
        variants.append(v[1:-1].to_plain())
    emit(repr(payload), raw, variants)
    for pre, post in itertools.product(range(6), repeat=2):
        for fill in (b"\x00", b"\xff", b"Zq"):
            blob = (fill * 6)[:pre] + raw + (fill * 6)[:post]
            enc = base64.b64encode(blob).decode()
            if not any(x in enc for x in variants):
                bad += 1
print("misses:", bad)

print("== plain forms of hand-built strings ==")


class MyStr(str):
    pass


class MyPlaceholder(Placeholder):
    pass


def build(parts, cls=SigmaString):
    s = cls()
    s.s = list(parts)
    return s


HAND = [
    [],
    ["a*b?c"],
    ["a", SpecialChars.WILDCARD_MULTI, "b", SpecialChars.WILDCARD_SINGLE],
    [SpecialChars.WILDCARD_SINGLE, SpecialChars.WILDCARD_SINGLE],
    ["x", Placeholder("name"), "y"],
    [Placeholder("a*b")],
    [MyStr("sub*class?")],
    [MyPlaceholder("derived")],
    ["\\*", "\\"],
    ["ok", 5],
    ["ok", None, "never"],
    [b"bytes"],
    ["\ud800"],
]
for parts in HAND:
    for cls in (SigmaString, SigmaCasedString):
        v = build(parts, cls)
        for regex in (False, True, 0, 1, "", "yes", None):
            attempt(f"{cls.__name__}{parts!r}.to_plain({regex!r})", lambda: repr(v.to_plain(regex)))
        attempt(f"str({cls.__name__}{parts!r})", lambda: repr(str(v)))
        attempt(f"bytes({cls.__name__}{parts!r})", lambda: repr(bytes(v)))
        attempt(f"to_plain_regex({cls.__name__}{parts!r})", lambda: repr(v.to_plain_regex()))

print("== results are plain str and inputs untouched ==")
v = build([MyStr("only")])
print(type(v.to_plain()).__name__, type(v.to_plain(True)).__name__, v.s, type(v.s[0]).__name__)
v = build([])
print(type(v.to_plain()).__name__, repr(v.to_plain(True)))
print("done")
