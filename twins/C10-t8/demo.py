"""Demo for C10 refactoring t8: extended-condition parse tree (from_parsed, get_referenced_rules)
and the finish/finalise phase of Backend.convert_correlation_rule."""

import sys
import traceback

import pyparsing

from sigma.backends.test import TextQueryTestBackend
from sigma.collection import SigmaCollection
from sigma.correlations import (
    CorrelationConditionAND,
    CorrelationConditionItem,
    CorrelationConditionNOT,
    CorrelationConditionOR,
    SigmaExtendedCorrelationCondition,
    SigmaRuleReference,
)
from sigma.processing.pipeline import ProcessingItem, ProcessingPipeline
from sigma.processing.transformations import FieldMappingTransformation


def show(title, fn):
    print("=== " + title)
    try:
        res = fn()
        print(repr(res) if not isinstance(res, str) else res)
    except Exception as e:  # exception class and message are part of the behaviour
        print("EXC", type(e).__name__, str(e))
    print()


def tree(node):
    if isinstance(node, SigmaRuleReference):
        return node.reference
    return type(node).__name__[len("CorrelationCondition") :] + "(" + ", ".join(
        tree(a) for a in node.args
    ) + ")" + ("" if type(node.args) is list else "<" + type(node.args).__name__ + ">")


# ---------------------------------------------------------------------------------------------
# 1. parser: tree shape and referenced rules in order of first appearance
EXPRESSIONS = [
    "a",
    "a and b",
    "b and a",
    "a and b and c and a",
    "a or b and not c",
    "(a or b) and not (c or a)",
    "not not a",
    "not a and not b or not c",
    "c or (b and (a or (d and not c))) or b",
    "_x1 and X_2 or _x1",
    "  a   and(b)or((c))  ",
    "((a))",
    "z and y and x or w or v and u",
    "nota and orb and andc",
    # invalid ones
    "",
    "a and",
    "and a",
    "a b",
    "a and (b or c",
    "1a or b",
    "a-b",
    "not",
]
for expr in EXPRESSIONS:

    def parse_one(expr=expr):
        cond = SigmaExtendedCorrelationCondition(expr)
        return (
            tree(cond.parsed)
            + " | refs="
            + repr(cond.get_referenced_rules())
            + " | again="
            + repr(cond.get_referenced_rules())
            + " | dict="
            + repr(cond.to_dict())
        )

    show("parse " + repr(expr), parse_one)

# 2. from_parsed called directly with flat lists and ParseResults, all three operators
ra, rb, rc = SigmaRuleReference("a"), SigmaRuleReference("b"), SigmaRuleReference("c")
for cls in (CorrelationConditionAND, CorrelationConditionOR, CorrelationConditionNOT):
    for name, toks in [
        ("flat3", [ra, "op", rb]),
        ("flat5", [ra, "op", rb, "op", rc]),
        ("flat2", ["not", ra]),
        ("flat1", [rc]),
        ("flat0", []),
        ("pr-nested", pyparsing.ParseResults([pyparsing.ParseResults([ra, "op", rb, "op", rc])])),
        ("pr-nested-list", pyparsing.ParseResults([[ra, "op", rb]])),
        ("pr-empty", pyparsing.ParseResults([])),
        ("tuple", (ra, "op", rb)),
        ("str", "xyz"),
        ("none", None),
    ]:

        def call(cls=cls, toks=toks):
            res = cls.from_parsed("s", 0, toks)
            return [(type(r).__name__, type(r.args).__name__, repr(list(r.args))) for r in res]

        show(f"from_parsed {cls.__name__} {name}", call)


class NoArgs(CorrelationConditionItem):
    arg_count = 0


show("from_parsed arg_count=0", lambda: NoArgs.from_parsed("s", 0, [ra, "op", rb]))
show("from_parsed arg_count=0 None", lambda: NoArgs.from_parsed("s", 0, None))
show("from_parsed base class", lambda: CorrelationConditionItem.from_parsed("s", 0, [ra]))

# 3. get_referenced_rules on hand-made trees (foreign nodes are ignored, duplicates removed)
hand = SigmaExtendedCorrelationCondition("a")
for name, t in [
    ("nested", CorrelationConditionOR([CorrelationConditionAND([rb, ra]), CorrelationConditionNOT([rb]), rc, ra])),
    ("foreign", CorrelationConditionAND([ra, "string", 5, None, CorrelationConditionNOT([]), rc])),
    ("leaf", rc),
    ("none", None),
    ("tuple-args", CorrelationConditionAND((rc, rb, rc))),
    ("unhashable", CorrelationConditionAND([ra, SigmaRuleReference(["l"])])),
    ("args-none", CorrelationConditionAND(None)),
]:

    def refs(t=t):
        hand._parsed = t
        return hand.get_referenced_rules()

    show("get_referenced_rules " + name, refs)

# ---------------------------------------------------------------------------------------------
# 4. conversions
BASE_RULES = """
title: Rule A
name: rule_a
id: 0e95725d-7320-415d-80f7-004da920fc11
logsource:
    category: test
detection:
    sel1:
        fieldA: valueA
        fieldB: 1
    sel2:
        fieldC|contains: foo
    condition:
        - sel1
        - sel2
---
title: Rule B
name: rule_b
id: 0e95725d-7320-415d-80f7-004da920fc12
logsource:
    category: test
fields:
    - fieldA
    - fieldD
detection:
    selection:
        fieldA: valueB
        fieldD|re: 'x.*y'
    condition: selection
---
title: Rule C
id: 0e95725d-7320-415d-80f7-004da920fc13
logsource:
    category: test
detection:
    selection:
        - fieldC: c1
        - fieldE: c2
    condition: selection
"""


def corr(body):
    return BASE_RULES + "---\n" + body


CORRELATIONS = {
    "event_count single": """
title: EC
name: ec
correlation:
    type: event_count
    rules: rule_b
    group-by:
        - fieldC
        - fieldD
    timespan: 15m
    condition:
        gte: 10
""",
    "value_count multi with aliases": """
title: VC
name: vc
correlation:
    type: value_count
    rules:
        - rule_a
        - rule_b
        - 0e95725d-7320-415d-80f7-004da920fc13
    group-by:
        - user
    timespan: 2h
    aliases:
        user:
            rule_a: fieldA
            rule_b: fieldD
            0e95725d-7320-415d-80f7-004da920fc13: fieldC
    condition:
        lt: 3
        field: fieldC
""",
    "temporal generate": """
title: T
name: t
correlation:
    type: temporal
    rules:
        - rule_b
        - rule_a
    generate: true
    timespan: 1w
    condition:
        eq: 2
""",
    "temporal_ordered": """
title: TO
name: to
correlation:
    type: temporal_ordered
    rules:
        - rule_a
        - 0e95725d-7320-415d-80f7-004da920fc13
        - rule_b
    group-by: fieldC
    timespan: 30s
    condition:
        neq: 3
""",
    "extended without rules list": """
title: XT
name: xt
correlation:
    type: temporal
    timespan: 5m
    group-by:
        - fieldC
    condition: rule_b and (rule_a or not rule_b) and not rule_a
""",
    "extended ordered without rules list, id reference": """
title: XTO
name: xto
correlation:
    type: temporal_ordered
    timespan: 1d
    condition: not (rule_b or rule_a) or rule_a and rule_b and rule_b
""",
    "extended with rules list": """
title: XTR
name: xtr
correlation:
    type: temporal
    rules:
        - rule_a
        - rule_b
    timespan: 3M
    condition: rule_b or rule_a
""",
    "extended with rules list mismatch": """
title: XTM
name: xtm
correlation:
    type: temporal
    rules:
        - rule_a
    timespan: 3M
    condition: rule_b or rule_a
""",
    "extended unknown rule": """
title: XTU
name: xtu
correlation:
    type: temporal
    timespan: 3M
    condition: rule_b or rule_zzz
""",
    "extended on event_count": """
title: XTE
name: xte
correlation:
    type: event_count
    rules: rule_a
    timespan: 3M
    condition: rule_a
""",
    "value_percentile": """
title: VP
name: vp
correlation:
    type: value_percentile
    rules:
        - rule_b
    timespan: 1y
    condition:
        gt: 99.5
        field: fieldD
        percentile: 95
""",
    "value_sum / avg / median chain": """
title: VS
name: vs
correlation:
    type: value_sum
    rules: rule_b
    timespan: 10m
    group-by: fieldA
    condition:
        lte: 100
        field: fieldD
---
title: VA
name: va
correlation:
    type: value_avg
    rules: rule_b
    timespan: 10m
    condition:
        gte: 1.5
        field: fieldA
---
title: VM
name: vm
correlation:
    type: value_median
    rules: rule_b
    timespan: 10m
    condition:
        gte: 7
        field: fieldA
""",
    "nested correlation": """
title: Inner
name: inner
correlation:
    type: event_count
    rules:
        - rule_a
        - rule_b
    group-by: fieldC
    timespan: 1m
    condition:
        gte: 2
---
title: Outer
name: outer
correlation:
    type: temporal
    rules:
        - inner
        - 0e95725d-7320-415d-80f7-004da920fc13
    timespan: 1h
    condition:
        gte: 2
""",
    "nested correlation, inner generates, extended outer": """
title: Inner
name: inner
correlation:
    type: event_count
    rules:
        - rule_a
    generate: true
    group-by: fieldC
    timespan: 1m
    condition:
        gte: 2
---
title: Outer
name: outer
correlation:
    type: temporal_ordered
    timespan: 1h
    condition: inner and not rule_b
""",
}


class FinalizingBackend(TextQueryTestBackend):
    finalize_correlation_subqueries = True


class SecondsBackend(TextQueryTestBackend):
    timespan_seconds = True
    typing_expression = "| typing {queries}"
    typing_rule_query_expression = "[{ruleid}: {query}]"
    typing_rule_query_expression_joiner = " ; "


class PassthroughBackend(TextQueryTestBackend):
    timespan_mapping = None
    groupby_expression_nofield = {"test": " by nothing"}


class OddBackend(TextQueryTestBackend):
    """Event count rules yield a None query, the regular one and an additional one."""

    def convert_correlation_event_count_rule(self, rule, output_format=None, method="default"):
        regular = super().convert_correlation_event_count_rule(rule, output_format, method)
        return [None] + regular + ["extra query of " + str(rule.name)]


class OddFinalizingBackend(OddBackend):
    finalize_correlation_subqueries = True


class IteratorBackend(TextQueryTestBackend):
    """Event count rules return a one-shot iterator instead of a list."""

    def convert_correlation_event_count_rule(self, rule, output_format=None, method="default"):
        return iter(super().convert_correlation_event_count_rule(rule, output_format, method))


def mapping_pipeline(multi=False):
    return ProcessingPipeline(
        [
            ProcessingItem(
                FieldMappingTransformation(
                    {
                        "fieldA": "mapped.A",
                        "fieldD": ["d1", "d2"] if multi else "dd",
                        "user": "usr",
                        "fieldC": "cc",
                    }
                )
            )
        ]
    )


calls = []


def recording_callback(rule, output_format, index, query, result):
    calls.append((rule.name or str(rule.id), output_format, index, query == result, type(result).__name__))
    return result


def dropping_callback(rule, output_format, index, query, result):
    # drops the second query of rule_a and everything of correlation rule "va"; tags the others
    name = rule.name or str(rule.id)
    if (name == "rule_a" and index == 1) or name == "va":
        return None
    return f"<{name}#{index}>{result}"


BACKENDS = [
    ("plain", lambda: TextQueryTestBackend()),
    ("finalizing", lambda: FinalizingBackend()),
    ("seconds+typing", lambda: SecondsBackend()),
    ("passthrough", lambda: PassthroughBackend()),
    ("mapped", lambda: TextQueryTestBackend(mapping_pipeline())),
    ("mapped-multi", lambda: TextQueryTestBackend(mapping_pipeline(True))),
    ("odd", lambda: OddBackend()),
    ("odd-finalizing", lambda: OddFinalizingBackend()),
    ("iterator", lambda: IteratorBackend()),
    ("collecting", lambda: TextQueryTestBackend(collect_errors=True)),
]
FORMATS = [None, "test", "str", "list_of_dict"]

for cname, body in CORRELATIONS.items():
    for bname, mk in BACKENDS:
        for fmt in FORMATS:
            for cbname, cb in [("nocb", None), ("record", recording_callback), ("drop", dropping_callback)]:
                if cb is not None and fmt not in (None, "test"):
                    continue

                def run(body=body, mk=mk, fmt=fmt, cb=cb):
                    del calls[:]
                    backend = mk()
                    coll = SigmaCollection.from_yaml(corr(body))
                    out = backend.convert(coll, fmt, callback=cb)
                    lines = ["OUT " + repr(out)]
                    for r in coll.rules:
                        try:
                            res = r.get_conversion_result()
                        except Exception as e:
                            res = "EXC " + type(e).__name__ + " " + str(e)
                        try:
                            st = [
                                (sorted(s.processing_state.items(), key=repr), len(s.deferred))
                                for s in r.get_conversion_states()
                            ]
                        except Exception as e:
                            st = "EXC " + type(e).__name__ + " " + str(e)
                        lines.append(f"  RES {r.name or r.id}: {res!r} states={st!r} output={r._output}")
                        refs = getattr(r, "referenced_rules", None)
                        if refs is not None:
                            lines.append("  REFS " + repr([ref.reference for ref in refs]))
                    lines.append("  ERRORS " + repr([(r.name or str(r.id), type(e).__name__, str(e)) for r, e in backend.errors]))
                    if cb is recording_callback:
                        lines.append("  CALLS " + repr(calls))
                    return "\n".join(lines)

                show(f"convert [{cname}] backend={bname} format={fmt} cb={cbname}", run)

# 5. unsupported method / direct call of convert_correlation_rule with explicit method
def direct(method):
    backend = TextQueryTestBackend()
    coll = SigmaCollection.from_yaml(corr(CORRELATIONS["extended without rules list"]))
    coll.resolve_rule_references()
    outs = []
    for r in coll.rules[:-1]:
        outs.append(backend.convert_rule(r))
    outs.append(backend.convert_correlation_rule(coll.rules[-1], None, method))
    return outs


show("direct default method", lambda: direct(None))
show("direct test method", lambda: direct("test"))
show("direct bad method", lambda: direct("nope"))

sys.exit(0)
