"""Demo for property C15: converting a probe rule after various histories.

Prints everything observed; output must be identical on clean HEAD and with patch.diff applied.
"""

import uuid

import sigma.types
from sigma.backends.test import TextQueryTestBackend
from sigma.collection import SigmaCollection
from sigma.conditions import _parse_condition_string
from sigma.exceptions import SigmaError
from sigma.modifiers import SigmaModifier
from sigma.processing.pipeline import ProcessingPipeline
from sigma.rule import SigmaRule

print("module:", sigma.types.__file__.replace("/tmp/wt9-C15", "<wt>"))

PIPELINE_YAML = """
name: demo
priority: 10
vars:
  backend: from-pipeline-vars
  custom: 1
transformations:
  - id: map_fields
    type: field_name_mapping
    mapping:
      fieldB: [mappedB1, mappedB2]
      User: user.name
  - id: set_index
    type: set_state
    key: index
    val: winlog
    rule_conditions:
      - type: logsource
        product: windows
  - id: drop_me
    type: drop_detection_item
    field_name_conditions:
      - type: include_fields
        fields: [noise]
  - type: add_condition
    name: fixed_extra_condition
    conditions:
      added: yes
    rule_conditions:
      - type: logsource
        category: extra
  - id: fail_linux
    type: rule_failure
    message: linux rules are not supported here
    rule_conditions:
      - type: logsource
        product: linux
postprocessing:
  - id: wrap
    type: template
    template: "Q[{{ query }}] state={{ pipeline.state.index }} backend={{ pipeline.vars.backend }} fmt={{ pipeline.vars.output_format }} opt={{ pipeline.vars.backend_opt }}"
    rule_conditions:
      - type: logsource
        product: windows
  - type: simple_template
    template: "noid({query})"
    rule_conditions:
      - type: logsource
        category: extra
finalizers:
  - type: concat
    separator: " ;; "
    prefix: "<<"
    suffix: ">>"
"""


def rule(title, logsource, detection, extra=""):
    return f"""
title: {title}
id: {uuid.uuid5(uuid.NAMESPACE_DNS, title)}
status: test
logsource:
{logsource}
detection:
{detection}
{extra}
"""


PROBE = rule(
    "probe",
    "    product: windows\n    category: process_creation",
    "    sel:\n        fieldA: valueA\n        fieldB|contains: valueB\n        noise: x\n"
    "    filter:\n        User: admin\n        fieldC: c\n    condition: sel and not filter",
)
SAME_COND = rule(
    "same condition other fields",
    "    product: windows",
    "    sel:\n        fieldA|endswith: zzz\n        other|re: a.*b\n"
    "    filter:\n        fieldB: [1, 2, 3]\n    condition: sel and not filter",
)
EXTRA = rule(
    "extra category",
    "    category: extra",
    "    sel:\n        fieldA: 1\n    sel2:\n        fieldC|exists: false\n"
    "    condition:\n        - sel\n        - 1 of sel*\n        - not sel2",
)
LINUX = rule(
    "linux failing",
    "    product: linux",
    "    sel:\n        fieldA: valueA\n        fieldB|contains: valueB\n"
    "    filter:\n        User: admin\n    condition: sel and not filter",
)
BAD_COND = rule(
    "bad condition",
    "    product: windows",
    "    sel:\n        fieldA: valueA\n    condition: sel and not filter",
)
BAD_MOD = rule(
    "cidr in not",
    "    product: windows",
    "    sel:\n        fieldA|cidr: 10.0.0.0/8\n    filter:\n        fieldB|fieldref: fieldA\n"
    "        User|contains|all: [a, b]\n    condition: sel and not filter",
)
NULLS = rule(
    "nulls and keywords",
    "    product: windows\n    service: security",
    "    sel:\n        fieldA: null\n        fieldB: ''\n    kw:\n        - foo\n        - 'b*r'\n"
    "    condition: not (sel or kw)",
)
CORRELATION = (
    rule(
        "base for correlation",
        "    product: windows",
        "    sel:\n        fieldA: valueA\n    condition: sel",
        "name: base_rule",
    )
    + "---\n"
    + """
title: correlation
status: test
correlation:
    type: event_count
    rules:
        - base_rule
    group-by:
        - fieldB
    timespan: 5m
    condition:
        gte: 10
"""
)


class NeqBackend(TextQueryTestBackend):
    """Backend rendering negations as != so that the template swap of the negated rendering runs."""

    convert_not_as_not_eq = True
    eq_expression = "{field}={value}"
    not_eq_token = "!="
    not_eq_expression = "{field}!={value}"


def describe(backend):
    p = getattr(backend, "last_processing_pipeline", None)
    if p is None:
        return "no pipeline yet"
    return {
        "format": getattr(backend, "last_processing_pipeline_format", None),
        "vars": list(p.vars.items()),
        "applied": list(p.applied),
        "applied_ids": sorted(p.applied_ids),
        "field_name_applied_ids": sorted(
            (k, sorted(v)) for k, v in p.field_name_applied_ids.items()
        ),
        "field_mappings": sorted((k, sorted(v)) for k, v in p.field_mappings.items()),
        "state": sorted(p.state.items()),
        "n_items": (len(p.items), len(p.postprocessing_items), len(p.finalizers)),
        "owners_ok": all(i._pipeline is p for i in p.items)
        and all(i._pipeline is p for i in p.postprocessing_items)
        and all(f._pipeline is p for f in p.finalizers),
    }


def attempt(label, fn):
    try:
        res = fn()
        print(f"  {label}: OK {res!r}")
    except Exception as e:  # noqa: BLE001 - the demo prints every outcome
        print(f"  {label}: {type(e).__name__}: {e.args!r}")


def class_settings(cls):
    return (
        cls.eq_expression,
        cls.eq_token,
        cls.re_expression,
        cls.cidr_expression,
        cls.explicit_not_exists_expression,
        cls.field_exists_expression,
        cls.field_not_exists_expression,
    )


def probe(backend, fmt=None, label="probe"):
    attempt(label, lambda: backend.convert(SigmaCollection.from_yaml(PROBE), fmt))
    attempt(label + " single", lambda: backend.convert_rule(SigmaRule.from_yaml(PROBE), fmt))
    print("   ", describe(backend))


def fresh(cls=TextQueryTestBackend, **kw):
    return cls(ProcessingPipeline.from_yaml(PIPELINE_YAML), **kw)


print("== 1. fresh backend, probe only, several output formats")
for fmt in (None, "default", "test", "state", "str", "list_of_dict"):
    b = fresh(opt="O1")
    probe(b, fmt, f"fmt={fmt}")

print("== 2. probe after a history on the same backend / pipeline")
b = fresh(opt="O2", another={"nested": [1, 2]})
shared_pipeline = b.processing_pipeline
history = [
    ("same-cond", SAME_COND, None),
    ("extra", EXTRA, None),
    ("linux", LINUX, None),
    ("bad-cond", BAD_COND, "test"),
    ("bad-mod", BAD_MOD, None),
    ("nulls", NULLS, "state"),
    ("correlation", CORRELATION, None),
    ("collection of all", "---\n".join([SAME_COND, EXTRA, NULLS, PROBE]), "str"),
]
for label, text, fmt in history:
    attempt(label, lambda: b.convert(SigmaCollection.from_yaml(text), fmt))
    print("   ", describe(b))
    probe(b, None, "probe after " + label)

print("== 3. second backend sharing the same pipeline object, interleaved")
b2 = TextQueryTestBackend(shared_pipeline, opt="O3")
b3 = NeqBackend(shared_pipeline, collect_errors=True)
for step in range(2):
    attempt("b2 extra", lambda: b2.convert(SigmaCollection.from_yaml(EXTRA), "test"))
    attempt("b3 bad-mod", lambda: b3.convert(SigmaCollection.from_yaml(BAD_MOD)))
    attempt("b3 linux+nulls", lambda: b3.convert(SigmaCollection.from_yaml(LINUX + "---\n" + NULLS)))
    print("    b3 errors:", [(r.title, type(e).__name__, str(e)) for r, e in b3.errors])
    print("    class settings:", class_settings(NeqBackend), class_settings(TextQueryTestBackend))
    probe(b, None, "b probe")
    probe(b2, "test", "b2 probe")
    probe(b3, "state", "b3 probe")
    print("    original pipeline owners detached:",
          all(i._pipeline is not shared_pipeline for i in shared_pipeline.items))

print("== 4. backend without pipeline, unknown format, collect_errors")
b4 = TextQueryTestBackend(collect_errors=True, testparam="tp")
probe(b4, "list_of_dict", "no pipeline")
attempt("unknown format", lambda: b4.convert(SigmaCollection.from_yaml(PROBE), "nonexistent"))
print("   ", describe(b4), [(r.title, type(e).__name__) for r, e in b4.errors])
probe(b4, None, "after unknown format")
attempt("bad pipeline type", lambda: TextQueryTestBackend("not a pipeline").convert(
    SigmaCollection.from_yaml(PROBE)))
attempt("empty collection", lambda: fresh().convert(SigmaCollection([]), "str"))

print("== 5. pipeline addition")
p1 = ProcessingPipeline.from_yaml(PIPELINE_YAML)
p2 = ProcessingPipeline.from_yaml(PIPELINE_YAML.replace("custom: 1", "custom: 2\n  more: x"))
attempt("p + None is p", lambda: (p1 + None) is p1)
attempt("p + 0", lambda: p1 + 0)
attempt("p + 'x'", lambda: p1 + "x")


def describe_sum(s):
    return (
        list(s.vars.items()),
        len(s.items),
        len(s.postprocessing_items),
        len(s.finalizers),
        s.name,
        s.priority,
        all(i._pipeline is s for i in s.items),
        all(i._pipeline is None for i in []),
        [i._pipeline is None for i in p1.items][:2],
    )


attempt("sum", lambda: describe_sum(sum([p1, p2])))
attempt("p1 + p1", lambda: describe_sum(p1 + p1))
bp = TextQueryTestBackend(p1 + p2, opt=None)
probe(bp, "state", "probe on summed pipeline")

print("== 6. direct pipeline apply / postprocess on the same pipeline object")
pp = ProcessingPipeline.from_yaml(PIPELINE_YAML)
for text in (EXTRA, PROBE, LINUX, PROBE):
    r = SigmaRule.from_yaml(text)
    attempt("apply " + r.title, lambda: pp.apply(r, {"seed": 1}) is r)
    print("    applied", pp.applied, sorted(pp.applied_ids), sorted(pp.state.items()))
    attempt("postprocess", lambda: pp.postprocess_query(r, "QUERY"))
    print("    applied_ids after postprocess", sorted(pp.applied_ids))
    attempt("finalize", lambda: pp.finalize(["a", "b"]))

print("== 7. caches")
print("  condition cache entries > 0:", _parse_condition_string.cache_info().currsize > 0)
print("  type hint cache classes:", sorted(c.__name__ for c in SigmaModifier._type_hint_cache))
_parse_condition_string.cache_clear()
SigmaModifier._type_hint_cache.clear()
probe(fresh(opt="O7"), None, "probe after clearing caches")
probe(b, None, "old backend after clearing caches")
print("  class settings at end:", class_settings(NeqBackend), class_settings(TextQueryTestBackend))
