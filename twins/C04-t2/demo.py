"""Exercises the encoding modifiers (base64, base64offset, wide, utf16be, utf16) and the
bytes of a Sigma string on many payloads; prints everything that is observed. Exits 0 always
(unless the interpreter itself fails): outcomes, including rejections, are printed, not asserted,
except for the alignment guarantee, which is checked as well and its verdict printed."""

import itertools
import sys
from base64 import b64encode

import sigma.types
from sigma.exceptions import SigmaError
from sigma.rule import SigmaDetectionItem
from sigma.types import Placeholder, SigmaExpansion, SigmaString, SpecialChars

sys.stdout.reconfigure(encoding="utf-8", errors="backslashreplace")  # lone surrogates are printed too
print("imported from", sigma.types.__file__.rsplit("/sigma/", 1)[1])


def show(v):
    """Stable textual form of a value: class, parts and plain form."""
    if isinstance(v, SigmaExpansion):
        return "Expansion[" + ", ".join(show(x) for x in v.values) + "]"
    if isinstance(v, SigmaString):
        return f"{type(v).__name__}{v.s!r}"
    return repr(v)


def observe(key, payload):
    try:
        item = SigmaDetectionItem.from_mapping(key, payload)
        out = "[" + ", ".join(show(v) for v in item.value) + "]"
    except SigmaError as e:
        ctx = type(e.__context__).__name__ if e.__context__ is not None else None
        cause = type(e.__cause__).__name__ if e.__cause__ is not None else None
        out = f"REJECT {type(e).__name__}: {e} (context={ctx}, cause={cause})"
    except Exception as e:  # anything else is part of the behaviour too
        out = f"ERROR {type(e).__name__}: {e}"
    print(f"{key!s:32} {payload!r:28} -> {out}")


payloads = [
    "",
    "a",
    "ab",
    "abc",
    "abcd",
    "abcde",
    "foobar",
    "é",
    "hé",
    "héllo",
    "日本語",
    "x😀",
    "😀😀y",
    "\x00\x01",
    " leading and trailing ",
    "back\\slash",
    "esc\\*star",
    "esc\\?mark",
    "two\\\\back",
    "wild*card",
    "single?char",
    "*",
    "?",
    "a%b%c",
    "\ud800",  # lone surrogate: cannot be encoded
    "ok\udfffok",
    "﻿",
    "ਊ",  # U+0A0A: its UTF-16 bytes are plain ASCII
    "Ā",  # U+0100
    123,
    None,
    ["ab", "cd*", "é"],
]

keys = [
    "f|base64",
    "f|base64offset",
    "f|base64offset|contains",
    "f|wide",
    "f|utf16be",
    "f|utf16",
    "f|wide|base64",
    "f|wide|base64offset",
    "f|wide|base64offset|contains",
    "f|utf16be|base64",
    "f|utf16be|base64offset|contains",
    "f|utf16|base64",
    "f|utf16|base64offset",
    "f|base64|wide",
    "f|base64offset|utf16",
]

print("== outcomes ==")
for key in keys:
    for p in payloads:
        observe(key, p)

print("== values with placeholders and hand-made parts ==")
from sigma.modifiers import (
    SigmaBase64Modifier,
    SigmaBase64OffsetModifier,
    SigmaUTF16BEModifier,
    SigmaUTF16Modifier,
    SigmaWideModifier,
)

dummy = SigmaDetectionItem("f", [], [SigmaString("x")])


def handmade(parts):
    s = SigmaString()
    s.s = list(parts)
    return s


hand = [
    ["a", Placeholder("p"), "b"],
    [Placeholder("p")],
    ["a", SpecialChars.WILDCARD_SINGLE, "b", SpecialChars.WILDCARD_MULTI],
    ["é", Placeholder("p")],  # which rejection wins
    [Placeholder("p"), "é"],
    ["\ud800", SpecialChars.WILDCARD_SINGLE],
    [SpecialChars.WILDCARD_SINGLE, SpecialChars.WILDCARD_SINGLE, "zz"],
    ["a*b", "c?d"],  # plain characters that look special
    [],
    ["a", 5],  # not a valid part
]
for cls in (
    SigmaBase64Modifier,
    SigmaBase64OffsetModifier,
    SigmaWideModifier,
    SigmaUTF16BEModifier,
    SigmaUTF16Modifier,
):
    for parts in hand:
        val = handmade(parts)
        before = list(val.s)
        try:
            res = cls(dummy, [], None).apply(val)
            out = "[" + ", ".join(show(v) for v in res) + "]"
        except SigmaError as e:
            ctx = type(e.__context__).__name__ if e.__context__ is not None else None
            out = f"REJECT {type(e).__name__}: {e} (context={ctx})"
        except Exception as e:
            out = f"ERROR {type(e).__name__}: {e}"
        print(f"{cls.__name__:28} {parts!r:60} -> {out} (input untouched: {val.s == before})")

print("== bytes / plain forms of Sigma strings ==")
for p in [x for x in payloads if isinstance(x, str)]:
    s = SigmaString(p)
    row = [repr(s.to_plain()), repr(s.to_plain(regex=True)), repr(s.to_plain_regex()), repr(str(s))]
    try:
        row.append(repr(bytes(s)))
    except Exception as e:
        row.append(f"{type(e).__name__}: {e}")
    print(f"{p!r:28} -> " + " | ".join(row))
for parts in hand:
    s = handmade(parts)
    for regex in (False, True):
        try:
            out = repr(s.to_plain(regex))
        except Exception as e:
            out = f"{type(e).__name__}: {e}"
        print(f"{parts!r:60} regex={regex!s:5} -> {out}")
    try:
        out = repr(bytes(s))
    except Exception as e:
        out = f"{type(e).__name__}: {e}"
    print(f"{parts!r:60} bytes       -> {out}")

print("== alignment: payload found in the encoded data at every offset ==")
alphabet = ["a", "é", "€", "😀", "\\", "%"]
surround = [b"", b"\x00", b"zz", b"\xff\xfe\x01", b"1234", b"\x80abcd"]
checked = 0
misses = []
table = {}
for n in range(0, 4):
    for chars in itertools.product(alphabet, repeat=n):
        payload = "".join(chars)
        for chain, enc in (
            ("f|base64offset", lambda s: s.encode("utf-8")),
            ("f|wide|base64offset", lambda s: s.encode("utf-16le")),
            ("f|utf16be|base64offset", lambda s: s.encode("utf-16be")),
            ("f|utf16|base64offset", lambda s: ("﻿" + s).encode("utf-16le")),
        ):
            try:
                item = SigmaDetectionItem.from_mapping(chain, payload)
            except SigmaError as e:
                table[(chain, payload)] = f"REJECT {e}"
                continue
            variants = [str(v) for v in item.value[0].values]
            table[(chain, payload)] = variants
            raw = enc(str(SigmaString(payload).to_plain(regex=True)))
            for pre in surround:
                for post in surround:
                    text = b64encode(pre + raw + post).decode()
                    checked += 1
                    if not any(v in text for v in variants):
                        misses.append((chain, payload, pre, post))
print("checked", checked, "embeddings; misses:", len(misses))
for chain in sorted({m[0] for m in misses}):
    sub = [m for m in misses if m[0] == chain]
    print("  misses for", chain, ":", len(sub), "first:", sub[0])
for k in sorted(table):
    print(k, "->", table[k])

sys.exit(0)
