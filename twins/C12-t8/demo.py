"""Demo for C12 / hash-field splitting (HashesFieldsDetectionItemTransformation).

Converts rules through a pipeline containing the hashes_fields transformation and prints
the queries, the rewritten detection trees and the results of the helper methods.
"""
import sigma.types
from sigma.backends.test import TextQueryTestBackend
from sigma.collection import SigmaCollection
from sigma.processing.pipeline import ProcessingPipeline
from sigma.processing.transformations.values import HashesFieldsDetectionItemTransformation
from sigma.rule import SigmaDetectionItem, SigmaDetection
from sigma.types import SigmaString, SigmaNumber

print("imported from", sigma.types.__file__.replace("/tmp/wt9-C12", "<wt>"))

MD5 = "987B65CD9B9F4E9A1AFD8F8B48CF64A7"
SHA1 = "5F1CBC3D99558307BC1250D084FA968521482025"
SHA256 = "A" * 64
SHA512 = "b" * 128
IMPHASH = "C" * 32


def rule(detection: str, condition: str = "sel") -> str:
    return f"""
title: Test
status: test
logsource:
    category: test
detection:
{detection}
    condition: {condition}
"""


def pipeline(params: str, extra: str = "") -> ProcessingPipeline:
    return ProcessingPipeline.from_yaml(
        f"""
name: hashes
priority: 10
transformations:
    - id: split
      type: hashes_fields
{params}
{extra}
"""
    )


PIPELINES = {
    "default": "      valid_hash_algos: [MD5, SHA1, SHA256, SHA512, IMPHASH]",
    "prefix": "      valid_hash_algos: [MD5, SHA1, SHA256]\n      field_prefix: File",
    "drop_algo": "      valid_hash_algos: [MD5, SHA1]\n      field_prefix: hash\n      drop_algo_prefix: true",
    "drop_algo_noprefix": "      valid_hash_algos: [MD5, SHA1]\n      drop_algo_prefix: true",
    "keyword_prefix": "      valid_hash_algos: [MD5]\n      field_prefix: keyword\n      drop_algo_prefix: true",
    "other_field": "      valid_hash_algos: [MD5, SHA1]\n      field_to_parse: [FileHash]",
    "identity": "      valid_hash_algos: [MD5]\n      field_to_parse: []",
    "cond_nomatch": "      valid_hash_algos: [MD5]\n      field_name_conditions:\n        - type: include_fields\n          fields: [Nothing]",
}

DETECTIONS = {
    "algo=value": f"""    sel:
        Hashes:
            - 'SHA1={SHA1}'
            - 'MD5={MD5}'
            - 'SHA256={SHA256}'""",
    "algo|value": f"""    sel:
        Hash:
            - 'md5|{MD5}'
            - 'sha1|{SHA1}'""",
    "bare by length": f"""    sel:
        Hashes:
            - '{MD5}'
            - '{SHA1}'
            - '{SHA256}'
            - '{SHA512}'""",
    "contains with wildcards": f"""    sel:
        Hashes|contains:
            - 'MD5={MD5}'
            - 'IMPHASH={IMPHASH}'
            - 'MD5={MD5.lower()}'""",
    "single value and other field": f"""    sel:
        Hashes: 'SHA1={SHA1}'
        Image|endswith: '\\cmd.exe'""",
    "three parts": f"""    sel:
        Hashes:
            - 'MD5=ab=cd'
            - 'MD5={MD5}'
            - '{MD5}=x=y'""",
    "pipe and equals": f"""    sel:
        Hashes:
            - 'MD5=x|{MD5}'
            - 'SHA1|{SHA1}=x'""",
    "unknown algo only": f"""    sel:
        Hashes:
            - 'CRC32=12345678'
            - 'abc'""",
    "mixed unknown": f"""    sel:
        Hashes:
            - 'CRC32=12345678'
            - '?{MD5}*'
            - '*sha1={SHA1}?'""",
    "number value": """    sel:
        Hashes:
            - 12345
            - 'MD5=abc'""",
    "null value": """    sel:
        Hashes: null""",
    "regex value": """    sel:
        Hashes|re: 'MD5=.*'""",
    "FileHash field": f"""    sel:
        FileHash: 'MD5={MD5}'
        Hashes: 'MD5={MD5}'""",
    "list of maps + not": f"""    sel:
        - Hashes: 'MD5={MD5}'
        - Hash|startswith: 'SHA1={SHA1[:10]}'
    flt:
        Hashes|all:
            - 'MD5={MD5}'
            - 'SHA1={SHA1}'""",
    "empty string": """    sel:
        Hashes: ''""",
    "keyword": f"""    sel:
        - 'MD5={MD5}'
        - 'other'""",
}
CONDITIONS = {"list of maps + not": "sel and not flt"}


def dump(d, indent=0):
    pad = "  " * indent
    if isinstance(d, SigmaDetection):
        print(f"{pad}Detection linking={d.item_linking.__name__}")
        for item in d.detection_items:
            dump(item, indent + 1)
    else:
        print(
            f"{pad}Item field={d.field!r} modifiers={[m.__name__ for m in d.modifiers]} "
            f"values={d.value!r} linking={d.value_linking.__name__} "
            f"applied={sorted(d.applied_processing_items)} plain_disabled={d.original_value is None}"
        )


for pname, params in PIPELINES.items():
    for dname, detection in DETECTIONS.items():
        print(f"=== pipeline={pname} rule={dname}")
        try:
            backend = TextQueryTestBackend(pipeline(params))
            coll = SigmaCollection.from_yaml(rule(detection, CONDITIONS.get(dname, "sel")))
            queries = backend.convert(coll)
            for q in queries:
                print("query:", q)
            for name, det in coll.rules[0].detection.detections.items():
                print("detection", name)
                dump(det, 1)
        except Exception as e:
            print("EXC", type(e).__name__, str(e))

# chain: split, then rename one of the produced fields
print("=== chain with field mapping")
chain = pipeline(
    PIPELINES["prefix"],
    """    - id: rename
      type: field_name_mapping
      mapping:
        FileMD5: [md5_a, md5_b]""",
)
try:
    print(TextQueryTestBackend(chain).convert(SigmaCollection.from_yaml(rule(DETECTIONS["algo=value"]))))
except Exception as e:
    print("EXC", type(e).__name__, str(e))

# helper methods called directly, incl. values a pipeline can't produce
print("=== helpers")
t = HashesFieldsDetectionItemTransformation(valid_hash_algos=["MD5", "SHA1", ""], field_prefix="p_")
for raw in [
    "MD5=abc", "md5=*abc*", "**Md5=?a?", "SHA1|x", "a|b|c", "a=b=c", "", "=", "|", "=abc", "abc=",
    "x" * 32, "*" + "y" * 40 + "?", "z" * 64, "CRC=1", "MD5 =a", "|=", "MD5=a|b", "*=*",
]:
    print(repr(raw), "->", t._extract_hash_algo_and_value(raw))
for length in (0, 31, 32, 40, 64, 128, 129):
    print(length, "->", repr(t._determine_hash_algo_by_length("f" * length)))
vals = [SigmaString(s) for s in ["MD5=1", "SHA1=2", "MD5=3", "CRC=4", "=5", "f" * 32]]
parsed = t._parse_hash_values(vals)
print(type(parsed).__name__, dict(parsed), list(parsed))
print(dict(t._parse_hash_values([])))
for algo_dict in [{"a": ["1", "2"], "": ["3"], "keyword": ["4"]}, {"": ["x"]}, {}]:
    try:
        dump(t._create_new_detection_items(algo_dict))
    except Exception as e:
        print("EXC", type(e).__name__, str(e))

# apply_detection_item called directly with unusual detection items
for item in [
    SigmaDetectionItem("Hashes", [], [SigmaString("MD5=abc"), SigmaNumber(1)]),
    SigmaDetectionItem("Hashes", [], []),
    SigmaDetectionItem("Hash", [], [SigmaString("nothing")]),
    SigmaDetectionItem(None, [], [SigmaString("MD5=abc")]),
    SigmaDetectionItem("Hashes", [], [SigmaString("MD5=%ph%").insert_placeholders()]),
]:
    try:
        r = t.apply_detection_item(item)
        if r is None:
            print("None")
        else:
            dump(r)
    except Exception as e:
        print("EXC", type(e).__name__, str(e))
item = SigmaDetectionItem("Hashes", [], [SigmaString("MD5=abc")])
item.value = SigmaString("SHA1=def")  # not a list: handled as single value
dump(t.apply_detection_item(item))
item.value = (SigmaString("SHA1=def"),)  # neither string nor list
print(t.apply_detection_item(item))
