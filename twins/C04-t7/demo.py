"""Exercise the encoding modifiers and the SigmaString plain/bytes/contains_* helpers."""
import itertools
from base64 import b64encode

from sigma.rule import SigmaDetectionItem
from sigma.types import SigmaString, SigmaExpansion, SpecialChars, Placeholder
from sigma.exceptions import SigmaError


def show(label, func):
    try:
        r = func()
    except SigmaError as e:
        print(f"{label}: RAISED {type(e).__name__}: {e}")
    except Exception as e:  # noqa
        print(f"{label}: RAISED(non-sigma) {type(e).__name__}: {e}")
    else:
        print(f"{label}: {r!r}")


def values(modchain, payload):
    item = SigmaDetectionItem.from_mapping(f"f|{modchain}", payload)
    out = []
    for v in item.value:
        if isinstance(v, SigmaExpansion):
            out.append([(x.s, x.to_plain(), bytes(x)) for x in v.values])
        else:
            out.append((v.s, v.to_plain(), bytes(v)))
    return out


payloads = [
    "", "a", "ab", "abc", "abcd", "foo bar", "hällo", "€", "\U0001f600x",
    "back\\slash", "star\\*inside", "quest\\?ion", "\\\\*", "wild*card", "sin?gle", "*", "?",
    "tr\\", "%notplaceholder%", "a\\*b\\?c", "\x00\x01", "+/=",
]
chains = [
    "base64", "base64offset", "base64offset|contains", "wide", "utf16le", "utf16be", "utf16",
    "wide|base64", "wide|base64offset", "utf16le|base64", "utf16be|base64offset",
    "utf16|base64", "utf16|base64offset|contains", "contains", "base64|contains",
]
for chain in chains:
    for p in payloads:
        show(f"{chain} {p!r}", lambda: values(chain, p))

# alignment check for base64offset on a small alphabet, all short payloads, prefixes/suffixes 0..5
bad = 0
checked = 0
for n in range(1, 4):
    for tup in itertools.product("aé*", repeat=n):
        raw = "".join(tup)
        payload = raw.replace("*", "\\*")
        item = SigmaDetectionItem.from_mapping("f|base64offset", payload)
        variants = [str(v) for v in item.value[0].values]
        pb = raw.encode()
        assert bytes(SigmaString(payload)) == pb, (payload, bytes(SigmaString(payload)), pb)
        for pre in range(6):
            for suf in range(6):
                hay = b64encode(b"\xff" * pre + pb + b"\x00" * suf).decode()
                checked += 1
                if not any(v in hay for v in variants):
                    bad += 1
print("alignment checked", checked, "missed", bad)

# direct SigmaString helpers, including hand-built part lists
def mk(parts):
    s = SigmaString()
    s.s = list(parts)
    return s

handmade = [
    [],
    ["plain"],
    ["a*b?c"],
    [SpecialChars.WILDCARD_MULTI],
    ["x", SpecialChars.WILDCARD_SINGLE, "y", SpecialChars.WILDCARD_MULTI],
    ["x", Placeholder("var"), "y"],
    [Placeholder("a"), Placeholder("b")],
    [Placeholder("a"), SpecialChars.WILDCARD_MULTI, "q?"],
    ["x", 5],
    [None],
    [Placeholder(7)],
    ["﻿", "a\x00"],
]
for parts in handmade:
    s = mk(parts)
    show(f"to_plain {parts!r}", s.to_plain)
    show(f"to_plain(regex) {parts!r}", lambda: s.to_plain(regex=True))
    show(f"to_plain_regex {parts!r}", s.to_plain_regex)
    show(f"str {parts!r}", lambda: str(s))
    show(f"bytes {parts!r}", lambda: bytes(s))
    show(f"contains_special {parts!r}", s.contains_special)
    show(f"contains_placeholder {parts!r}", s.contains_placeholder)
    for inc, exc in [(["a"], None), (None, ["a"]), (["a", "b"], ["a"]), ([], None), (None, []),
                     (["var"], ["var"]), (["b"], ["a"])]:
        show(f"contains_placeholder({inc},{exc}) {parts!r}",
             lambda: s.contains_placeholder(include=inc, exclude=exc))

# placeholders inserted from a parsed string, then the modifiers must refuse
for chain in ["base64", "base64offset", "wide", "utf16be", "utf16"]:
    def run():
        s = SigmaString("pre%var%post").insert_placeholders()
        item = SigmaDetectionItem("f", [], [SigmaString("x")])
        from sigma.modifiers import modifier_mapping
        return [ (v.s if not isinstance(v, SigmaExpansion) else [x.s for x in v.values])
                 for v in modifier_mapping[chain](item, []).apply(s)]
    show(f"placeholder through {chain}", run)
