"""Demo for C18: CIDR expansion. Prints observed outputs; they must be identical with and without the patch."""
import hashlib
import random
import re
from ipaddress import ip_network

import sigma.types
from sigma.backends.test import TextQueryTestBackend
from sigma.collection import SigmaCollection
from sigma.exceptions import SigmaError
from sigma.types import SigmaCIDRExpression

print("module:", sigma.types.__file__.replace("/tmp/wt9-C18/", ""))


def v4_ranges(patterns):
    """Integer ranges matched by IPv4 wildcard patterns (dotted-quad strings only)."""
    ranges = []
    for p in patterns:
        if p == "*":
            ranges.append((0, 2**32 - 1))
        elif p.endswith(".*"):
            groups = [int(g) for g in p[:-2].split(".")]
            base = 0
            for g in groups:
                base = base * 256 + g
            shift = 8 * (4 - len(groups))
            ranges.append((base << shift, ((base + 1) << shift) - 1))
        else:
            groups = [int(g) for g in p.split(".")]
            assert len(groups) == 4
            n = 0
            for g in groups:
                n = n * 256 + g
            ranges.append((n, n))
    return sorted(ranges)


# 1. IPv4: every prefix length x boundary/random addresses; exact coverage on integer ranges
rnd = random.Random(18)
v4_addrs = [0, 2**32 - 1, 0x0A000000, 0xC0A80101, 0x7F000001, 0x80000000, 0x00FFFF00] + [
    rnd.getrandbits(32) for _ in range(12)
]
digest = hashlib.sha256()
for plen in range(33):
    for a in v4_addrs:
        net = ip_network((a >> (32 - plen) << (32 - plen) if plen else 0, plen))
        pats = SigmaCIDRExpression(str(net)).expand()
        digest.update(repr((str(net), pats)).encode())
        rs = v4_ranges(pats)
        # contiguous, non overlapping, exactly the network
        assert rs[0][0] == int(net.network_address), (net, pats)
        assert rs[-1][1] == int(net.broadcast_address), (net, pats)
        assert all(rs[i][1] + 1 == rs[i + 1][0] for i in range(len(rs) - 1)), (net, pats)
    net = ip_network((0xC0A80101 >> (32 - plen) << (32 - plen) if plen else 0, plen))
    pats = SigmaCIDRExpression(str(net)).expand()
    print("v4", net, len(pats), pats if len(pats) <= 8 else pats[:3] + ["..."] + pats[-2:])
print("v4 digest", digest.hexdigest())

# 2. IPv6: every prefix length x addresses with/without zero runs; every sampled address is matched
v6_addrs = [
    0,
    1,
    2**128 - 1,
    0xFE80 << 112,
    0x20010DB8 << 96,
    0x20010DB8000000000000000000000001,
    0x12345678000AB000000000000000000,
    0x1234567800000000ABCD000000000001,
    0x00010002000300040005000600070008,
    0x00000000000000000000FFFFC0A80101,
    0x10000000000000000000000000000000,
    0x00010000000100000001000000010000,
] + [rnd.getrandbits(128) for _ in range(6)]
digest = hashlib.sha256()
for plen in range(129):
    for a in v6_addrs:
        net = ip_network((a >> (128 - plen) << (128 - plen) if plen else 0, plen))
        pats = SigmaCIDRExpression(str(net)).expand()
        digest.update(repr((str(net), pats)).encode())
        regexes = [re.compile(re.escape(p).replace(r"\*", ".*") + r"\Z") for p in pats]
        lo, hi = int(net.network_address), int(net.broadcast_address)
        samples = {lo, hi, (lo + hi) // 2} | {rnd.randint(lo, hi) for _ in range(5)}
        for s in samples:
            text = str(net.network_address.__class__(s))
            assert any(r.match(text) for r in regexes), (net, text, pats)
    net = ip_network((0x20010DB8000000000000000000000001 >> (128 - plen) << (128 - plen) if plen else 0, plen))
    if plen % 5 == 0 or plen > 120:
        print("v6", net, SigmaCIDRExpression(str(net)).expand())
print("v6 digest", digest.hexdigest())

# 3. unusual inputs: host bits set, other wildcard strings, wildcard of another type
for cidr in ["192.168.1.7/24", "10.0.0.1", "::1", "fe80::1%eth0/128", "1.2.3.4/33", "::/129", "abc", "", "1.2.3.0/24/1", " 10.0.0.0/8"]:
    try:
        print("parse", repr(cidr), SigmaCIDRExpression(cidr).expand())
    except SigmaError as e:
        print("parse", repr(cidr), type(e).__name__, e)
for cidr in ["0.0.0.0/0", "10.0.0.0/7", "192.168.0.0/23", "192.168.1.0/24", "192.168.1.1/32", "::/0", "fe80::/10", "1234:5678:0:ab00::/58", "::1/128"]:
    for wc in ["%", "", "[0-9]+", None, 5]:
        try:
            print("wildcard", cidr, repr(wc), SigmaCIDRExpression(cidr).expand(wc))
        except Exception as e:
            print("wildcard", cidr, repr(wc), type(e).__name__, e)
e1, e2 = SigmaCIDRExpression("10.0.0.0/7"), SigmaCIDRExpression("10.0.0.0/7")
r1 = e1.expand()
print("fresh list each call:", r1 is not e1.expand(), r1 == e2.expand(), e1 == e2, e1.network)


# 4. backend without / with native CIDR expression
class NoCIDRBackend(TextQueryTestBackend):
    cidr_expression = None


class NoCIDRNoInBackend(NoCIDRBackend):
    convert_or_as_in = False
    convert_and_as_in = False


class TemplateBackend(TextQueryTestBackend):
    cidr_expression = "cidr({field}|{value}|{network}|{prefixlen}|{netmask})"


RULE = """
title: t
logsource:
    category: test
detection:
    sel:
        fieldA|cidr: {cidr}
    other:
        fieldB: x
    condition: {cond}
"""
for cidr in ["192.168.0.0/14", "10.1.2.3/32", "0.0.0.0/0", "172.16.0.0/12", "fe80::/10", "2001:db8::/33", "::1/128", "'::/0'"]:
    for cond in ["sel", "sel and other", "not sel", "other or sel"]:
        rule = RULE.format(cidr=cidr, cond=cond)
        for backend in (NoCIDRBackend, NoCIDRNoInBackend, TextQueryTestBackend, TemplateBackend):
            print(backend.__name__, cidr, "|", cond, "->", backend().convert(SigmaCollection.from_yaml(rule)))
print("OK")
