"""Exercise the encoding modifiers (property C04) and print everything observed."""
import base64
import builtins
import itertools

from sigma.exceptions import SigmaError, SigmaRuleLocation
from sigma.modifiers import (
    SigmaBase64Modifier,
    SigmaBase64OffsetModifier,
    SigmaUTF16BEModifier,
    SigmaUTF16Modifier,
    SigmaValueModifier,
    SigmaWideModifier,
)
from sigma.rule import SigmaDetectionItem
from sigma.types import Placeholder, SigmaExpansion, SigmaString, SpecialChars


def print(*args):
    # escape everything non-printable or non-ASCII (lone surrogates can't be written to stdout)
    text = " ".join(str(a) for a in args)
    builtins.print("".join(c if 32 <= ord(c) < 127 else c.encode("unicode_escape", "backslashreplace").decode() for c in text))


def show(v):
    if isinstance(v, SigmaExpansion):
        return "Expansion[" + ", ".join(show(x) for x in v.values) + "]"
    if isinstance(v, SigmaString):
        try:
            b = bytes(v).hex()
        except Exception as e:  # pragma: no cover
            b = f"<{type(e).__name__}>"
        return f"{type(v).__name__}(parts={v.s!r}, bytes={b})"
    return repr(v)


def observe(label, fn):
    try:
        res = fn()
        print(f"{label} -> OK {res}")
    except SigmaError as e:
        ctx = type(e.__context__).__name__ if e.__context__ is not None else None
        print(f"{label} -> {type(e).__name__}: {e} | source={e.source} | context={ctx}")
    except Exception as e:
        print(f"{label} -> {type(e).__name__}: {e}")


def item(mods, payload):
    di = SigmaDetectionItem.from_mapping("f|" + mods, payload)
    return "[" + "; ".join(show(v) for v in di.value) + "]"


payloads = [
    "", "a", "ab", "abc", "abcd", "foobar", "foo bar", "A\x00B", "\x7f", "ä", "café",
    "€", "Ā", "中文", "\U0001f600", "\ud800", "a\udfffb", "x\u0080y", "߿",
    "*foobar*", "foo?bar", "f??", "?", "*", "a\\*b", "a\\?b", "a\\\\b", "\\", "back\\slash",
    "%ph%", "{value}", "{", "}{0}", "100%", "﻿", "￾", "\r\n\t",
]
chains = [
    "wide", "utf16be", "utf16", "base64", "base64offset", "base64offset|contains",
    "wide|base64", "wide|base64offset", "utf16be|base64", "utf16|base64",
    "utf16be|base64offset", "utf16|base64offset|contains", "expand|wide", "expand|utf16",
    "expand|utf16be", "wide|contains", "utf16|startswith", "utf16be|endswith", "wide|wide",
    "utf16|utf16be", "wide|re", "windash|wide",
]
print("== from_mapping")
for chain in chains:
    for p in payloads:
        observe(f"{chain!r} {p!r}", lambda: item(chain, p))

print("== lists, non-strings")
for chain in ("wide", "utf16", "utf16be", "wide|base64offset"):
    for v in (["a", "b*", "ä"], 1, None, ["x", 2], True):
        observe(f"{chain!r} {v!r}", lambda: item(chain, v))

print("== direct apply with source and hand-made parts")
loc = SigmaRuleLocation("test.yml")
det = SigmaDetectionItem.from_mapping("f", "x")
hand = []
for parts in (
    [], ["ab"], ["a", "b"], [SpecialChars.WILDCARD_SINGLE], [SpecialChars.WILDCARD_MULTI],
    ["a", SpecialChars.WILDCARD_SINGLE, SpecialChars.WILDCARD_SINGLE, "b", SpecialChars.WILDCARD_MULTI],
    ["a", Placeholder("p"), "ä"], ["ä", Placeholder("p")], [Placeholder("p")],
    ["ok", "€", Placeholder("late")], ["", "", "z"], ["a", 5, "b"], [None], [2],
    [("t",)], [b"bytes"],
):
    s = SigmaString()
    s.s = list(parts)
    hand.append(s)
for cls in (SigmaWideModifier, SigmaUTF16BEModifier, SigmaUTF16Modifier):
    print(cls.__name__, cls.__doc__, issubclass(cls, SigmaValueModifier), cls.__module__)
    for s in hand:
        before = list(s.s)
        m = cls(det, [], loc)
        observe(f"{cls.__name__}.modify {before!r}", lambda: show(m.modify(s)))
        observe(f"{cls.__name__}.apply {before!r}", lambda: "[" + "; ".join(show(x) for x in m.apply(s)) + "]")
        assert s.s == before, "input mutated"
    m = cls(det, [])
    exp = SigmaExpansion([SigmaString("a?"), SigmaString("b")])
    observe(f"{cls.__name__}.apply expansion", lambda: "[" + "; ".join(show(x) for x in m.apply(exp)) + "]")
    observe(f"{cls.__name__}.apply str", lambda: m.apply("plain"))
    r1 = m.modify(SigmaString("ab"))
    r2 = m.modify(SigmaString("ab"))
    print("fresh result objects:", r1 is not r2, r1.s is not r2.s, type(r1.s).__name__, r1 == r2)

print("== property check: utf-16 bytes and base64offset alignment")
enc = {"wide": ("utf-16le", b""), "utf16be": ("utf-16be", b""),
       # HEAD stores the BOM as the character U+FEFF in a string part, so bytes() yields its UTF-8 form
       "utf16": ("utf-16le", "\ufeff".encode())}
alphabet = "aZ~\x01"
short = ["".join(t) for n in range(0, 5) for t in itertools.product(alphabet, repeat=n)]
bad = 0
for name, (codec, bom) in enc.items():
    for p in short + ["foobar", "A\x00B"]:
        if p == "":
            continue
        v = SigmaDetectionItem.from_mapping("f|" + name, p).value[0]
        if bytes(v) != bom + p.encode(codec):
            bad += 1
            print("MISMATCH", name, repr(p), bytes(v))
        b64 = SigmaDetectionItem.from_mapping(f"f|{name}|base64", p).value[0]
        if str(b64) != base64.b64encode(bom + p.encode(codec)).decode():
            bad += 1
            print("MISMATCH b64", name, repr(p), str(b64))
        variants = [str(x) for x in SigmaDetectionItem.from_mapping(f"f|{name}|base64offset", p).value[0].values]
        payload = bom + p.encode(codec)
        for pre in range(0, 6):
            for suf in range(0, 6):
                for fill in (b"\x00", b"\xff", b"q"):
                    hay = base64.b64encode(fill * pre + payload + fill * suf).decode()
                    if not any(x in hay for x in variants):
                        bad += 1
                        print("NOT FOUND", name, repr(p), pre, suf, fill)
print("checked", len(short), "short payloads x", len(enc), "encodings; failures:", bad)
