"""Demo for C16 refactoring t7: nested finalizers / nested transformations loaders.

Prints everything observed; output must be identical on clean HEAD and with patch.diff applied.
"""
import copy
import os
import shutil
import sys
import tempfile

import yaml

from sigma.backends.test import TextQueryTestBackend
from sigma.collection import SigmaCollection
from sigma.processing.finalization import (
    ConcatenateQueriesFinalizer,
    NestedFinalizer,
    TemplateFinalizer,
)
from sigma.processing.pipeline import ProcessingItem, ProcessingPipeline
from sigma.processing.transformations import (
    AddFieldnamePrefixTransformation,
    NestedProcessingTransformation,
)

TMP = os.path.realpath(tempfile.mkdtemp(prefix="c16t7_"))
ALLOWED = os.path.join(TMP, "allowed")
PREFIX_SHARING = os.path.join(TMP, "allowed_evil")
OUTSIDE = os.path.join(TMP, "outside")
for directory in (ALLOWED, PREFIX_SHARING, OUTSIDE, os.path.join(ALLOWED, "sub")):
    os.makedirs(directory)
MARKER = os.path.join(TMP, "marker.log")
VARS_SRC = (
    "with open(%r, 'a') as f:\n    f.write(__file__ + '\\n')\n"
    "vars = {'shout': lambda s: str(s).upper()}\n" % MARKER
)
VARS = {
    "inside": os.path.join(ALLOWED, "v.py"),
    "inside_sub": os.path.join(ALLOWED, "sub", "v.py"),
    "prefix_sharing": os.path.join(PREFIX_SHARING, "v.py"),
    "outside": os.path.join(OUTSIDE, "v.py"),
}
for path in VARS.values():
    with open(path, "w") as f:
        f.write(VARS_SRC)
os.symlink(VARS["outside"], os.path.join(ALLOWED, "link.py"))
VARS["symlink_to_outside"] = os.path.join(ALLOWED, "link.py")
VARS["dotdot"] = os.path.join(ALLOWED, "sub", "..", "..", "outside", "v.py")
VARS["missing"] = os.path.join(ALLOWED, "nothing.py")
SOURCE = os.path.join(TMP, "values.txt")
with open(SOURCE, "w") as f:
    f.write("alice\nbob\n")
CMD_MARKER = os.path.join(TMP, "cmd_marker")

EVENTS = []


def audit(event, args):
    if event in ("subprocess.Popen", "os.system", "socket.connect", "socket.getaddrinfo"):
        EVENTS.append(event)
    elif event == "open" and isinstance(args[0], str) and args[0] == SOURCE:
        EVENTS.append("open:source")


sys.addaudithook(audit)


def clean(text):
    return str(text).replace(TMP, "<TMP>")


def marker_lines():
    if not os.path.exists(MARKER):
        return []
    with open(MARKER) as f:
        lines = [clean(line.strip()) for line in f]
    os.unlink(MARKER)
    return lines


def run(label, fn):
    del EVENTS[:]
    try:
        result = "OK " + clean(fn())
    except BaseException as e:  # noqa
        result = "EXC %s: %s" % (type(e).__name__, clean(e))
    print("%-58s %s" % (label, result))
    print("%-58s   executed=%s events=%s cmd_marker=%s" % (
        "", marker_lines(), sorted(set(EVENTS)), os.path.exists(CMD_MARKER)))
    if os.path.exists(CMD_MARKER):
        os.unlink(CMD_MARKER)


RULE = """
title: t
status: test
logsource: {category: test}
detection:
  sel:
    user|expand: "%users%"
    other: 1
  condition: sel
"""
PLAIN_RULE = RULE.replace('user|expand: "%users%"', "user: x")

OPTIN = {
    "allow_template_vars": True,
    "allow_external_sources": True,
    "vars_allowed_paths": ["/"],
}


def flags(obj, depth=0):
    """capability flags of finalizers / items, recursively"""
    out = []
    for name in ("allow_template_vars", "vars_allowed_paths", "allow_external_sources"):
        if hasattr(obj, name):
            out.append("%s=%r" % (name, getattr(obj, name)))
    desc = type(obj).__name__ + ("(" + ",".join(out) + ")" if out else "")
    nested = getattr(obj, "_nested_pipeline", None)
    if nested is not None:
        children = [flags(i.transformation) for i in nested.items]
        children += [flags(i.transformation) for i in nested.postprocessing_items]
        children += [flags(f) for f in nested.finalizers]
        desc += "[" + "; ".join(children) + "]"
    return desc


def pipeline_flags(p):
    parts = [flags(i.transformation) for i in p.items]
    parts += [flags(i.transformation) for i in p.postprocessing_items]
    parts += [flags(f) for f in p.finalizers]
    return " | ".join(parts)


def convert(p, rule=PLAIN_RULE):
    backend = TextQueryTestBackend(p)
    return backend.convert(SigmaCollection.from_yaml(rule))


# ---------------------------------------------------------------- finalizers
def template_fin(vars_path, inject=True):
    d = {"type": "template", "template": "{{ shout(queries|join(',')) }}", "vars": vars_path}
    if inject:
        d.update(copy.deepcopy(OPTIN))
    return d


def nested_fin(inner, depth, inject=True):
    d = inner
    for _ in range(depth):
        d = {"type": "nested", "finalizers": [{"type": "concat", "separator": "+"}, d]}
        if inject:
            d.update(copy.deepcopy(OPTIN))
    return d


def fin_doc(fin, inject=True):
    doc = {"name": "t", "priority": 1, "finalizers": [fin]}
    return doc


def load_and_convert(doc, via, **kwargs):
    def go():
        d = copy.deepcopy(doc)
        if via == "dict":
            p = ProcessingPipeline.from_dict(d, **kwargs)
        else:
            p = ProcessingPipeline.from_yaml(yaml.safe_dump(d), **kwargs)
        return pipeline_flags(p) + " => " + repr(convert(p))
    return go


print("== nested finalizers, default arguments, opt-in keys injected on every level")
for depth in (0, 1, 2, 3):
    for via in ("dict", "yaml"):
        run("depth=%d via=%s" % (depth, via),
            load_and_convert(fin_doc(nested_fin(template_fin(VARS["inside"]), depth)), via))

print("== environment variable")
for value in (None, "0", "1", "true", "TRUE", "yes"):
    if value is None:
        os.environ.pop("PYSIGMA_ALLOW_VARS_EXECUTION", None)
    else:
        os.environ["PYSIGMA_ALLOW_VARS_EXECUTION"] = value
    run("env=%r depth=2" % (value,),
        load_and_convert(fin_doc(nested_fin(template_fin(VARS["outside"]), 2)), "dict"))
os.environ.pop("PYSIGMA_ALLOW_VARS_EXECUTION", None)

print("== caller opt-in, allowed directory given by caller")
for name in sorted(VARS):
    for depth in (0, 1, 3):
        run("allow=True allowed_dir vars=%s depth=%d" % (name, depth),
            load_and_convert(fin_doc(nested_fin(template_fin(VARS[name]), depth)), "dict",
                             allow_template_vars=True, vars_allowed_paths=(ALLOWED,)))
print("== caller opt-in, allowed directory derived from source_path")
for name in ("inside_sub", "outside", "symlink_to_outside", "prefix_sharing"):
    run("from_yaml source_path vars=%s depth=2" % name,
        load_and_convert(fin_doc(nested_fin(template_fin(VARS[name]), 2)), "yaml",
                         allow_template_vars=True, source_path=os.path.join(ALLOWED, "p.yml")))
print("== caller opt-in without path restriction / allowed dirs only")
run("allow=True no restriction vars=outside depth=3",
    load_and_convert(fin_doc(nested_fin(template_fin(VARS["outside"]), 3)), "dict",
                     allow_template_vars=True))
run("allow=False allowed_dir vars=inside depth=3",
    load_and_convert(fin_doc(nested_fin(template_fin(VARS["inside"]), 3)), "dict",
                     vars_allowed_paths=(ALLOWED,)))

print("== NestedFinalizer.from_dict directly: results, errors, mutation of the input")


def direct(d, cls=NestedFinalizer, **kwargs):
    def go():
        try:
            f = cls.from_dict(d, **kwargs)
            return flags(f) + " apply=" + repr(f.apply(["q1", "q2"]))
        finally:
            print("%-58s   input afterwards: %s" % ("", clean(d)))
    return go


run("no finalizers key", direct({"finalizer": []}))
run("empty list", direct({"finalizers": []}))
run("finalizers None", direct({"finalizers": None}))
run("entry without type", direct({"finalizers": [dict(OPTIN, separator="x", foo=1)]}))
run("unknown type", direct({"finalizers": [{"type": "concat"}, {"type": "nope"}]}))
run("unhashable type", direct({"finalizers": [{"type": ["concat"]}]}))
run("entry is a string", direct({"finalizers": ["concat"]}))
run("entry is a list", direct({"finalizers": [["concat"]]}))
run("bad parameter", direct({"finalizers": [{"type": "json", "indentation": 2}]}))
run("nested without key inside", direct({"finalizers": [{"type": "nested", "x": 1}]}))
run("mixed", direct({"finalizers": [
    {"type": "concat", "separator": "&", "prefix": "<", "suffix": ">"},
    {"type": "json", "indent": None},
    {"type": "yaml"},
    {"type": "template", "template": "{{ queries }}", "allow_template_vars": True},
]}))
run("template+vars default args", direct({"finalizers": [template_fin(VARS["inside"])]}))
run("template+vars allow, inside", direct({"finalizers": [template_fin(VARS["inside"])]},
                                           allow_template_vars=True, vars_allowed_paths=(ALLOWED,)))
run("template+vars allow, outside, deep", direct(
    {"finalizers": [nested_fin(template_fin(VARS["outside"]), 2)]},
    allow_template_vars=True, vars_allowed_paths=(ALLOWED,)))
run("template+vars allow, inside, deep", direct(
    {"finalizers": [nested_fin(template_fin(VARS["inside"]), 2)]},
    allow_template_vars=True, vars_allowed_paths=(ALLOWED,)))


class MyNested(NestedFinalizer):
    pass


run("subclass, template+vars allow, depth 0", direct(
    {"finalizers": [template_fin(VARS["inside"])]}, cls=MyNested,
    allow_template_vars=True, vars_allowed_paths=(ALLOWED,)))
run("subclass, template+vars allow, depth 1", direct(
    {"finalizers": [nested_fin(template_fin(VARS["inside"]), 1)]}, cls=MyNested,
    allow_template_vars=True, vars_allowed_paths=(ALLOWED,)))
run("subclass, harmless nested", direct(
    {"finalizers": [nested_fin({"type": "json"}, 2)]}, cls=MyNested))

# --------------------------------------------------- nested transformations
print("== nested transformations with external sources")
EXTERNAL = {
    "file": {"type": "file_placeholders", "path": SOURCE},
    "command": {"type": "command_placeholders", "cmd": "touch %s; echo carol" % CMD_MARKER},
    "http": {"type": "http_placeholders", "url": "http://127.0.0.1:9/x", "timeout": 1},
}


def nested_tr(inner, depth):
    d = dict(inner, **copy.deepcopy(OPTIN))
    for _ in range(depth):
        d = dict({"type": "nest", "items": [{"type": "field_name_prefix", "prefix": "p."}, d]},
                 **copy.deepcopy(OPTIN))
    return d


def tr_doc(tr):
    return {"name": "t", "priority": 1, "transformations": [tr]}


def load_and_convert_tr(doc, via, **kwargs):
    def go():
        d = copy.deepcopy(doc)
        if via == "dict":
            p = ProcessingPipeline.from_dict(d, **kwargs)
        else:
            p = ProcessingPipeline.from_yaml(yaml.safe_dump(d), **kwargs)
        return pipeline_flags(p) + " => " + repr(convert(p, RULE))
    return go


for kind in sorted(EXTERNAL):
    for depth in (0, 1, 3):
        for allow in (False, True):
            if kind == "http" and allow and depth == 0:
                continue  # no network here
            run("%s depth=%d allow_external_sources=%s" % (kind, depth, allow),
                load_and_convert_tr(tr_doc(nested_tr(EXTERNAL[kind], depth)),
                                    "yaml" if depth == 1 else "dict",
                                    allow_external_sources=allow))
for value in ("0", "1", "true"):
    os.environ["PYSIGMA_ALLOW_EXTERNAL_SOURCES"] = value
    run("file depth=2 env=%s" % value,
        load_and_convert_tr(tr_doc(nested_tr(EXTERNAL["file"], 2)), "dict"))
os.environ.pop("PYSIGMA_ALLOW_EXTERNAL_SOURCES", None)

print("== NestedProcessingTransformation directly")


def direct_tr(fn):
    def go():
        t = fn()
        return flags(t) + " ids=" + repr(
            [i.identifier for i in t._nested_pipeline.items])
    return go


N = NestedProcessingTransformation
run("from_dict no items key", direct_tr(lambda: N.from_dict({"item": []})))
run("from_dict empty", direct_tr(lambda: N.from_dict({"items": []})))
run("from_dict items None", direct_tr(lambda: N.from_dict({"items": None})))
run("from_dict items is a dict", direct_tr(lambda: N.from_dict({"items": {"type": "nest"}})))
run("from_dict item without type", direct_tr(lambda: N.from_dict({"items": [{"id": "a"}]})))
run("from_dict inner nest without items", direct_tr(
    lambda: N.from_dict({"items": [{"type": "nest", "id": "inner"}]})))
run("from_dict unknown inner type", direct_tr(
    lambda: N.from_dict({"items": [{"type": "field_name_prefix", "prefix": "a"},
                                    {"type": "nonsense"}]})))
run("from_dict file placeholder + injected key", direct_tr(
    lambda: N.from_dict({"allow_external_sources": True,
                         "items": [dict(EXTERNAL["file"], allow_external_sources=True, id="f")]})))
run("constructor with mixed items", direct_tr(lambda: N(items=[
    ProcessingItem(AddFieldnamePrefixTransformation("x."), identifier="obj"),
    {"type": "field_name_suffix", "suffix": ".y", "id": "dict"},
    dict(EXTERNAL["command"], id="cmd", allow_external_sources=True),
])))
run("constructor with bad item", direct_tr(lambda: N(items=[{"type": "drop_detection_item"}, 5])))
run("constructor with generator", direct_tr(lambda: N(items=(
    d for d in [{"type": "field_name_prefix", "prefix": "g.", "id": "gen"}]))))

# ------------------------------------------------ nested post-processing
print("== nested post-processing with template vars")


def nested_pp(vars_path, depth):
    d = dict({"type": "template", "template": "{{ shout(query) }}", "vars": vars_path},
             **copy.deepcopy(OPTIN))
    for _ in range(depth):
        d = dict({"type": "nest", "items": [{"type": "embed", "prefix": "(", "suffix": ")"}, d]},
                 **copy.deepcopy(OPTIN))
    return d


from sigma.processing.pipeline import QueryPostprocessingItem
from sigma.processing.postprocessing import NestedQueryPostprocessingTransformation


def pp_pipeline(vars_path, depth, **kwargs):
    def go():
        d = nested_pp(vars_path, depth)
        if depth == 0:
            p = ProcessingPipeline.from_dict({"name": "t", "priority": 1, "postprocessing": [d]},
                                             **kwargs)
        else:  # the loader of the nested transformation takes no capabilities at all
            p = ProcessingPipeline(postprocessing_items=[QueryPostprocessingItem(
                NestedQueryPostprocessingTransformation.from_dict(d))])
        return pipeline_flags(p) + " => " + repr(convert(p))
    return go


for depth in (0, 1, 2):
    for allow in (False, True):
        for name in ("inside", "outside"):
            run("postprocessing depth=%d allow=%s vars=%s" % (depth, allow, name),
                pp_pipeline(VARS[name], depth,
                            allow_template_vars=allow, vars_allowed_paths=(ALLOWED,)))
run("postprocessing nest without items",
    lambda: repr(NestedQueryPostprocessingTransformation.from_dict({"item": []})))

shutil.rmtree(TMP)
print("done")
