"""Demo for t1: timespan parsing (SigmaCorrelationTimespan) and rendering (convert_timespan)."""

import sys

from sigma.backends.test import TextQueryTestBackend
from sigma.collection import SigmaCollection
from sigma.correlations import SigmaCorrelationTimespan
from sigma.exceptions import SigmaError

# 1. Parsing of timespan specifications, valid and invalid ones
specs = [
    "1s", "5m", "12h", "3d", "2w", "6M", "1y", "0s", "007m", "+4h", "-3d", " 15 m", "1_000s",
    "99999999999999999999y", "٥m",  # arabic-indic digit five
    "", "m", "5", "5x", "5S", "5 ", "m5", "1.5h", "5mm", "5m ", "0x10s", None, 5, 5.0, b"5m",
    ["5", "m"], ("5", "m"), [5, []], True,
]
for spec in specs:
    try:
        ts = SigmaCorrelationTimespan(spec)
        print(f"spec={spec!r}: count={ts.count!r} unit={ts.unit!r} seconds={ts.seconds!r} repr={ts!r}")
    except Exception as e:
        print(f"spec={spec!r}: {type(e).__module__}.{type(e).__name__}: {e}")

print("eq:", SigmaCorrelationTimespan("60s") == SigmaCorrelationTimespan("1m"))
print("eq:", SigmaCorrelationTimespan("5m") == SigmaCorrelationTimespan("05m"))
print("instance dict:", sorted(vars(SigmaCorrelationTimespan("5m"))))


# 2. Rendering by backends: mapped units, seconds, passthrough
class SecondsBackend(TextQueryTestBackend):
    timespan_seconds = True


class PassthroughBackend(TextQueryTestBackend):
    timespan_mapping = None


class FullMappingBackend(TextQueryTestBackend):
    timespan_mapping = {
        "s": "sec", "m": "min", "h": "hrs", "d": "days", "w": "weeks", "M": "months", "y": "",
    }


class SecondsAndMappingBackend(FullMappingBackend):
    timespan_seconds = True


RULES = """
title: Base rule
name: base_rule
status: test
logsource:
    category: test
detection:
    selection:
        fieldA: value1
    condition: selection
---
title: Other rule
name: other_rule
status: test
logsource:
    category: test
detection:
    selection:
        fieldB: value2
    condition: selection
---
title: Correlation
status: test
correlation:
    type: {type}
    rules:
        - base_rule
        - other_rule
    timespan: {timespan}
    group-by:
        - fieldC
    condition:
        gte: 2
{extra}
"""

backends = [
    TextQueryTestBackend, SecondsBackend, PassthroughBackend, FullMappingBackend,
    SecondsAndMappingBackend,
]
for backend_class in backends:
    for ctype, extra in [
        ("event_count", ""),
        ("temporal", ""),
        ("temporal_ordered", ""),
        ("value_count", "        field: fieldD"),
    ]:
        for timespan in ["1s", "90s", "5m", "12h", "3d", "2w", "6M", "1y", "010m", "5q", "h"]:
            try:
                rules = SigmaCollection.from_yaml(
                    RULES.format(type=ctype, timespan=timespan, extra=extra)
                )
                result = backend_class().convert(rules)
                print(f"{backend_class.__name__} {ctype} {timespan}: {result!r}")
            except SigmaError as e:
                print(f"{backend_class.__name__} {ctype} {timespan}: {type(e).__name__}: {e}")

# 3. convert_timespan called directly, with the optional arguments
for backend_class in backends:
    backend = backend_class()
    for spec in ["30s", "5m", "1M", "2y"]:
        ts = SigmaCorrelationTimespan(spec)
        print(
            backend_class.__name__,
            spec,
            repr(backend.convert_timespan(ts)),
            repr(backend.convert_timespan(ts, "test")),
            repr(backend.convert_timespan(ts, None, "test")),
        )

sys.exit(0)
