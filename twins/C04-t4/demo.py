"""Demo for property C04: encoding modifiers (base64, base64offset, wide/utf16le, utf16be, utf16).

Prints every observed value / exception; the output must be identical on clean HEAD and with the patch.
"""
import itertools
import sys
from base64 import b64encode

from sigma.exceptions import SigmaError, SigmaRuleLocation
from sigma.modifiers import (
    SigmaBase64Modifier,
    SigmaBase64OffsetModifier,
    SigmaUTF16BEModifier,
    SigmaUTF16Modifier,
    SigmaWideModifier,
)
from sigma.rule import SigmaDetectionItem
from sigma.types import Placeholder, SigmaExpansion, SigmaString, SpecialChars

failures = 0
_print = print


def print(*args):  # ASCII-only output so that lone surrogates and control characters are shown escaped
    _print(" ".join(str(a) for a in args).encode("ascii", "backslashreplace").decode("ascii"))


def show(v):
    if isinstance(v, SigmaExpansion):
        return "Expansion[" + ", ".join(show(x) for x in v.values) + "]"
    if isinstance(v, SigmaString):
        return f"{type(v).__name__}(parts={v.s!r}, bytes={bytes(v)!r})"
    return repr(v)


def observe(key, payload):
    try:
        item = SigmaDetectionItem.from_mapping(key, payload)
        out = "[" + "; ".join(show(v) for v in item.value) + "]"
    except SigmaError as e:
        cause = e.__cause__
        out = (
            f"REJECT {type(e).__name__}: {e} | source={getattr(e, 'source', None)!r} "
            f"| cause={type(cause).__name__ if cause is not None else None}"
            f" | suppress_context={e.__suppress_context__}"
        )
    print(f"{key!r} <- {payload!r}: {out}")
    return out


payloads = [
    "",
    "a",
    "ab",
    "abc",
    "abcd",
    "foobar",
    "cmd.exe /c whoami",
    "ä",
    "äö",
    "a€b",
    "\U0001f600",
    "x\U0001f600y",
    "\x00",
    "\x00\x01\x02\xff",
    " leading and trailing ",
    "back\\slash",
    "esc\\*aped\\?wild",
    "two\\\\*",
    "wild*card",
    "sing?le",
    "*",
    "?",
    "%notaplaceholder%",
    "\ud800lone surrogate",
    "\ufeffbom first",
    "tab\tnew\nline",
    123,
    "a" * 50,
]
keys = [
    "f|base64",
    "f|base64offset",
    "f|base64offset|contains",
    "f|wide",
    "f|utf16le",
    "f|utf16be",
    "f|utf16",
    "f|wide|base64",
    "f|wide|base64offset",
    "f|wide|base64offset|contains",
    "f|utf16le|base64",
    "f|utf16be|base64",
    "f|utf16be|base64offset",
    "f|utf16|base64",
    "f|utf16|base64offset|contains",
    "f|contains|base64",
    "f|startswith|wide",
    "f|base64|wide",
]

print("== from_mapping over keys x payloads ==")
for key in keys:
    for p in payloads:
        observe(key, p)

print("== list values ==")
observe("f|base64offset|contains", ["a", "bc", "def"])
observe("f|wide|base64offset|contains", ["a", "bc", "ä"])
observe("f|base64", ["ok", "not*ok"])

print("== direct modifier calls, with source, placeholders and unusual parts ==")
dummy = SigmaDetectionItem.from_mapping("f", "x")
src = SigmaRuleLocation("/demo/rule.yml", 3, 7)


def mk(parts):
    s = SigmaString()
    s.s = list(parts)
    return s


direct_values = [
    ("plain", lambda: SigmaString("abc")),
    ("placeholder", lambda: SigmaString("a%var%b").insert_placeholders()),
    ("placeholder+wild", lambda: SigmaString("a%var%*").insert_placeholders()),
    ("only placeholder", lambda: mk([Placeholder("p")])),
    ("multi", lambda: mk(["ab", SpecialChars.WILDCARD_MULTI, "cd"])),
    ("single", lambda: mk(["ab", SpecialChars.WILDCARD_SINGLE, "cd", SpecialChars.WILDCARD_SINGLE])),
    ("unmerged strs", lambda: mk(["ab", "cd", "", "e"])),
    ("nonascii then placeholder", lambda: mk(["ä", Placeholder("p")])),
    ("placeholder then nonascii", lambda: mk([Placeholder("p"), "ä"])),
    ("empty parts", lambda: mk([])),
    ("surrogate", lambda: mk(["\udc80"])),
]
for cls in (
    SigmaBase64Modifier,
    SigmaBase64OffsetModifier,
    SigmaWideModifier,
    SigmaUTF16BEModifier,
    SigmaUTF16Modifier,
):
    for source in (None, src):
        for name, factory in direct_values:
            val = factory()
            before = list(val.s)
            mod = cls(dummy, [], source)
            try:
                res = show(mod.modify(val))
            except SigmaError as e:
                cause = e.__cause__
                res = (
                    f"REJECT {type(e).__name__}: {e} | source={e.source!r} "
                    f"| cause={type(cause).__name__ if cause is not None else None}"
                    f" | context={type(e.__context__).__name__ if e.__context__ is not None else None}"
                    f" | suppress_context={e.__suppress_context__}"
                )
            except Exception as e:  # anything else is shown too
                res = f"OTHER {type(e).__name__}: {e}"
            print(f"{cls.__name__}(source={source}) {name}: {res} | input unchanged={before == val.s}")

print("== class attributes ==")
print(SigmaBase64OffsetModifier.start_offsets, SigmaBase64OffsetModifier.end_offsets)

print("== property check: every alignment, exhaustive short payloads ==")
alphabet = ["a", "Z", "\x00", "é"]
surround = [b"", b"\x00", b"\xff", b"ab", b"\x00\xff\x10", b"abcd", b"\xfa\xfb\xfc\xfd\xfe"]
checked = 0
for n in range(1, 5):
    for tup in itertools.product(alphabet, repeat=n):
        payload = "".join(tup)
        item = SigmaDetectionItem.from_mapping("f|base64offset", payload)
        flat = []
        for v in item.value:
            flat.extend(v.values if isinstance(v, SigmaExpansion) else [v])
        variants = [bytes(v).decode() for v in flat]
        assert len(variants) == 3
        pb = payload.encode()
        b64 = bytes(SigmaDetectionItem.from_mapping("f|base64", payload).value[0])
        if b64 != b64encode(pb):
            failures += 1
            print("BASE64 MISMATCH", repr(payload))
        for pre in surround:
            for suf in surround:
                hay = b64encode(pre + pb + suf).decode()
                checked += 1
                if not any(v in hay for v in variants):
                    failures += 1
                    print("MISSED", repr(payload), pre, suf)
        if n <= 2:
            print(repr(payload), variants)
print("alignment checks:", checked, "failures:", failures)

for payload in ["a", "ab", "abc", "hello world", "A" * 7]:
    for key, codec, bom in (
        ("f|wide", "utf-16le", b""),
        ("f|utf16be", "utf-16be", b""),
        ("f|utf16", "utf-16le", "\ufeff".encode("utf-8")),
    ):
        got = bytes(SigmaDetectionItem.from_mapping(key, payload).value[0])
        want = bom + payload.encode(codec)
        ok = got == want
        if not ok:
            failures += 1
        print(key, repr(payload), got, "matches-expected" if ok else f"DIFFERS from {want!r}")

sys.exit(0)
