"""Exercises CIDR expansion and CIDR conversion (property C18) and prints everything observed."""

import hashlib
import ipaddress
import random
from typing import ClassVar

from sigma.backends.test import TextQueryTestBackend
from sigma.collection import SigmaCollection
from sigma.types import SigmaCIDRExpression


class ExpandingBackend(TextQueryTestBackend):
    """Backend without native CIDR support."""

    cidr_expression: ClassVar[None] = None  # type: ignore[assignment]


class NoInExpandingBackend(ExpandingBackend):
    """Backend without native CIDR support and without in-expressions (grouping of the OR needed)."""

    convert_or_as_in: ClassVar[bool] = False
    convert_and_as_in: ClassVar[bool] = False


class VerboseNativeBackend(TextQueryTestBackend):
    """Backend with a native CIDR expression using all template fields."""

    cidr_expression: ClassVar[str] = "cidr({field}|{value}|{network}|{prefixlen}|{netmask})"


def show_expand(cidr: str, **kwargs: str) -> None:
    try:
        expr = SigmaCIDRExpression(cidr)
        print("expand", repr(cidr), kwargs, "->", expr.expand(**kwargs), "| str:", str(expr))
    except Exception as e:  # noqa: BLE001
        print("expand", repr(cidr), kwargs, "-> EXC", type(e).__name__, str(e))


def convert(backend_cls: type, detection: str) -> None:
    rule = f"""
title: Test
status: test
logsource:
    category: test_category
    product: test_product
detection:
{detection}
"""
    try:
        result = backend_cls().convert(SigmaCollection.from_yaml(rule))
        print("convert", backend_cls.__name__, "->", result)
    except Exception as e:  # noqa: BLE001
        print("convert", backend_cls.__name__, "-> EXC", type(e).__name__, str(e))


def main() -> None:
    # 1. a handful of explicit networks, also unusual ones
    for cidr in [
        "0.0.0.0/0",
        "10.0.0.0/8",
        "192.168.0.0/14",
        "192.168.1.0/24",
        "192.168.1.0/25",
        "192.168.1.128/31",
        "192.168.1.1/32",
        "192.168.1.1",
        "128.0.0.0/1",
        "255.255.255.255/32",
        "255.255.255.254/31",
        "::/0",
        "::/1",
        "::1/128",
        "::1",
        "fe80::/10",
        "fe80::/64",
        "2001:db8::/32",
        "2001:db8::/33",
        "2001:db8:0:1::/64",
        "2001:db8::ff00/120",
        "2001:db8::/120",
        "2001:db8::/127",
        "1:2:3:4:5:6:7:8/128",
        "1:2:3:4:5:6:7:0/112",
        "1:0:0:2::/63",
        "ffff:ffff:ffff:ffff:ffff:ffff:ffff:ffff/128",
        "::ffff:10.0.0.0/104",
    ]:
        show_expand(cidr)
    show_expand("192.168.0.0/22", wildcard="%")
    show_expand("0.0.0.0/3", wildcard="")
    show_expand("fe80::/62", wildcard=".*")
    show_expand("::/126", wildcard="?")

    # 2. invalid values
    for cidr in [
        "192.168.1.1/24",
        "192.168.1.0/33",
        "300.1.1.0/24",
        "1.2.3/24",
        "",
        "foo",
        "fe80::1%eth0/128",
        "fe80::%1/64",
        "fe80::1%eth0/64",
        "%",
        "2001:db8::1/64",
        "2001:db8::/129",
        "10.0.0.0/255.0.0.0",
        "10.0.0.0/0.255.255.255",
        "10.0.0.0/8/8",
    ]:
        show_expand(cidr)

    # 3. every prefix length, boundary and random addresses: digest of all patterns
    rnd = random.Random(18)
    digest = hashlib.sha256()
    count = 0
    for prefixlen in range(0, 33):
        if prefixlen % 8 == 1 and prefixlen < 24:
            continue  # keeps the output of 128 subnets small enough; /25 is covered
        addrs = [0, 2**32 - 1] + [rnd.getrandbits(32) for _ in range(4)]
        for addr in addrs:
            net = ipaddress.ip_network((addr, prefixlen), strict=False)
            patterns = SigmaCIDRExpression(str(net)).expand()
            digest.update(repr((str(net), patterns)).encode())
            count += len(patterns)
    print("ipv4 sweep:", count, "patterns, sha256", digest.hexdigest())

    digest = hashlib.sha256()
    count = 0
    for prefixlen in range(0, 129):
        addrs = [0, 2**128 - 1] + [rnd.getrandbits(128) for _ in range(3)]
        # addresses with zero runs in different group positions
        for pos in range(8):
            value = rnd.getrandbits(128)
            value &= ~(0xFFFFFFFF << (16 * min(pos, 6)))
            addrs.append(value & (2**128 - 1))
        for addr in addrs:
            net = ipaddress.ip_network((addr, prefixlen), strict=False)
            patterns = SigmaCIDRExpression(str(net)).expand()
            digest.update(repr((str(net), patterns)).encode())
            count += len(patterns)
    print("ipv6 sweep:", count, "patterns, sha256", digest.hexdigest())

    # 4. conversion: native, native with all fields, expanded
    detections = [
        "    sel:\n        ip|cidr: 192.168.0.0/14\n    condition: sel",
        "    sel:\n        ip|cidr: 192.168.1.0/24\n    condition: sel",
        "    sel:\n        ip|cidr: 10.1.2.3/32\n    condition: sel",
        "    sel:\n        ip|cidr: 2001:0DB8:0000::/33\n    condition: sel",
        "    sel:\n        ip|cidr: '::1/128'\n    condition: sel",
        "    sel:\n        ip|cidr:\n            - 192.168.0.0/23\n            - 10.0.0.0/8\n    condition: sel",
        "    sel:\n        ip|cidr|all:\n            - 192.168.0.0/23\n            - 10.0.0.0/8\n    condition: sel",
        "    sel:\n        ip|cidr: 192.168.0.0/23\n        other: value\n    condition: sel",
        "    sel:\n        ip|cidr: 192.168.0.0/23\n    condition: not sel",
        "    sel:\n        ip|cidr: 192.168.0.0/24\n    condition: not sel",
        "    sel:\n        'field name|cidr': 172.16.0.0/12\n    filter:\n        x: y\n    condition: sel and not filter",
        "    sel:\n        ip|cidr: 192.168.1.1/24\n    condition: sel",
        "    sel:\n        ip|cidr: fe80::1%eth0/128\n    condition: sel",
        "    sel:\n        ip|cidr: 5\n    condition: sel",
        "    sel:\n        ip|contains|cidr: 10.0.0.0/8\n    condition: sel",
    ]
    for detection in detections:
        print("detection:", repr(detection))
        for backend_cls in (
            TextQueryTestBackend,
            VerboseNativeBackend,
            ExpandingBackend,
            NoInExpandingBackend,
        ):
            convert(backend_cls, detection)


if __name__ == "__main__":
    main()
