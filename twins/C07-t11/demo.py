"""Strict vs collecting loading of (malformed) correlation documents; prints what is observed."""
import copy
import datetime

from sigma.collection import SigmaCollection
from sigma.correlations import SigmaCorrelationRule
from sigma.exceptions import SigmaError

BASE = {
    "title": "Correlation",
    "id": "0e95725d-7320-415d-80f7-004da920fc11",
    "correlation": {
        "type": "event_count",
        "rules": ["rule_a", "rule_b"],
        "group-by": ["user"],
        "timespan": "5m",
        "condition": {"gte": 10},
    },
}
MISSING = object()


def plain_rule(name):
    return {
        "title": "Rule " + name,
        "name": name,
        "logsource": {"category": "test"},
        "detection": {"sel": {"field": "value"}, "condition": "sel"},
    }


SUPPORT = [plain_rule(n) for n in ("rule_a", "rule_b", "a", "b")]


def variant(**changes):
    doc = copy.deepcopy(BASE)
    for key, value in changes.items():
        key = key.replace("_", "-") if key == "group_by" else key
        if value is MISSING:
            doc["correlation"].pop(key, None)
        else:
            doc["correlation"][key] = value
    return doc


CASES = [
    ("valid", variant()),
    ("type upper", variant(type="EVENT_COUNT")),
    ("type mixed", variant(type="Value_Count", condition={"gte": 1, "field": "f"})),
    ("type missing", variant(type=MISSING)),
    ("type null", variant(type=None)),
    ("type unknown", variant(type="nonsense")),
    ("type int", variant(type=5)),
    ("type list", variant(type=["event_count"])),
    ("type map", variant(type={"a": 1})),
    ("type bool", variant(type=True)),
    ("type empty", variant(type="")),
    ("type private", variant(type="_member_map_")),
    ("type dunder", variant(type="__members__")),
    ("type dotted", variant(type="temporal ")),
    ("rules string", variant(rules="rule_a")),
    ("rules empty string", variant(rules="")),
    ("rules empty list", variant(rules=[])),
    ("rules missing", variant(rules=MISSING)),
    ("rules null", variant(rules=None)),
    ("rules int", variant(rules=3)),
    ("rules mixed list", variant(rules=["a", 1])),
    ("rules nested list", variant(rules=[["a"]])),
    ("rules map", variant(rules={"a": "b"})),
    ("rules false", variant(rules=False)),
    ("temporal no rules no condition", variant(type="temporal", rules=MISSING, condition=MISSING)),
    ("temporal rules no condition", variant(type="temporal_ordered", condition=MISSING)),
    ("temporal bad rules", variant(type="temporal", rules=7, condition=MISSING)),
    ("temporal extended", variant(type="temporal", rules=MISSING, condition="rule_a and rule_b")),
    ("extended on event_count", variant(condition="rule_a and rule_b")),
    ("unknown type no rules", variant(type="bogus", rules=MISSING)),
    ("no type no rules", variant(type=MISSING, rules=MISSING)),
    ("generate true", variant(generate=True)),
    ("generate false", variant(generate=False)),
    ("generate null", variant(generate=None)),
    ("generate string", variant(generate="yes")),
    ("generate int", variant(generate=1)),
    ("generate zero", variant(generate=0)),
    ("generate list", variant(generate=[])),
    ("timespan missing", variant(timespan=MISSING)),
    ("timespan null", variant(timespan=None)),
    ("timespan bad unit", variant(timespan="5x")),
    ("timespan int", variant(timespan=300)),
    ("timespan empty", variant(timespan="")),
    ("timespan list", variant(timespan=["5m"])),
    ("timespan map", variant(timespan={"5": "m"})),
    ("timespan date", variant(timespan=datetime.date(2024, 1, 1))),
    ("timespan unit only", variant(timespan="m")),
    ("timespan year", variant(timespan="1y")),
    ("everything wrong", variant(type=1.5, rules={}, generate="x", timespan=[], group_by=3,
                                 aliases=4, condition=5)),
    ("all missing", {"title": "Correlation", "correlation": {}}),
    ("correlation list", {"title": "Correlation", "correlation": []}),
    ("correlation null", {"title": "Correlation", "correlation": None}),
    ("correlation string", {"title": "Correlation", "correlation": "event_count"}),
]


def describe(e):
    return f"{type(e).__name__}({e.args!r})"


def show(rule):
    return (
        f"type={rule.type!r} rules={rule.rules!r} generate={rule.generate!r} "
        f"timespan={rule.timespan!r} group_by={rule.group_by!r} condition={rule.condition!r}"
    )


failures = 0
for name, doc in CASES:
    print("==", name)
    strict_error = None
    try:
        strict = SigmaCorrelationRule.from_dict(copy.deepcopy(doc))
        print("  strict ok:", show(strict))
    except SigmaError as e:
        strict_error = e
        print("  strict raises:", describe(e))
    except Exception as e:  # anything else is a breach of the property
        failures += 1
        strict_error = e
        print("  strict raises NON-SIGMA:", type(e).__name__, e)
    try:
        collected = SigmaCorrelationRule.from_dict(copy.deepcopy(doc), collect_errors=True)
        print("  collected:", [describe(e) for e in collected.errors])
        print("  collected object:", show(collected))
        if bool(collected.errors) != (strict_error is not None):
            failures += 1
            print("  MISMATCH: error list emptiness differs from strict result")
        elif collected.errors and not (collected.errors[0] == strict_error):
            failures += 1
            print("  MISMATCH: first collected error differs from the raised one")
    except Exception as e:
        failures += 1
        print("  collecting mode RAISED:", type(e).__name__, e)
    # same documents through the collection loader
    try:
        coll = SigmaCollection.from_dicts(
            copy.deepcopy(SUPPORT) + [copy.deepcopy(doc)], collect_errors=True
        )
        print("  collection errors:", [describe(e) for e in coll.errors],
              [[describe(e) for e in r.errors] for r in coll.rules])
    except SigmaError as e:  # unresolvable references are reported by the collection itself
        print("  collection refuses:", describe(e))
    except Exception as e:
        failures += 1
        print("  collection collecting mode RAISED:", type(e).__name__, e)

YAML = """
title: Y
correlation:
    type: {type}
    rules: {rules}
    timespan: {timespan}
    generate: {generate}
    condition:
        gte: 1
"""
for t, r, ts, g in [
    ("event_count", "[a, b]", "1h", "true"),
    ("~", "~", "~", "~"),
    ("2024-01-01", "2024-01-01", "2024-01-01", "2024-01-01"),
    ("0x10", "0x10", "0x10", "0x10"),
    ("temporal", "a", "10s", "no"),
    ("[temporal]", "{a: b}", "1.5h", "[true]"),
]:
    text = YAML.format(type=t, rules=r, timespan=ts, generate=g)
    print("== yaml", t, r, ts, g)
    try:
        print("  strict ok:", show(SigmaCorrelationRule.from_yaml(text)))
    except SigmaError as e:
        print("  strict raises:", describe(e))
    rule = SigmaCorrelationRule.from_yaml(text, collect_errors=True)
    print("  collected:", [describe(e) for e in rule.errors])
    try:
        coll = SigmaCollection.from_yaml(text, collect_errors=True)
        print("  collection:", [describe(e) for e in coll.errors],
              [[describe(e) for e in r.errors] for r in coll.rules])
    except SigmaError as e:
        print("  collection refuses:", describe(e))

print("failures:", failures)
raise SystemExit(1 if failures else 0)
