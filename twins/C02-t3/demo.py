"""Demo for C02: condition text -> boolean function.

Builds rules from plain dicts, parses their conditions (raw parse tree and postprocessed
condition tree), prints the trees and the full truth table over all assignments of the
detections.  Also exercises ConditionItem.from_parsed / postprocess directly (single-argument collapse,
empty-argument drop), the parse cache and the tokenisation of operators next to identifiers.
Run: PYTHONPATH=/tmp/wt5-C02 /venv/bin/python demo.py
"""
import itertools
import sys
from typing import ClassVar
from dataclasses import dataclass

from pyparsing import ParseResults

from sigma.conditions import (
    ConditionAND,
    ConditionFieldEqualsValueExpression,
    ConditionIdentifier,
    ConditionItem,
    ConditionNOT,
    ConditionOR,
    ConditionSelector,
    ConditionValueExpression,
    SigmaCondition,
    _parse_condition_string,
)
from sigma.exceptions import SigmaError
from sigma.rule import SigmaDetections

NAMES = [
    "sel",
    "sel1",
    "sel2",
    "notepad",
    "android",
    "oracle",
    "all_in",
    "anything",
    "of-course",
    "them_too",
    "1st",
    "filter_main",
    "_injected",
    "_filt_ab12_x",
]

CONDITIONS = [
    "sel",
    "not sel",
    "not not sel",
    "not not not sel",
    "sel and sel1",
    "sel or sel1",
    "sel and sel1 and sel2",
    "sel or sel1 or sel2",
    "sel or sel1 and sel2",
    "sel and sel1 or sel2",
    "sel or not sel1 and sel2",
    "not sel or sel1 and not sel2",
    "not (sel or sel1) and sel2",
    "(sel or sel1) and (sel2 or notepad)",
    "((sel))",
    "(((sel and sel1)))",
    "sel and (sel1 or (sel2 and not (notepad or android)))",
    "sel and not sel1 or sel2 and not notepad or android",
    "notepad",
    "not notepad",
    "notepad and android or oracle",
    "not android and not oracle",
    "all_in or anything and of-course",
    "them_too and 1st",
    "not 1st",
    "1 of sel*",
    "any of sel*",
    "all of sel*",
    "1 of them",
    "all of them",
    "any of them",
    "1 of *",
    "all of *",
    "1 of *_in",
    "1 of s*l*",
    "all of *n*",
    "1 of _*",
    "all of _*",
    "1 of _filt_*",
    "1 of _filt_ab12_*",
    "1 of filter_*",
    "not 1 of sel*",
    "not all of sel*",
    "sel and not 1 of filter_*",
    "1 of sel* and all of *o*",
    "all of sel* or 1 of a* and not notepad",
    "(1 of sel*) and not (all of a*)",
    "1 of sel",
    "all of notepad",
    "  sel   and\tsel1  ",
    "SEL",
    "sel AND sel1",
    "sel and",
    "and sel",
    "sel sel1",
    "(sel and sel1",
    "sel and sel1)",
    "",
    "not",
    "1 of",
    "2 of sel*",
    "1 of nomatch*",
    "all of zzz",
    "undefined",
    "sel and undefined",
    "sel | count() > 5",
    "1 of sel* | count() > 5",
    "sel.x",
    "1 of (sel*)",
    "not1 of sel*",
    "all of them and not them_too",
    "them",
    "of",
    "sel of sel",
    "1 of 1st",
    "any of an*",
]


def detections_dict(names, condition):
    d = {name: {"f_" + name: "v"} for name in names}
    d["condition"] = condition
    return d


def chain(node):
    try:
        return ">".join(c.__name__ for c in node.parent_chain_classes())
    except Exception as e:  # pragma: no cover
        return "!" + type(e).__name__


def show(node):
    """Serialise a tree including the class chain of the parents of each node."""
    if node is None:
        return "None"
    if isinstance(node, ConditionIdentifier):
        return "Id(%r)" % (node.identifier,)
    if isinstance(node, ConditionSelector):
        return "Sel(%s,%r,%r)" % (node.cond_class.__name__, node.pattern, node.args)
    if isinstance(node, ConditionItem):
        return "%s[%s](%s)" % (
            type(node).__name__,
            chain(node),
            ", ".join(show(a) for a in node.args),
        )
    if isinstance(node, ConditionFieldEqualsValueExpression):
        return "FV[%s](%s=%s)" % (chain(node), node.field, node.value)
    if isinstance(node, ConditionValueExpression):
        return "V[%s](%s)" % (chain(node), node.value)
    if isinstance(node, str):
        return repr(node)
    return "?%s" % type(node).__name__


def evaluate(node, env):
    if isinstance(node, ConditionAND):
        return all(evaluate(a, env) for a in node.args)
    if isinstance(node, ConditionOR):
        return any(evaluate(a, env) for a in node.args)
    if isinstance(node, ConditionNOT):
        return not evaluate(node.args[0], env)
    if isinstance(node, ConditionFieldEqualsValueExpression):
        return env[node.field]
    raise TypeError(type(node).__name__)


def truth_table(tree, names):
    bits = []
    for values in itertools.product([False, True], repeat=len(names)):
        env = {"f_" + n: v for n, v in zip(names, values)}
        bits.append("1" if evaluate(tree, env) else "0")
    s = "".join(bits)
    # compress: the table over 14 names has 16384 entries; print a digest and the head
    import hashlib

    return "%s..(%d) sha1=%s" % (s[:32], len(s), hashlib.sha1(s.encode()).hexdigest()[:16])


def run_condition(names, cond):
    print("== %r" % (cond,))
    try:
        dets = SigmaDetections.from_dict(detections_dict(names, cond))
    except SigmaError as e:
        print("   construct: %s: %s" % (type(e).__name__, e))
        return
    c = dets.parsed_condition[0]
    for label, fn in (("raw   ", lambda: c.parse(False)), ("parsed", lambda: c.parsed)):
        try:
            tree = fn()
        except SigmaError as e:
            print("   %s: %s: %s" % (label, type(e).__name__, e))
            continue
        except Exception as e:
            print("   %s: UNEXPECTED %s: %s" % (label, type(e).__name__, e))
            continue
        print("   %s: %s" % (label, show(tree)))
        if label == "parsed" and tree is not None:
            print("   truth : %s" % truth_table(tree, names))
    # second access: parse cache hands out fresh copies
    try:
        a, b = c.parsed, c.parsed
        print("   again : equal=%s same=%s" % (a == b, a is b))
    except SigmaError as e:
        print("   again : %s" % type(e).__name__)


def run_from_parsed():
    print("== from_parsed on hand-made tokens")
    i = lambda n: ConditionIdentifier([n])
    cases = [
        (ConditionIdentifier, ["abc"]),
        (ConditionIdentifier, ParseResults(["abc"])),
        (ConditionIdentifier, ["abc", "ignored"]),
        (ConditionIdentifier, []),
        (ConditionSelector, ["1", "of", "sel*"]),
        (ConditionSelector, ParseResults(["all", "of", "them"])),
        (ConditionSelector, ["any", "of"]),
        (ConditionSelector, ["2", "of", "x"]),
        (ConditionSelector, ["1"]),
        (ConditionNOT, ParseResults([ParseResults(["not", i("a")])])),
        (ConditionNOT, ParseResults([ParseResults([i("a")])])),
        (ConditionNOT, ParseResults([ParseResults([])])),
        (ConditionNOT, [["not", i("a")]]),
        (ConditionNOT, ParseResults([])),
        (ConditionAND, ParseResults([ParseResults([i("a"), "and", i("b"), "and", i("c")])])),
        (ConditionOR, ParseResults([ParseResults([i("a"), "or", i("b")])])),
        (ConditionOR, ParseResults([ParseResults([i("a")])])),
        (ConditionOR, ParseResults([ParseResults([])])),
        (ConditionAND, [[i("a"), "and", i("b")]]),
        (ConditionAND, ParseResults([])),
        (ConditionAND, "text"),
    ]

    @dataclass
    class Broken(ConditionItem):
        arg_count: ClassVar[int] = 0

    @dataclass
    class BrokenTok(ConditionItem):
        arg_count: ClassVar[int] = -3
        token_list: ClassVar[bool] = True

    @dataclass
    class Three(ConditionItem):
        arg_count: ClassVar[int] = 3

    @dataclass
    class Unset(ConditionItem):
        pass

    cases += [
        (Broken, ParseResults([ParseResults(["x"])])),
        (Broken, ["x"]),
        (Broken, None),
        (BrokenTok, ["x"]),
        (Three, ParseResults([ParseResults([i("a"), "x", i("b"), "x", i("c")])])),
        (Three, [i("a")]),
        (Unset, ["x"]),
    ]
    for cls, tokens in cases:
        try:
            res = cls.from_parsed("s", 0, tokens)
            print(
                "   %s %r -> %s %s args=%s(%s)"
                % (
                    cls.__name__,
                    tokens,
                    type(res).__name__,
                    len(res),
                    type(res[0].args).__name__,
                    ", ".join(show(a) for a in res[0].args),
                )
            )
        except Exception as e:
            print("   %s %r -> %s: %s" % (cls.__name__, tokens, type(e).__name__, e))


def run_collapse():
    """Single-argument collapse and empty-argument drop in ConditionItem.postprocess."""
    print("== collapse / drop with emptied detections")
    names = ["a", "b", "c", "d"]
    conds = [
        "a", "not a", "not not a", "a and b", "a or b", "a and b and c", "a and (b or c)",
        "a or b and c", "not (a and b)", "not (a or b) and c", "(a and b) or (c and d)",
        "1 of them", "all of them", "not 1 of them", "a and 1 of b*", "not (a and not (b or not c))",
    ]
    import itertools as it

    for cond in conds:
        for emptied in [(), ("a",), ("b",), ("a", "b"), ("b", "c"), ("a", "b", "c", "d")]:
            dets = SigmaDetections.from_dict(detections_dict(names, cond))
            for n in emptied:
                dets.detections[n].detection_items = []
            try:
                tree = dets.parsed_condition[0].parsed
                out = show(tree)
            except Exception as e:
                out = "%s: %s" % (type(e).__name__, e)
            print("   %-30r empty=%-20s -> %s" % (cond, ",".join(emptied), out))

    print("== postprocess on hand-made trees")
    dets = SigmaDetections.from_dict(detections_dict(names, "a"))
    i = lambda n: ConditionIdentifier([n])
    trees = [
        lambda: ConditionAND([]),
        lambda: ConditionOR([None]),
        lambda: ConditionNOT([None]),
        lambda: ConditionNOT([]),
        lambda: ConditionAND([None, i("a")]),
        lambda: ConditionAND([i("a"), None, i("b")]),
        lambda: ConditionOR([ConditionAND([None]), i("a")]),
        lambda: ConditionOR([ConditionAND([None]), ConditionNOT([None])]),
        lambda: ConditionNOT([ConditionAND([i("a")])]),
        lambda: ConditionNOT([i("a"), i("b")]),
        lambda: ConditionAND([ConditionOR([ConditionAND([i("c")])])]),
        lambda: ConditionAND([i("a"), i("zz")]),
        lambda: ConditionAND(["text"]),
    ]
    from sigma.exceptions import SigmaRuleLocation

    loc = SigmaRuleLocation("r.yml")
    for mk in trees:
        for parent in (None, ConditionNOT([])):
            t = mk()
            before = show(t)
            try:
                r = t.postprocess(dets, parent, loc)
                out = "%s | self after: %s parent=%s source_set=%s | result parent=%s" % (
                    show(r),
                    show(t),
                    type(t.parent).__name__,
                    t.source == loc,
                    type(getattr(r, "parent", None)).__name__,
                )
            except Exception as e:
                out = "%s: %s | self after: %s" % (type(e).__name__, str(e).split(" in ")[0], show(t))
            print("   %s (parent %s) -> %s" % (before, type(parent).__name__, out))


def run_cache_and_grammar():
    print("== parse cache hands out independent copies")
    dets = SigmaDetections.from_dict(detections_dict(["a", "b", "c"], "a and (b or not c)"))
    c = dets.parsed_condition[0]
    raw1 = c.parse(False)
    raw1.args.append("junk")
    raw1.args[1].args.clear()
    raw2 = c.parse(False)
    print("   raw1:", show(raw1))
    print("   raw2:", show(raw2), "cached:", show(_parse_condition_string("a and (b or not c)")))
    p1 = c.parsed
    print("   after postprocess raw again:", show(c.parse(False)), "| parse(True)==parsed:", c.parse(True) == p1)
    print("   parse() default:", show(c.parse()) == show(p1), "positional:", show(c.parse(False)))
    for flag in (0, 1, None, "", "x", [], [0]):
        print("   parse(%r): %s" % (flag, show(c.parse(flag))))

    print("== tokenisation and nesting")
    names = ["sel", "sel1", "notsel", "andsel1", "or-x", "x", "not_", "and-", "or1", "1", "all", "any"]
    conds = [
        "notsel", "not sel", "not(sel)", "not(sel)and(sel1)", "(sel)and(sel1)", "sel and(sel1)",
        "sel andsel1", "sel and andsel1", "sel or-x", "sel or or-x", "not not_", "not_ and and-",
        "and- or or1", "not notsel", "sel\nand\nsel1", "sel\tor\tsel1", "( sel )", "()", "( )",
        "not", "and", "or", "not and", "sel not sel1", "sel and not", "sel and or sel1",
        "1", "all", "any", "1 and all", "1 of 1", "all of all", "any of any", "1 of all and any",
        "1of sel*", "1 ofsel*", "all  of   sel*", "Not sel", "NOT sel", "sel And sel1", "sel OR sel1",
        "sel &", "sel && sel1", "sel, sel1", "s\u00e4l", "sel and sel1 or", "*", "sel*", "1 of *sel* or x",
    ]
    for cond in conds:
        run_condition(names, cond)
    for n in (5, 20, 40, 60, 80, 120, 300, 3000):
        for cond in ("not " * n + "sel", "(" * n + "sel" + ")" * n, " and ".join(["sel"] * n),
                     "sel and (" * n + "sel" + ")" * n):
            try:
                d = SigmaDetections.from_dict({"sel": {"f_sel": "v"}, "condition": cond})
                t = d.parsed_condition[0].parsed
                depth = 0
                node = t
                while isinstance(node, ConditionItem) and node.args:
                    depth += 1
                    node = node.args[-1]
                out = "%s nargs=%d depth=%d" % (type(t).__name__, len(getattr(t, "args", [])), depth)
            except SigmaError as e:
                out = "%s: %s" % (type(e).__name__, e)
            print("   n=%-4d %-14r -> %s" % (n, cond[:14], out))


def main():
    for cond in CONDITIONS:
        run_condition(NAMES, cond)
    # small name set: selectors that resolve to a single detection collapse
    for cond in ["1 of s*", "all of s*", "not 1 of s*", "x and all of s*", "1 of them", "1 of _*"]:
        run_condition(["sel", "x", "_y"], cond)
    run_from_parsed()
    run_collapse()
    run_cache_and_grammar()
    info = _parse_condition_string.cache_info()
    print("cache: hits=%d misses=%d maxsize=%d" % (info.hits, info.misses, info.maxsize))
    return 0


if __name__ == "__main__":
    sys.exit(main())
