"""Demo for C08: a failing rule never changes other rules' output; every query is accounted for.

Exercises Backend.convert / convert_rule with a focus on the condition dispatchers
Backend.convert_condition and Backend.convert_condition_val (value-only conditions, whose
unsupported value types are one of the per-rule failure stages).

Run: PYTHONPATH=/tmp/wt10-C08 /venv/bin/python demo.py
"""

import itertools
from typing import ClassVar

from sigma.backends.test import TextQueryTestBackend
from sigma.collection import SigmaCollection
from sigma.conditions import (
    ConditionAND,
    ConditionFieldEqualsValueExpression,
    ConditionNOT,
    ConditionOR,
    ConditionValueExpression,
)
from sigma.conversion.state import ConversionState
from sigma.exceptions import SigmaError
from sigma.processing.conditions import IncludeFieldCondition, LogsourceCondition
from sigma.processing.pipeline import ProcessingItem, ProcessingPipeline
from sigma.processing.transformations import (
    DetectionItemFailureTransformation,
    FieldMappingTransformation,
    QueryExpressionPlaceholderTransformation,
    RuleFailureTransformation,
    SetStateTransformation,
)
from sigma.types import (
    SigmaBool,
    SigmaCasedString,
    SigmaCIDRExpression,
    SigmaCompareExpression,
    SigmaExists,
    SigmaExpansion,
    SigmaFieldReference,
    SigmaNull,
    SigmaNumber,
    SigmaQueryExpression,
    SigmaRegularExpression,
    SigmaString,
    SigmaTimestampPart,
    SigmaType,
    TimestampPart,
)

HEADER = """
title: {title}
status: test
logsource:
    category: {category}
    product: test_product
detection:
"""

# name -> (logsource category, detection body)
RULES = {
    "ok_field": ("test_category", "    sel:\n        fieldA: valueA\n        fieldB: 123\n    condition: sel"),
    "ok_multi": (
        "test_category",
        "    sel1:\n        fieldA: [a, b, c]\n    sel2:\n        fieldB|all: [x, y]\n    sel3:\n        fieldC: z\n"
        "    condition:\n        - sel1\n        - sel2 and not sel3\n        - 1 of sel*",
    ),
    "ok_mixed_or": ("test_category", "    sel:\n        - fieldA: a\n        - fieldB: b\n    condition: sel"),
    "kw_str": ("test_category", "    sel:\n        - foo\n        - bar*\n        - 'b?z'\n    condition: sel"),
    "kw_num": ("test_category", "    sel:\n        - 1\n        - 22\n    condition: sel"),
    "kw_re": ("test_category", "    sel:\n        '|re': 'a.*b/c'\n    condition: sel"),
    "kw_all": ("test_category", "    sel:\n        '|all':\n            - one\n            - two\n    condition: sel"),
    "kw_windash": ("test_category", "    sel:\n        '|windash': '-param value'\n    condition: sel"),
    "kw_str_and_field": (
        "test_category",
        "    kw:\n        - needle\n    sel:\n        fieldA|contains: hay\n    condition: kw and sel",
    ),
    "bad_kw_bool": ("test_category", "    sel: true\n    condition: sel"),
    "bad_kw_cidr": ("test_category", "    sel:\n        '|cidr': 192.168.0.0/16\n    condition: sel"),
    "bad_kw_cased": ("test_category", "    sel:\n        '|cased': CaseMatters\n    condition: sel"),
    "bad_kw_null": ("test_category", "    sel:\n        - null\n    condition: sel"),
    "bad_kw_fieldref": ("test_category", "    sel:\n        '|fieldref': otherField\n    condition: sel"),
    "bad_kw_second_cond": (
        "test_category",
        "    sel:\n        fieldA: fine\n    kw: false\n    condition:\n        - sel\n        - kw",
    ),
    "bad_missing_detection": ("test_category", "    sel:\n        fieldA: v\n    condition: sel and nothere"),
    "bad_placeholder": ("test_category", "    sel:\n        fieldA|expand: '%unresolved%'\n    condition: sel"),
    "bad_pipeline_item": ("test_category", "    sel:\n        forbidden: v\n    condition: sel"),
    "bad_pipeline_rule": ("fail_category", "    sel:\n        fieldA: v\n    condition: sel"),
    "bad_not_implemented": ("test_category", "    sel:\n        fieldA: null\n    condition: sel"),
    "ok_query_expr_placeholder": (
        "test_category",
        "    sel:\n        fieldQ|expand: '%known%'\n    condition: sel",
    ),
}


def rule_yaml(name: str) -> str:
    category, detection = RULES[name]
    return HEADER.format(title=name, category=category) + detection + "\n"


def collection_of(names):
    return SigmaCollection.from_yaml("---".join(rule_yaml(name) for name in names))


def make_pipeline():
    return ProcessingPipeline(
        [
            ProcessingItem(FieldMappingTransformation({"fieldB": "mappedB"}), identifier="map"),
            ProcessingItem(
                DetectionItemFailureTransformation("forbidden field used"),
                field_name_conditions=[IncludeFieldCondition(["forbidden"])],
            ),
            ProcessingItem(
                RuleFailureTransformation("category not supported"),
                rule_conditions=[LogsourceCondition(category="fail_category")],
            ),
            ProcessingItem(
                QueryExpressionPlaceholderTransformation(
                    include=["known"], expression="{field} lookup {id}", mapping={"known": "list1"}
                )
            ),
            ProcessingItem(SetStateTransformation("index", "test")),
        ]
    )


class NoNullBackend(TextQueryTestBackend):
    """Backend that lacks null support: NotImplementedError while converting."""

    field_null_expression: ClassVar[None] = None


def make_backend(with_pipeline: bool, collect: bool):
    return NoNullBackend(make_pipeline() if with_pipeline else None, collect_errors=collect)


def show_error(e: BaseException) -> str:
    return f"{e.__class__.__name__}: {e}"


def alone(name: str, with_pipeline: bool, output_format):
    backend = make_backend(with_pipeline, True)
    result = backend.convert(collection_of([name]), output_format)
    return result, [(r.title, show_error(e)) for r, e in backend.errors]


def scenario(names, with_pipeline: bool, output_format=None):
    print(f"--- collection {list(names)} pipeline={with_pipeline} format={output_format}")
    backend = make_backend(with_pipeline, True)
    collection = collection_of(names)
    result = backend.convert(collection, output_format)
    print("queries:")
    for q in result if isinstance(result, list) else [result]:
        print("   ", repr(q))
    errors = [(r.title, show_error(e)) for r, e in backend.errors]
    print("errors:")
    for title, err in errors:
        print("   ", title, "->", err)
    print("error rules are collection members:", all(r in collection.rules for r, _ in backend.errors))
    if output_format in (None, "default", "test", "state"):
        expected_queries, expected_errors = [], []
        for name in names:
            q, e = alone(name, with_pipeline, output_format)
            expected_queries.extend(q)
            expected_errors.extend(e)
        print("same as per-rule conversions:", result == expected_queries and errors == expected_errors)
    # stored per-rule results
    for rule in collection.rules:
        try:
            stored = rule.get_conversion_result()
        except SigmaError as e:
            stored = "no result (" + e.__class__.__name__ + ")"
        print("   stored", rule.title, "=", repr(stored))
    # without collection the first error is raised
    raising = make_backend(with_pipeline, False)
    try:
        print("raising mode:", repr(raising.convert(collection_of(names), output_format)))
    except Exception as e:
        print("raising mode raised", show_error(e), "| errors list:", raising.errors)


def direct_dispatch():
    print("=== direct calls of the dispatchers")
    backend = make_backend(False, False)

    class MyString(SigmaString):
        pass

    class MyCased(SigmaCasedString):
        pass

    class MyType(SigmaType):
        def __init__(self):
            pass

        def __repr__(self):
            return "MyType()"

    values = [
        SigmaString("plain"),
        SigmaString("wild*card?"),
        MyString("sub"),
        SigmaCasedString("Cased"),
        MyCased("SubCased"),
        SigmaNumber(42),
        SigmaNumber(1.5),
        SigmaTimestampPart(TimestampPart.MINUTE, 5),
        SigmaBool(True),
        SigmaBool(False),
        SigmaRegularExpression("a.*b"),
        SigmaCIDRExpression("10.0.0.0/8"),
        SigmaCompareExpression(SigmaNumber(3), SigmaCompareExpression.CompareOperators.GTE),
        SigmaFieldReference("other"),
        SigmaNull(),
        SigmaExists(True),
        SigmaQueryExpression("{field} in list({id})", "lst"),
        SigmaExpansion([SigmaString("e1"), SigmaNumber(2), SigmaRegularExpression("r.")]),
        SigmaExpansion([SigmaString("ok"), SigmaBool(True)]),
        SigmaExpansion([SigmaExpansion([SigmaString("nested")]), SigmaString("outer")]),
        SigmaExpansion([]),
        MyType(),
        "not a sigma type",
        None,
        17,
    ]
    runs = [(value, False) for value in values]
    runs += [(value, True) for value in values if isinstance(value, SigmaExpansion)]
    for value, with_source in runs:
        cond = ConditionValueExpression(value)
        if with_source:  # as set while a rule's condition is parsed
            cond.source = None
        for label, fn in (("val", backend.convert_condition_val), ("cond", backend.convert_condition)):
            try:
                print(f"{label} {value!r:.70} -> {fn(cond, ConversionState())!r}")
            except Exception as e:
                print(f"{label} {value!r:.70} raised {show_error(e)}")

    def f(field, value):
        return ConditionFieldEqualsValueExpression(field, SigmaString(value))

    conds = [
        None,
        ConditionOR([f("a", "1"), f("a", "2")]),
        ConditionOR([f("a", "1"), f("b", "2")]),
        ConditionAND([f("a", "1"), f("a", "2")]),
        ConditionAND([f("a", "1"), f("b", "2")]),
        ConditionOR([]),
        ConditionAND([]),
        ConditionOR([ConditionValueExpression(SigmaString("k1")), ConditionValueExpression(SigmaNumber(2))]),
        ConditionAND([ConditionValueExpression(SigmaString("k1")), ConditionValueExpression(SigmaBool(True))]),
        ConditionNOT([ConditionOR([f("a", "1"), f("a", "2")])]),
        ConditionNOT([ConditionValueExpression(SigmaCIDRExpression("10.0.0.0/8"))]),
        f("a", "single"),
        "a string",
        42,
        [f("a", "1")],
    ]
    for cond in conds:
        try:
            print(f"convert_condition({cond!r:.90}) -> {backend.convert_condition(cond, ConversionState())!r}")
        except Exception as e:
            print(f"convert_condition({cond!r:.90}) raised {show_error(e)}")


def main():
    names = list(RULES)
    print("=== every rule alone")
    for with_pipeline in (False, True):
        for name in names:
            print(name, "pipeline=%s" % with_pipeline, "->", alone(name, with_pipeline, None))

    print("=== collections")
    scenario(names, True)
    scenario(names, False)
    scenario(list(reversed(names)), True)
    scenario(names[7:] + names[:7], True, "test")
    scenario(names, True, "state")
    scenario(names, True, "str")
    scenario(names, True, "list_of_dict")
    good = [n for n in names if n.startswith("ok") or n.startswith("kw")]
    bad = [n for n in names if n.startswith("bad")]
    scenario(good, True)
    scenario(bad, True)
    scenario(bad, False)
    # each failing rule in first, middle and last position among three good ones
    trio = ["ok_field", "kw_str", "ok_multi"]
    for failing in bad:
        for position in range(len(trio) + 1):
            scenario(trio[:position] + [failing] + trio[position:], True)
    # pairs of failing rules around a good one
    for first, second in itertools.islice(itertools.permutations(bad, 2), 0, None, 7):
        scenario([first, "kw_windash", second], True)
    # the same rule twice in a collection
    scenario(["kw_num", "bad_kw_bool", "kw_num", "bad_kw_bool"], False)

    direct_dispatch()


if __name__ == "__main__":
    main()
