"""Demo for C14 (pipeline composition and stage order) - prints observed behaviour.

Exercises Backend.convert / convert_rule / convert_correlation_rule with composed pipelines:
backend pipeline, then user pipeline, then output-format pipeline; postprocessing on every emitted
query in item order; finalizers once on the whole list; rules that are referenced by correlation
rules (raw embedding vs. finalized sub-queries, generate: true/false); error collection.
"""

import itertools

from sigma.backends.test import TextQueryTestBackend
from sigma.collection import SigmaCollection
from sigma.exceptions import SigmaError
from sigma.processing.finalization import ConcatenateQueriesFinalizer, NestedFinalizer
from sigma.processing.pipeline import (
    ProcessingItem,
    ProcessingPipeline,
    QueryPostprocessingItem,
)
from sigma.processing.postprocessing import (
    EmbedQueryTransformation,
    NestedQueryPostprocessingTransformation,
)
from sigma.processing.conditions import LogsourceCondition
from sigma.processing.resolver import ProcessingPipelineResolver
from sigma.processing.transformations import (
    AddFieldnamePrefixTransformation,
    AddFieldnameSuffixTransformation,
    FieldMappingTransformation,
    RuleFailureTransformation,
    SetStateTransformation,
)

RULES = """
title: Rule A
id: 0e95725d-7320-415d-80f7-004da920fc11
name: rule_a
status: test
logsource:
    category: process_creation
    product: windows
detection:
    sel1:
        fieldA: value1
        fieldC: value3
    sel2:
        fieldB: value2
    condition:
        - sel1
        - sel2
        - sel1 and not sel2
---
title: Rule B
id: 0e95725d-7320-415d-80f7-004da920fc12
name: rule_b
status: test
logsource:
    category: network_connection
    product: linux
detection:
    sel:
        fieldC|contains: foo
    condition: sel
"""

CORRELATION = """
---
title: Correlation
id: 0e95725d-7320-415d-80f7-004da920fc21
name: corr_ab
status: test
correlation:
    type: event_count
    rules:
        - rule_a
        - rule_b
    group-by:
        - fieldC
    timespan: 15m
    condition:
        gte: 10
"""

CORRELATION_GENERATE = CORRELATION.replace(
    "    type: event_count\n", "    type: event_count\n    generate: true\n"
)

CORRELATION_CHAIN = (
    CORRELATION
    + """
---
title: Outer correlation
id: 0e95725d-7320-415d-80f7-004da920fc22
status: test
correlation:
    type: temporal
    rules:
        - corr_ab
        - rule_b
    group-by:
        - fieldC
    timespan: 1h
"""
)


def mk(tag, priority=0, cond=False, nested=False, finalizer=True, vars=None):
    """Build a pipeline with one item of each stage, everything tagged with *tag*."""
    item_kwargs = dict(identifier=f"{tag}_pre")
    if cond:
        item_kwargs["rule_conditions"] = [LogsourceCondition(product="windows")]
    items = [
        ProcessingItem(AddFieldnameSuffixTransformation(f"_{tag}"), **item_kwargs),
        ProcessingItem(SetStateTransformation("index", f"idx_{tag}"), identifier=f"{tag}_state"),
    ]
    embed = QueryPostprocessingItem(
        EmbedQueryTransformation(prefix=f"<{tag}:", suffix=f":{tag}>"), identifier=f"{tag}_post"
    )
    if nested:
        post = [
            QueryPostprocessingItem(
                NestedQueryPostprocessingTransformation(
                    items=[
                        embed,
                        QueryPostprocessingItem(
                            EmbedQueryTransformation(prefix="(", suffix=")"),
                            rule_conditions=[LogsourceCondition(product="linux")],
                            identifier=f"{tag}_post_linux",
                        ),
                    ]
                ),
                identifier=f"{tag}_nest",
            )
        ]
    else:
        post = [embed]
    fins = []
    if finalizer:
        fin = ConcatenateQueriesFinalizer(separator=f" |{tag}| ", prefix=f"{tag}[", suffix=f"]{tag}")
        fins = [NestedFinalizer(finalizers=[fin])] if nested else [fin]
    return ProcessingPipeline(
        items=items,
        postprocessing_items=post,
        finalizers=fins,
        vars=vars if vars is not None else {"who": tag, tag: priority},
        priority=priority,
        name=f"pipe_{tag}",
    )


def show(label, backend, rules_yaml, output_format=None, callback=None):
    collection = SigmaCollection.from_yaml(rules_yaml)
    try:
        out = backend.convert(collection, output_format, callback=callback)
    except Exception as e:
        print(f"{label}: EXC {type(e).__name__}: {e}")
        return
    print(f"{label}: out={out!r}")
    pl = backend.last_processing_pipeline
    print(f"{label}: applied={pl.applied} applied_ids={sorted(pl.applied_ids)}")
    print(f"{label}: vars={sorted((k, repr(v)) for k, v in pl.vars.items())}")
    print(f"{label}: format={backend.last_processing_pipeline_format!r}")
    for rule in collection.rules:
        result = rule.get_conversion_result() if rule._conversion_result is not None else None
        states = (
            [s.processing_state for s in rule.get_conversion_states()]
            if rule._conversion_states is not None
            else None
        )
        print(f"{label}:   rule {rule.title!r} output={rule._output} result={result!r}")
        print(f"{label}:   rule {rule.title!r} states={states!r}")
    print(f"{label}: errors={[(r.title, type(e).__name__, str(e)) for r, e in backend.errors]}")


def main():
    # 1. single user pipelines, every output format of the backend, None included
    for fmt in (None, "default", "test", "state", "list_of_dict", "str", "bytes"):
        show(f"fmt[{fmt}]", TextQueryTestBackend(mk("u", cond=True)), RULES, fmt)

    # 2. no user pipeline at all / empty pipeline
    show("nopipe", TextQueryTestBackend(), RULES)
    show("emptypipe", TextQueryTestBackend(ProcessingPipeline()), RULES, "test")

    # 3. composition: all bracketings of a + b + c and the identity give the same conversions
    def three():
        return mk("a", 10), mk("b", 20, cond=True, nested=True), mk("c", 20, finalizer=False)

    a, b, c = three()
    show("(a+b)+c", TextQueryTestBackend((a + b) + c), RULES, "test")
    a, b, c = three()
    show("a+(b+c)", TextQueryTestBackend(a + (b + c)), RULES, "test")
    a, b, c = three()
    show("sum", TextQueryTestBackend(sum([ProcessingPipeline(), a, b, c, ProcessingPipeline()])), RULES, "test")
    a, b, c = three()
    show("a+None+b", TextQueryTestBackend(a + None + b), RULES, "state")

    # 4. resolver: all permutations of the argument list give the same combined pipeline
    for perm in itertools.permutations(["pipe_a", "pipe_b", "pipe_c"]):
        a, b, c = three()
        resolver = ProcessingPipelineResolver({p.name: p for p in (a, b, c)})
        resolved = resolver.resolve(list(perm))
        show("resolve" + str(list(perm)), TextQueryTestBackend(resolved), RULES, "str")

    # 5. the same backend object converting twice and switching formats in between
    a, b, c = three()
    backend = TextQueryTestBackend(a + b + c)
    show("reuse1", backend, RULES, "test")
    show("reuse2", backend, RULES)
    show("reuse3", backend, RULES + CORRELATION, "state")

    # 6. callback sees every condition, may drop and rewrite results
    def callback(rule, output_format, index, cond, result):
        print(f"    callback({rule.title!r}, {output_format!r}, {index}, {result!r})")
        if index == 1:
            return None
        return f"{{{result}}}"

    show("callback", TextQueryTestBackend(mk("u", nested=True)), RULES + CORRELATION, "test", callback)

    # 7. correlation rules: raw embedding, generate: true, chained correlations,
    #    and a backend that finalizes the sub-queries
    class FinalizingSubqueriesBackend(TextQueryTestBackend):
        finalize_correlation_subqueries = True

    for name, rules_yaml in (
        ("corr", RULES + CORRELATION),
        ("corrgen", RULES + CORRELATION_GENERATE),
        ("corrchain", RULES + CORRELATION_CHAIN),
    ):
        for cls in (TextQueryTestBackend, FinalizingSubqueriesBackend):
            for fmt in (None, "test", "state"):
                show(f"{name}/{cls.__name__}/{fmt}", cls(mk("u", cond=True, nested=True)), rules_yaml, fmt)

    # 8. failures: unknown output format, error collection, unsupported correlation method
    show("badformat", TextQueryTestBackend(mk("u")), RULES, "nonexistent")
    show("badformat-collect", TextQueryTestBackend(mk("u"), collect_errors=True), RULES, "nonexistent")
    class FailingBackend(TextQueryTestBackend):
        def convert_condition_field_eq_val_cidr(self, cond, state):
            raise NotImplementedError("CIDR matching is not available here")

        def finalize_query_test(self, rule, query, index, state):
            if index == 2:
                raise ValueError("cannot finalize the third query")
            return super().finalize_query_test(rule, query, index, state)

    fail_pipeline = lambda: mk("u") + ProcessingPipeline(
        [
            ProcessingItem(
                RuleFailureTransformation("linux rules are rejected"),
                rule_conditions=[LogsourceCondition(product="linux")],
                identifier="reject_linux",
            )
        ]
    )
    bad_rule = (
        RULES
        + """
---
title: Rule with unsupported value
id: 0e95725d-7320-415d-80f7-004da920fc13
status: test
logsource:
    category: test
detection:
    sel:
        fieldA|cidr: 10.0.0.0/8
    condition: sel
"""
    )
    for collect in (False, True):
        for fmt in ("test", "str"):
            for rules_yaml, name in ((bad_rule, "bad_rule"), (RULES.split("---")[1], "rule_b")):
                show(
                    f"fail/{name}/collect={collect}/{fmt}",
                    FailingBackend(fail_pipeline(), collect_errors=collect),
                    rules_yaml,
                    fmt,
                )
    collection = SigmaCollection.from_yaml(RULES + CORRELATION)
    backend = TextQueryTestBackend(mk("u"), collect_errors=True)
    try:
        print("badmethod:", backend.convert(collection, "test", "no_such_method"))
    except SigmaError as e:
        print(f"badmethod: EXC {type(e).__name__}: {e}")
    print("badmethod errors:", [(r.title, type(e).__name__, str(e)) for r, e in backend.errors])

    # 9. convert_rule / convert_correlation_rule called directly, without convert()
    collection = SigmaCollection.from_yaml(RULES + CORRELATION_GENERATE)
    collection.resolve_rule_references()
    backend = TextQueryTestBackend(mk("u", nested=True))
    for rule in collection.rules:
        if hasattr(rule, "detection"):
            print("direct:", rule.title, backend.convert_rule(rule, "test"))
        else:
            print("direct:", rule.title, backend.convert_correlation_rule(rule, "test"))
        print("direct:   result", rule.get_conversion_result(), sorted(backend.last_processing_pipeline.applied_ids))
    print("direct: finalize", repr(backend.finalize(["q1", "q2"], "test")))


if __name__ == "__main__":
    main()
