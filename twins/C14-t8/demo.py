"""Demo for property C14: composition order of processing pipelines.

Prints everything it observes; the output must be identical before and after the refactoring.
"""

from collections import defaultdict
from dataclasses import dataclass
from itertools import permutations
from typing import Any

import sigma.types
from sigma.backends.test import TextQueryTestBackend
from sigma.collection import SigmaCollection
from sigma.exceptions import SigmaError
from sigma.processing.conditions import (
    LogsourceCondition,
    RuleProcessingItemAppliedCondition,
    RuleProcessingStateCondition,
)
from sigma.processing.finalization import (
    ConcatenateQueriesFinalizer,
    Finalizer,
    JSONFinalizer,
    NestedFinalizer,
)
from sigma.processing.pipeline import (
    ProcessingItem,
    ProcessingPipeline,
    QueryPostprocessingItem,
)
from sigma.processing.postprocessing import (
    EmbedQueryTransformation,
    NestedQueryPostprocessingTransformation,
    QueryPostprocessingTransformation,
    QuerySimpleTemplateTransformation,
)
from sigma.processing.resolver import ProcessingPipelineResolver
from sigma.processing.transformations import (
    AddFieldnamePrefixTransformation,
    AddFieldnameSuffixTransformation,
    FieldMappingTransformation,
    NestedProcessingTransformation,
    PreprocessingTransformation,
    RuleFailureTransformation,
    SetStateTransformation,
)
from sigma.rule import SigmaRule

print("module:", sigma.types.__file__)

LOG: list[str] = []


@dataclass
class LogTransformation(PreprocessingTransformation):
    tag: str = ""

    def apply(self, rule):
        super().apply(rule)
        pl = self._pipeline
        LOG.append(
            f"T:{self.tag} ids_so_far={sorted(pl.applied_ids)} n_applied={len(pl.applied)} "
            f"state={sorted(pl.state.items())}"
        )


@dataclass
class LogPostprocessing(QueryPostprocessingTransformation):
    tag: str = ""

    def apply(self, rule, query):
        super().apply(rule, query)
        LOG.append(f"P:{self.tag} in={query!r} ids_so_far={sorted(self._pipeline.applied_ids)}")
        return f"{query}<{self.tag}>"


@dataclass
class LogFinalizer(Finalizer):
    tag: str = ""

    def apply(self, queries):
        LOG.append(f"F:{self.tag} in={queries!r}")
        if isinstance(queries, list):
            return queries + [f"fin-{self.tag}"]
        return f"{queries}|fin-{self.tag}"


RULES = """
title: Rule one
id: 5013332f-8a70-4a04-bcc1-06a98a2cca2e
logsource:
    category: process_creation
    product: windows
detection:
    sel:
        fieldA: valueA
        fieldB: valueB
    other:
        fieldC: 3
    condition:
        - sel
        - sel and not other
---
title: Rule two
id: 5013332f-8a70-4a04-bcc1-06a98a2cca2f
logsource:
    category: network_connection
    product: linux
detection:
    sel:
        fieldC|contains: foo
        fieldA: null
    condition: sel
---
title: Rule three (one condition, list values)
logsource:
    product: windows
detection:
    sel:
        fieldB:
            - a
            - b*
    condition: 1 of sel*
"""


def rules() -> SigmaCollection:
    return SigmaCollection.from_yaml(RULES)


def pl_a() -> ProcessingPipeline:
    return ProcessingPipeline(
        name="a",
        priority=10,
        items=[
            ProcessingItem(AddFieldnamePrefixTransformation("a_"), identifier="a_prefix"),
            ProcessingItem(
                SetStateTransformation("seen", "a"),
                rule_conditions=[LogsourceCondition(product="windows")],
                identifier="a_state_win",
            ),
            ProcessingItem(LogTransformation("a-noid")),
        ],
        postprocessing_items=[
            QueryPostprocessingItem(EmbedQueryTransformation("[a:", "]"), identifier="a_embed"),
        ],
        finalizers=[LogFinalizer("a")],
        vars={"shared": "from-a", "only_a": 1},
    )


def pl_b() -> ProcessingPipeline:
    return ProcessingPipeline(
        name="b",
        priority=10,
        items=[
            ProcessingItem(
                AddFieldnameSuffixTransformation("_b"),
                rule_condition_linking=any,
                rule_conditions=[RuleProcessingItemAppliedCondition("a_state_win")],
                identifier="b_suffix_if_a",
            ),
            ProcessingItem(
                SetStateTransformation("seen", "b"),
                rule_condition_negation=True,
                rule_conditions=[RuleProcessingStateCondition("seen", "a")],
                identifier="b_state_unless_a",
            ),
            ProcessingItem(LogTransformation("b"), identifier="b_log"),
        ],
        postprocessing_items=[
            QueryPostprocessingItem(
                LogPostprocessing("b"),
                rule_conditions=[LogsourceCondition(product="linux")],
                identifier="b_post_linux",
            ),
            QueryPostprocessingItem(EmbedQueryTransformation("{b:", "}")),
        ],
        finalizers=[],
        vars={"shared": "from-b", "only_b": [2]},
    )


def pl_c() -> ProcessingPipeline:
    return ProcessingPipeline(
        name="c",
        priority=-5,
        items=[
            ProcessingItem(
                FieldMappingTransformation({"fieldA": "cA", "a_fieldA": "cA2", "fieldC": ["c1", "c2"]}),
                identifier="c_map",
            ),
            ProcessingItem(
                NestedProcessingTransformation(
                    items=[
                        ProcessingItem(LogTransformation("c-nested-1"), identifier="c_n1"),
                        ProcessingItem(
                            LogTransformation("c-nested-2"),
                            rule_conditions=[LogsourceCondition(product="linux")],
                            identifier="c_n2",
                        ),
                    ]
                ),
                identifier="c_nest",
            ),
        ],
        postprocessing_items=[
            QueryPostprocessingItem(
                NestedQueryPostprocessingTransformation(
                    items=[
                        QueryPostprocessingItem(LogPostprocessing("c-n1"), identifier="c_pn1"),
                        QueryPostprocessingItem(
                            LogPostprocessing("c-n2"),
                            rule_conditions=[LogsourceCondition(product="windows")],
                            identifier="c_pn2",
                        ),
                    ]
                ),
                identifier="c_pnest",
            ),
            QueryPostprocessingItem(
                QuerySimpleTemplateTransformation("{rule.title} :: {query} :: {pipeline.vars[shared]}"),
                identifier="c_tmpl",
            ),
        ],
        finalizers=[
            NestedFinalizer(finalizers=[LogFinalizer("c-n1"), LogFinalizer("c-n2")]),
            ConcatenateQueriesFinalizer(separator=" ## ", prefix="<<", suffix=">>"),
        ],
        vars={"shared": "from-c"},
    )


def pl_d() -> ProcessingPipeline:
    return ProcessingPipeline(
        name="d",
        priority=10,
        items=[ProcessingItem(LogTransformation("d"), identifier="a_prefix")],  # duplicate id
        finalizers=[LogFinalizer("d")],
        vars={"only_a": "d-overrides"},
    )


def pl_e() -> ProcessingPipeline:
    return ProcessingPipeline(name="e", priority=0)


FACTORIES = {"a": pl_a, "b": pl_b, "c": pl_c, "d": pl_d, "e": pl_e}


def describe(p: ProcessingPipeline) -> str:
    return (
        f"items={[i.identifier for i in p.items]} "
        f"post={[i.identifier for i in p.postprocessing_items]} "
        f"fin={[type(f).__name__ + ':' + getattr(f, 'tag', '') for f in p.finalizers]} "
        f"vars={sorted(p.vars.items(), key=lambda kv: kv[0])} prio={p.priority} name={p.name}"
    )


def owned(p: ProcessingPipeline) -> bool:
    objs: list[Any] = []
    for i in p.items + p.postprocessing_items:
        objs.append(i)
        objs.append(i.transformation)
        rc = i.rule_conditions
        objs.extend(rc.values() if isinstance(rc, dict) else rc)
    objs.extend(p.finalizers)
    return all(o._pipeline is p for o in objs)


def convert_with(p, fmt=None, collect=False):
    del LOG[:]
    backend = TextQueryTestBackend(p, collect_errors=collect)
    try:
        out = backend.convert(rules(), fmt)
    except Exception as e:
        out = f"EXC {type(e).__name__}: {e}"
    last = backend.last_processing_pipeline
    print("   output:", repr(out))
    print("   applied:", last.applied, "ids:", sorted(last.applied_ids))
    print("   state:", sorted(last.state.items()), "errors:", [(r.title, str(e)) for r, e in backend.errors])
    print("   vars:", sorted((k, repr(v)) for k, v in last.vars.items()))
    for line in LOG:
        print("   log:", line)
    return out


print("== 1. bracketings of + ==")
bracketings = {
    "(a+b)+c": lambda: (pl_a() + pl_b()) + pl_c(),
    "a+(b+c)": lambda: pl_a() + (pl_b() + pl_c()),
    "sum": lambda: sum([pl_a(), pl_b(), pl_c()]),
    "e+a+b+c+e": lambda: ProcessingPipeline() + pl_a() + pl_b() + pl_c() + ProcessingPipeline(),
    "a+None+b+c": lambda: pl_a() + None + pl_b() + pl_c(),
    "0+a+b+c": lambda: 0 + pl_a() + pl_b() + pl_c(),
    "c+b+a": lambda: pl_c() + pl_b() + pl_a(),
    "a+d": lambda: pl_a() + pl_d(),
    "d+a": lambda: pl_d() + pl_a(),
}
outs = {}
for name, mk in bracketings.items():
    p = mk()
    print(" *", name, describe(p), "owned:", owned(p))
    outs[name] = convert_with(p)
print(" same output for a,b,c bracketings:",
      len({repr(outs[k]) for k in ["(a+b)+c", "a+(b+c)", "sum", "e+a+b+c+e", "a+None+b+c", "0+a+b+c"]}) == 1)

print("== 2. identity / operand ownership ==")
a = pl_a()
print(" a + None is a:", (a + None) is a, " 0 + a is a:", (0 + a) is a)
b = pl_b()
ab = a + b
print(" owned(ab):", owned(ab), "a items now owned by ab:", all(i._pipeline is ab for i in a.items),
      "a finalizers owned by ab:", all(f._pipeline is ab for f in a.finalizers))
print(" ab == fresh a+b:", ab == pl_a() + pl_b(), " priority/name of sum:", ab.priority, ab.name)
for label, thunk in {
    "a + 5": lambda: pl_a() + 5,
    "5 + a": lambda: 5 + pl_a(),
    "a + 'x'": lambda: pl_a() + "x",
    "a + a (same object)": lambda: (lambda p: p + p)(pl_a()),
    "reuse item": lambda: (lambda p: ProcessingPipeline(items=[p.items[0]]))(pl_a()),
    "reuse postprocessing item": lambda: (lambda p: ProcessingPipeline(postprocessing_items=p.postprocessing_items))(pl_a()),
    "reuse finalizer": lambda: (lambda p: ProcessingPipeline(finalizers=p.finalizers))(pl_a()),
    "bare transformation": lambda: ProcessingPipeline(items=[SetStateTransformation("k", "v")]),
}.items():
    try:
        r = thunk()
        print(f" {label}: ok {describe(r)} owned={owned(r)}")
    except Exception as e:
        print(f" {label}: {type(e).__name__}: {e}")

print("== 3. composed vs sequential application ==")
for ri, rule in enumerate(rules().rules):
    seq_rule = rules().rules[ri]
    seq_applied, seq_ids = [], set()
    for mk in (pl_c, pl_a, pl_b):
        p = mk()
        p.apply(seq_rule)
        seq_applied += p.applied
        seq_ids |= p.applied_ids
    comp = pl_c() + pl_a() + pl_b()
    comp.apply(rule)
    print(f" rule {ri}: composed applied={comp.applied} ids={sorted(comp.applied_ids)}")
    print(f"          sequential applied={seq_applied} ids={sorted(seq_ids)}")
    print("          detections:", [str(d) for d in rule.detection.detections.values()] ==
          [str(d) for d in seq_rule.detection.detections.values()],
          sorted((k, sorted(v)) for k, v in comp.field_mappings.items()))

print("== 4. direct item application ==")
rule0 = rules().rules[0]
rule1 = rules().rules[1]
p = pl_b() + pl_c()
p.apply(rule0)
for item in p.items:
    for r in (rule0, rule1):
        res = item.apply(r)
        print(f" item {item.identifier}: {res!r} ({type(res).__name__})")
for item in p.postprocessing_items:
    for r in (rule0, rule1):
        res = item.apply(r, "Q")
        print(f" post {item.identifier}: {res!r} ({type(res).__name__})")
print(" postprocess_query:", repr(p.postprocess_query(rule1, "Q")), sorted(p.applied_ids))
print(" finalize list:", repr(p.finalize(["q1", "q2"])))
print(" finalize empty pipeline:", repr(ProcessingPipeline().finalize(["q1"])),
      repr(ProcessingPipeline().postprocess_query(rule0, 42)))
try:
    item = ProcessingItem(SetStateTransformation("k", "v"), rule_conditions=[LogsourceCondition(product="x")])
    item.rule_condition_linking = None
    item.apply(rule0)
except Exception as e:
    print(" no linking:", type(e).__name__, e)
try:
    QueryPostprocessingItem(EmbedQueryTransformation("a", "b")).apply(rule0, 5)
except Exception as e:
    print(" embed non-str:", type(e).__name__, e)

print("== 5. resolver permutations ==")
names = ["a", "b", "c", "d", "e"]
for n in (1, 2, 3, 5):
    subset = names[:n]
    descs, results = set(), set()
    for perm in permutations(subset):
        resolver = ProcessingPipelineResolver({k: FACTORIES[k] for k in subset})
        resolved = resolver.resolve(list(perm))
        descs.add(describe(resolved))
        del LOG[:]
        out = TextQueryTestBackend(resolved).convert(rules())
        results.add(repr(out) + "\n".join(LOG))
    print(f" n={n}: distinct pipelines={len(descs)} distinct results={len(results)}")
    for d in sorted(descs):
        print("   ", d)
    for r in sorted(results):
        print("   ", r.replace("\n", "\n      "))

print(" -- same objects resolved repeatedly")
objs = [pl_a(), pl_b(), pl_c()]
resolver = ProcessingPipelineResolver.from_pipeline_list(objs)
for spec in (["a", "b", "c"], ["c", "b", "a"], ["b", "b", "a"], [], ["c"]):
    try:
        r = resolver.resolve(spec)
        print(" ", spec, describe(r), "owned:", owned(r))
        convert_with(r)
    except Exception as e:
        print(" ", spec, type(e).__name__, e)
try:
    resolver.resolve(["a", "missing"])
except Exception as e:
    print(" missing:", type(e).__name__, e)

print("== 6. backend / user / output-format order ==")


class OrderBackend(TextQueryTestBackend):
    name = "order backend"
    formats = {"default": "Default", "test": "Test", "str": "String"}
    backend_processing_pipeline = ProcessingPipeline(
        items=[ProcessingItem(LogTransformation("backend"), identifier="be_item")],
        postprocessing_items=[QueryPostprocessingItem(LogPostprocessing("backend"), identifier="be_post")],
        finalizers=[LogFinalizer("backend")],
        vars={"who": "backend", "be": True},
    )
    output_format_processing_pipeline = defaultdict(
        ProcessingPipeline,
        test=ProcessingPipeline(
            items=[ProcessingItem(LogTransformation("format"), identifier="fmt_item")],
            postprocessing_items=[QueryPostprocessingItem(LogPostprocessing("format"), identifier="fmt_post")],
            finalizers=[LogFinalizer("format"), JSONFinalizer()],
            vars={"who": "format"},
        ),
    )

    def finalize_query_test(self, rule, query, index, state):
        LOG.append(f"B:finalize_query_test index={index} query={query!r}")
        return f"T({query})"

    def finalize_output_test(self, queries):
        LOG.append(f"B:finalize_output_test {queries!r}")
        return list(queries)

    def finalize_query_str(self, rule, query, index, state):
        return query

    def finalize_output_str(self, queries):
        return "\n".join(queries)


def user_pipeline() -> ProcessingPipeline:
    return ProcessingPipeline(
        items=[
            ProcessingItem(LogTransformation("user"), identifier="user_item"),
            ProcessingItem(
                RuleFailureTransformation("user says no"),
                rule_conditions=[LogsourceCondition(category="network_connection")],
                identifier="user_fail",
            ),
        ],
        postprocessing_items=[QueryPostprocessingItem(LogPostprocessing("user"), identifier="user_post")],
        finalizers=[LogFinalizer("user")],
        vars={"who": "user", "usr": 1},
    )


for fmt, collect, user in (
    ("test", True, user_pipeline),
    ("default", True, user_pipeline),
    (None, False, user_pipeline),
    ("str", True, lambda: None),
    ("test", True, lambda: None),
    ("nonexistent", True, user_pipeline),
):
    del LOG[:]
    backend = OrderBackend(user(), collect_errors=collect, opt="x")
    try:
        out = backend.convert(rules(), fmt)
    except Exception as e:
        out = f"EXC {type(e).__name__}: {e}"
    print(f" format={fmt} collect={collect} user={'yes' if backend.processing_pipeline else 'no'}")
    print("   output:", repr(out))
    last = getattr(backend, "last_processing_pipeline", None)
    if last is not None:
        print("   pipeline:", describe(last), "owned:", owned(last))
        print("   applied:", last.applied, sorted(last.applied_ids))
    print("   errors:", [(r.title, type(e).__name__, str(e)) for r, e in backend.errors])
    for line in LOG:
        print("   log:", line)

print("done")
