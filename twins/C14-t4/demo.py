"""
Demo for C14 / t4: ownership back-pointers of processing items, transformations and conditions
(set_pipeline/_clear_pipeline of ProcessingItemBase and ProcessingItem) and their effect on the
composition of pipelines with '+', sum() and the resolver.

Prints only deterministic values; the output must be identical with and without the patch.
"""

import itertools
import sys

from sigma.backends.test import TextQueryTestBackend
from sigma.collection import SigmaCollection
from sigma.exceptions import SigmaError
from sigma.processing.conditions import (
    DetectionItemProcessingStateCondition,
    ExcludeFieldCondition,
    FieldNameProcessingStateCondition,
    IncludeFieldCondition,
    LogsourceCondition,
    MatchStringCondition,
    RuleProcessingItemAppliedCondition,
    RuleProcessingStateCondition,
)
from sigma.processing.condition_expressions import parse_condition_expression
from sigma.processing.finalization import ConcatenateQueriesFinalizer
from sigma.processing.pipeline import (
    ProcessingItem,
    ProcessingPipeline,
    QueryPostprocessingItem,
)
from sigma.processing.postprocessing import EmbedQueryTransformation
from sigma.processing.resolver import ProcessingPipelineResolver
from sigma.processing.transformations import (
    AddFieldnamePrefixTransformation,
    AddFieldnameSuffixTransformation,
    FieldMappingTransformation,
    SetStateTransformation,
)

RULES = """
title: Rule 1
id: 11111111-1111-1111-1111-111111111111
status: test
logsource:
    category: process_creation
    product: windows
detection:
    sel:
        fieldA: valueA
        fieldB|contains: foo
        other: 123
    filter:
        fieldC: null
    condition: sel and not filter
---
title: Rule 2
id: 22222222-2222-2222-2222-222222222222
status: test
logsource:
    product: linux
detection:
    a:
        fieldA:
            - x
            - y*
    b:
        fieldB|re: 'a.*b'
    condition:
        - a
        - a or b
"""


def names(pipeline_of, objs):
    """Describe the owner of each object with the label of the owning pipeline."""
    return [pipeline_of(getattr(o, "_pipeline")) for o in objs]


def conds(c):
    return list(c.values()) if isinstance(c, dict) else list(c)


def make_pipelines():
    """Five pipelines with list and dict (expression) conditions of all three kinds."""
    p1 = ProcessingPipeline(
        items=[
            ProcessingItem(
                SetStateTransformation("idx", "win"),
                rule_conditions=[LogsourceCondition(product="windows")],
                identifier="p1_state",
            ),
            ProcessingItem(
                FieldMappingTransformation({"fieldB": "mappedB"}),
                identifier="p1_map",
            ),
        ],
        vars={"v": "p1", "only1": 1},
        priority=20,
        name="p1",
    )
    p2 = ProcessingPipeline(
        items=[
            ProcessingItem(
                AddFieldnamePrefixTransformation("win."),
                rule_conditions={
                    "st": RuleProcessingStateCondition("idx", "win"),
                    "ls": LogsourceCondition(category="process_creation"),
                },
                rule_condition_expression=parse_condition_expression("st and ls"),
                field_name_conditions=[ExcludeFieldCondition(["other"])],
                identifier="p2_prefix",
            ),
        ],
        postprocessing_items=[
            QueryPostprocessingItem(
                EmbedQueryTransformation(prefix="[", suffix="]"),
                rule_conditions=[RuleProcessingItemAppliedCondition("p2_prefix")],
                identifier="p2_embed",
            )
        ],
        vars={"v": "p2"},
        priority=10,
        name="p2",
    )
    p3 = ProcessingPipeline(
        items=[
            ProcessingItem(
                AddFieldnameSuffixTransformation(".s"),
                detection_item_conditions={
                    "m": MatchStringCondition(cond="any", pattern="^x$"),
                    "s": DetectionItemProcessingStateCondition("idx", "win", "ne"),
                },
                detection_item_condition_expression=parse_condition_expression("m or s"),
                field_name_conditions={
                    "i": IncludeFieldCondition(["fieldA", "win.mappedA"]),
                    "f": FieldNameProcessingStateCondition("idx", "win"),
                },
                field_name_condition_expression=parse_condition_expression("i or f"),
                identifier="p3_suffix",
            ),
        ],
        postprocessing_items=[
            QueryPostprocessingItem(
                EmbedQueryTransformation(prefix="<", suffix=">"),
                rule_conditions={
                    "lin": LogsourceCondition(product="linux"),
                    "st": RuleProcessingStateCondition("idx", "win"),
                },
                rule_condition_expression=parse_condition_expression("lin or st"),
                identifier="p3_embed",
            )
        ],
        finalizers=[ConcatenateQueriesFinalizer(separator=" ;; ", prefix="BEGIN ", suffix=" END")],
        vars={"v": "p3", "only3": 3},
        priority=10,
        name="p3",
    )
    p4 = ProcessingPipeline(priority=5, name="p4", vars={"v": "p4"})
    p5 = ProcessingPipeline(
        items=[
            ProcessingItem(
                FieldMappingTransformation({"other": "else"}),
                detection_item_conditions=[MatchStringCondition(cond="all", pattern="1")],
                field_name_conditions=[IncludeFieldCondition(["other"])],
                rule_condition_linking=any,
                rule_conditions=[
                    LogsourceCondition(product="linux"),
                    LogsourceCondition(product="windows"),
                ],
                identifier="p5_map",
            )
        ],
        priority=10,
        name="p5",
    )
    return [p1, p2, p3, p4, p5]


def all_parts(pipeline):
    """All objects that carry a back-pointer in stage and position order."""
    parts = []
    for item in pipeline.items:
        parts.append(("item", item))
        parts.append(("transformation", item.transformation))
        for c in conds(item.rule_conditions):
            parts.append(("rule_cond", c))
        for c in conds(item.detection_item_conditions):
            parts.append(("di_cond", c))
        for c in conds(item.field_name_conditions):
            parts.append(("fn_cond", c))
    for item in pipeline.postprocessing_items:
        parts.append(("pp_item", item))
        parts.append(("pp_transformation", item.transformation))
        for c in conds(item.rule_conditions):
            parts.append(("pp_rule_cond", c))
    for f in pipeline.finalizers:
        parts.append(("finalizer", f))
    return parts


def owner_report(title, pipelines, labels):
    def label(p):
        if p is None:
            return None
        for lab, q in labels.items():
            if q is p:
                return lab
        return "<other>"

    print(f"--- owners: {title}")
    for lab, p in pipelines.items():
        print(
            f"  {lab}: "
            + ", ".join(f"{kind}->{label(o._pipeline)}" for kind, o in all_parts(p))
        )


def convert(pipeline, fmt="default"):
    backend = TextQueryTestBackend(pipeline)
    res = backend.convert(SigmaCollection.from_yaml(RULES), fmt)
    lp = backend.last_processing_pipeline
    return res, list(lp.applied), sorted(lp.applied_ids), dict(lp.vars)


def main():
    # 1. Owners after construction
    ps = make_pipelines()
    labels = {p.name: p for p in ps}
    owner_report("fresh", labels, labels)

    # 2. Setting the pipeline twice fails with the same message, at the same point; everything
    # that was set before stays as it was.
    for kind, obj in [("item", ps[1].items[0]), ("pp_item", ps[2].postprocessing_items[0])]:
        try:
            obj.set_pipeline(ps[3])
        except SigmaError as e:
            print("double set:", kind, type(e).__name__, str(e))
    owner_report("after failed double set", labels, labels)

    # 3. Clearing an item only and re-owning it: the transformation and all conditions follow.
    it = ps[2].items[0]
    it._clear_pipeline()
    owner_report("after clear of p3 item", {"p3": ps[2]}, labels)
    it.set_pipeline(ps[3])
    owner_report("p3 item owned by p4", {"p3": ps[2]}, labels)
    # partially set conditions: item cleared, but one field name condition keeps an owner -> error
    # after the detection item conditions were set.
    it._clear_pipeline()
    conds(it.field_name_conditions)[1].set_pipeline(ps[0])
    try:
        it.set_pipeline(ps[2])
    except SigmaError as e:
        print("partial set:", type(e).__name__, str(e))
    owner_report("after partial set", {"p3": ps[2]}, labels)
    # the same for a rule condition of a post-processing item
    ppi = ps[2].postprocessing_items[0]
    ppi._clear_pipeline()
    conds(ppi.rule_conditions)[1].set_pipeline(ps[0])
    try:
        ppi.set_pipeline(ps[2])
    except SigmaError as e:
        print("partial set pp:", type(e).__name__, str(e))
    owner_report("after partial set pp", {"p3": ps[2]}, labels)

    # 4. Conditions given as something that is neither list nor dict after construction (tuple)
    odd = ProcessingItem(FieldMappingTransformation({"a": "b"}), identifier="odd")
    c_rule, c_di, c_fn = (
        LogsourceCondition(product="x"),
        MatchStringCondition(cond="any", pattern="x"),
        IncludeFieldCondition(["a"]),
    )
    odd.rule_conditions = (c_rule,)
    odd.detection_item_conditions = (c_di,)
    odd.field_name_conditions = (c_fn,)
    odd.set_pipeline(ps[3])
    print(
        "tuple conditions set:",
        [c._pipeline is ps[3] for c in (c_rule, c_di, c_fn)],
        odd._pipeline is ps[3],
        odd.transformation._pipeline is ps[3],
    )
    odd._clear_pipeline()
    print(
        "tuple conditions cleared:",
        [c._pipeline is None for c in (c_rule, c_di, c_fn)],
        odd._pipeline is None,
        odd.transformation._pipeline is None,
    )

    # 5. Composition: all bracketings of '+' over p1..p5 in the priority order and in the given
    # order, sum(), and the resolver for all permutations; conversion results and tracking.
    def fresh():
        return make_pipelines()

    def bracketings(seq):
        if len(seq) == 1:
            yield seq[0], seq[0]
            return
        for i in range(1, len(seq)):
            for (ld, _), (rd, _) in itertools.product(
                bracketings(seq[:i]), bracketings(seq[i:])
            ):
                yield f"({ld}+{rd})", None

    def build(desc, env):
        # evaluate the bracketing description with fresh pipeline objects
        return eval(desc, {}, env)

    order = ["p1", "p2", "p3", "p4", "p5"]
    results = {}
    descs = [d for d, _ in bracketings(order)]
    print("bracketings:", len(descs))
    for desc in descs:
        env = {p.name: p for p in fresh()}
        combined = build(desc, env)
        # every part of the sum points to the sum
        assert all(o._pipeline is combined for _, o in all_parts(combined)), desc
        results[desc] = convert(combined)
    distinct = {repr(v) for v in results.values()}
    print("distinct results over bracketings:", len(distinct))
    print("result:", results[descs[0]])

    # identity and sum()
    env = {p.name: p for p in fresh()}
    s = sum([env[n] for n in order])
    print("sum == bracketing:", repr(convert(s)) == repr(results[descs[0]]))
    env = {p.name: p for p in fresh()}
    s = ProcessingPipeline() + env["p1"] + None + env["p2"] + ProcessingPipeline() + env["p3"]
    s = s + env["p4"] + env["p5"] + ProcessingPipeline()
    print("identity:", repr(convert(s)) == repr(results[descs[0]]))
    owner_report("operands after +", env, {"sum": s, **env})

    # resolver: all permutations, same objects resolved more than once
    env = {p.name: p for p in fresh()}
    resolver = ProcessingPipelineResolver.from_pipeline_list(env.values())
    seen = set()
    for perm in itertools.permutations(order):
        combined = resolver.resolve(list(perm))
        assert all(o._pipeline is combined for _, o in all_parts(combined)), perm
        seen.add(repr(convert(combined)))
    print("distinct results over permutations:", len(seen))
    print("resolver result:", sorted(seen)[0])
    combined = resolver.resolve(["p3", "p1"])
    print("resolver subset:", convert(combined, "test"))
    combined = resolver.resolve(["p2"])
    print("resolver single:", convert(combined))

    # sequential application of p2 alone after p1 alone is not the same as p1+p2 (state is per
    # pipeline) - print both to pin down which pipeline the state conditions read.
    env = {p.name: p for p in fresh()}
    print("p2 alone:", convert(env["p2"]))
    env = {p.name: p for p in fresh()}
    print("p1+p2:", convert(env["p1"] + env["p2"]))
    env = {p.name: p for p in fresh()}
    print("p2+p1:", convert(env["p2"] + env["p1"]))
    return 0


if __name__ == "__main__":
    sys.exit(main())
