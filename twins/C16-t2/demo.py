"""Demo for property C16: a pipeline document cannot grant itself code execution, file or
network access.  Prints observed outcomes, audit events and capability flags for many pipeline
documents.  Output is deterministic so that it can be diffed between clean HEAD and a patch.

Run as: PYTHONPATH=/tmp/wt5-C16 /venv/bin/python demo.py
"""

import builtins
import copy
import os
import re
import shutil
import sys

import yaml

HERE = os.path.dirname(os.path.abspath(__file__))
SCRATCH = os.path.join(HERE, "scratch")
ALLOWED = os.path.join(SCRATCH, "allowed")
OUTSIDE = os.path.join(SCRATCH, "outside")
PREFIX = os.path.join(SCRATCH, "allowed_evil")
SOURCE_FILE = os.path.join(SCRATCH, "values.txt")
PIPELINE_FILE = os.path.join(ALLOWED, "pipeline.yml")  # only used as source_path, never read

builtins._c16_executed = []
EVENTS = []


def audit(event, args):
    if event == "subprocess.Popen":
        EVENTS.append("popen:" + repr(args[1]))
    elif event == "os.system":
        EVENTS.append("system")
    elif event in ("socket.connect", "socket.getaddrinfo"):
        EVENTS.append(event)
    elif event == "open":
        path = args[0]
        if isinstance(path, (str, bytes)):
            if isinstance(path, bytes):
                path = path.decode(errors="replace")
            if path.startswith(SCRATCH):
                EVENTS.append("open:" + os.path.relpath(path, SCRATCH))


sys.addaudithook(audit)


def setup_files():
    shutil.rmtree(SCRATCH, ignore_errors=True)
    for d in (ALLOWED, os.path.join(ALLOWED, "sub"), OUTSIDE, PREFIX):
        os.makedirs(d)
    body = (
        "import builtins\n"
        "builtins._c16_executed.append({name!r})\n"
        "def shout(s):\n    return str(s).upper()\n"
        "vars = {{'shout': shout, 'origin': {name!r}}}\n"
    )
    for path, name in (
        (os.path.join(ALLOWED, "vars_ok.py"), "inside"),
        (os.path.join(ALLOWED, "sub", "vars_sub.py"), "sub"),
        (os.path.join(OUTSIDE, "vars_out.py"), "outside"),
        (os.path.join(PREFIX, "vars_prefix.py"), "prefix"),
    ):
        with open(path, "w") as f:
            f.write(body.format(name=name))
    with open(os.path.join(ALLOWED, "no_vars.py"), "w") as f:
        f.write("import builtins\nbuiltins._c16_executed.append('no_vars')\nx = 1\n")
    with open(os.path.join(ALLOWED, "notpython.txt"), "w") as f:
        f.write("vars = {}\n")
    os.symlink(os.path.join(OUTSIDE, "vars_out.py"), os.path.join(ALLOWED, "link_out.py"))
    os.symlink(os.path.join(ALLOWED, "vars_ok.py"), os.path.join(OUTSIDE, "link_in.py"))
    os.symlink(OUTSIDE, os.path.join(ALLOWED, "dirlink_out"))
    with open(SOURCE_FILE, "w") as f:
        f.write("alpha\nbeta\n")


setup_files()
EVENTS.clear()

from sigma.backends.test import TextQueryTestBackend  # noqa: E402
from sigma.collection import SigmaCollection  # noqa: E402
from sigma.processing.finalization import NestedFinalizer, TemplateFinalizer  # noqa: E402
from sigma.processing.pipeline import (  # noqa: E402
    ProcessingItem,
    ProcessingPipeline,
    QueryPostprocessingItem,
)
from sigma.processing.postprocessing import QueryTemplateTransformation  # noqa: E402
from sigma.processing.templates import TemplateBase  # noqa: E402
from sigma.processing.transformations import (  # noqa: E402
    CommandPlaceholderTransformation,
    FilePlaceholderTransformation,
    HTTPPlaceholderTransformation,
    transformations,
)

RULE = """
title: Test
status: test
logsource:
    category: test
detection:
    sel:
        field|expand: "%ph%"
    condition: sel
"""
PLAIN_RULE = """
title: Plain
status: test
logsource:
    category: test
detection:
    sel:
        field: value
    condition: sel
"""

ENV_NAMES = ("PYSIGMA_ALLOW_EXTERNAL_SOURCES", "PYSIGMA_ALLOW_VARS_EXECUTION")
ENV_VALUES = (None, "0", "1", "true")
INJECT = {
    "allow_external_sources": True,
    "allow_template_vars": "yes",
    "vars_allowed_paths": ["/"],
}


def set_env(value):
    for name in ENV_NAMES:
        if value is None:
            os.environ.pop(name, None)
        else:
            os.environ[name] = value


def norm(s):
    s = re.sub(r"0x[0-9a-fA-F]+", "0xX", str(s))
    return s.replace(SCRATCH, "<S>")


def outcome(fn):
    """Run fn, return a one-line description of result or exception, plus events and executions."""
    EVENTS.clear()
    builtins._c16_executed.clear()
    try:
        res = fn()
        desc = "OK " + norm(repr(res))
    except BaseException as e:  # noqa: BLE001
        desc = "EXC " + type(e).__name__ + ": " + norm(e)
    return f"{desc} | events={EVENTS!r} executed={builtins._c16_executed!r}"


def flags_of(obj, depth=0):
    """Collect the capability flags of all items reachable from a pipeline."""
    out = []
    if isinstance(obj, ProcessingPipeline):
        for it in obj.items:
            out += flags_of(it.transformation, depth)
        for it in obj.postprocessing_items:
            out += flags_of(it.transformation, depth)
        for f in obj.finalizers:
            out += flags_of(f, depth)
        return out
    name = type(obj).__name__
    if hasattr(obj, "allow_external_sources"):
        out.append(f"{name}@{depth}:ext={obj.allow_external_sources!r}")
    if isinstance(obj, TemplateBase):
        out.append(
            f"{name}@{depth}:tv={obj.allow_template_vars!r},paths={norm(obj.vars_allowed_paths)}"
        )
    nested = getattr(obj, "_nested_pipeline", None)
    if nested is not None:
        out += flags_of(nested, depth + 1)
    return out


def inject(d):
    d = dict(d)
    d.update(copy.deepcopy(INJECT))
    return d


# ---------------------------------------------------------------------------------------------
# Document builders: opt-in keys are injected at every level.
# ---------------------------------------------------------------------------------------------
def ext_item(kind):
    if kind == "file":
        return inject({"type": "file_placeholders", "path": SOURCE_FILE, "id": "ext"})
    if kind == "http":
        return inject({"type": "http_placeholders", "url": "http://127.0.0.1:9/x", "timeout": 1})
    if kind == "command":
        return inject({"type": "command_placeholders", "cmd": "printf 'gamma\\ndelta\\n'"})
    raise ValueError(kind)


def nest_transformation(item, depth):
    for _ in range(depth):
        item = inject({"type": "nest", "items": [item]})
    return item


def template_pp_item(vars_path):
    return inject(
        {
            "type": "template",
            "template": "{{ shout(query) if shout is defined else query }}",
            "vars": vars_path,
        }
    )


def template_finalizer(vars_path):
    return inject(
        {
            "type": "template",
            "template": "{{ origin if origin is defined else 'novars' }}:{{ queries|join(';') }}",
            "vars": vars_path,
        }
    )


def nest_finalizer(fin, depth):
    for _ in range(depth):
        fin = inject({"type": "nested", "finalizers": [fin]})
    return fin


def build_doc(transformations_=(), postprocessing=(), finalizers_=()):
    d = {"name": "demo", "priority": 10}
    if transformations_:
        d["transformations"] = list(transformations_)
    if postprocessing:
        d["postprocessing"] = list(postprocessing)
    if finalizers_:
        d["finalizers"] = list(finalizers_)
    return d


def load_and_convert(doc, loader, rule, **kwargs):
    if loader == "dict":
        pipeline = ProcessingPipeline.from_dict(copy.deepcopy(doc), **kwargs)
    else:
        pipeline = ProcessingPipeline.from_yaml(yaml.safe_dump(doc), **kwargs)
    flags = flags_of(pipeline)
    try:
        backend = TextQueryTestBackend(pipeline)
        res = backend.convert(SigmaCollection.from_yaml(rule))
    finally:
        print("      flags:", flags)
    return res


# ---------------------------------------------------------------------------------------------
print("=== A. external source items: type x depth x opt-in arg x env x loader")
for kind in ("file", "http", "command"):
    for depth in (0, 1, 2, 3):
        doc = build_doc(transformations_=[nest_transformation(ext_item(kind), depth)])
        for optin in (False, True):
            for env in ENV_VALUES:
                for loader in ("dict", "yaml"):
                    set_env(env)
                    kwargs = {"allow_external_sources": True} if optin else {}
                    print(f"  A {kind} depth={depth} optin={optin} env={env} loader={loader}")
                    print(
                        "      ->",
                        outcome(lambda: load_and_convert(doc, loader, RULE, **kwargs)),
                    )
set_env(None)

print("=== A2. top-level document with smuggled opt-in keys is rejected / ignored")
for key, val in INJECT.items():
    doc = build_doc(transformations_=[ext_item("command")])
    doc[key] = val
    print(f"  A2 top-level key {key}")
    print("      ->", outcome(lambda: load_and_convert(doc, "dict", RULE)))
    print("      ->", outcome(lambda: load_and_convert(doc, "yaml", RULE)))

# ---------------------------------------------------------------------------------------------
VARS_PATHS = {
    "inside": os.path.join(ALLOWED, "vars_ok.py"),
    "sub": os.path.join(ALLOWED, "sub", "vars_sub.py"),
    "dotdot_inside": os.path.join(OUTSIDE, "..", "allowed", "vars_ok.py"),
    "outside": os.path.join(OUTSIDE, "vars_out.py"),
    "dotdot_outside": os.path.join(ALLOWED, "..", "outside", "vars_out.py"),
    "symlink_to_outside": os.path.join(ALLOWED, "link_out.py"),
    "dirlink_to_outside": os.path.join(ALLOWED, "dirlink_out", "vars_out.py"),
    "symlink_to_inside": os.path.join(OUTSIDE, "link_in.py"),
    "prefix_sharing": os.path.join(PREFIX, "vars_prefix.py"),
    "missing": os.path.join(ALLOWED, "does_not_exist.py"),
}
PATH_MODES = {
    "none": {},
    "caller_allowed": {"vars_allowed_paths": (ALLOWED,)},
    "caller_allowed_slash": {"vars_allowed_paths": (ALLOWED + os.sep,)},
    "caller_two": {"vars_allowed_paths": (os.path.join(SCRATCH, "nowhere"), ALLOWED)},
    "caller_empty": {"vars_allowed_paths": ()},
    "source_path": {"source_path": PIPELINE_FILE},
}

print("=== B. template items with vars: kind x depth x opt-in arg x env (vars file inside)")
for kind in ("postprocessing", "finalizer"):
    for depth in (0, 1, 2, 3):
        if kind == "postprocessing":
            doc = build_doc(
                postprocessing=[nest_transformation(template_pp_item(VARS_PATHS["inside"]), depth)]
            )
        else:
            doc = build_doc(
                finalizers_=[nest_finalizer(template_finalizer(VARS_PATHS["inside"]), depth)]
            )
        for optin in (False, True):
            for env in ENV_VALUES:
                for loader in ("dict", "yaml"):
                    set_env(env)
                    kwargs = {"allow_template_vars": True} if optin else {}
                    if loader == "yaml":
                        kwargs["source_path"] = PIPELINE_FILE
                    else:
                        kwargs["vars_allowed_paths"] = (ALLOWED,)
                    print(f"  B {kind} depth={depth} optin={optin} env={env} loader={loader}")
                    print(
                        "      ->",
                        outcome(lambda: load_and_convert(doc, loader, PLAIN_RULE, **kwargs)),
                    )
set_env(None)

print("=== C. vars path containment: path variant x allowed-dir mode x kind (opt-in on)")
for pname, vpath in VARS_PATHS.items():
    for mname, mkwargs in PATH_MODES.items():
        for kind, depth in (("postprocessing", 0), ("finalizer", 0), ("finalizer", 2)):
            if kind == "postprocessing":
                doc = build_doc(postprocessing=[template_pp_item(vpath)])
            else:
                doc = build_doc(finalizers_=[nest_finalizer(template_finalizer(vpath), depth)])
            kwargs = dict(mkwargs, allow_template_vars=True)
            if "source_path" in kwargs:
                loaders = ("yaml",)
            else:
                loaders = ("dict", "yaml")
            for loader in loaders:
                print(f"  C vars={pname} mode={mname} {kind} depth={depth} loader={loader}")
                print(
                    "      ->",
                    outcome(lambda: load_and_convert(doc, loader, PLAIN_RULE, **kwargs)),
                )

print("=== C2. vars path containment via environment opt-in only")
for env in ENV_VALUES + ("TRUE", "True", "yes", " 1", ""):
    set_env(env)
    for pname in ("inside", "outside", "symlink_to_outside", "prefix_sharing"):
        doc = build_doc(
            postprocessing=[template_pp_item(VARS_PATHS[pname])],
            finalizers_=[template_finalizer(VARS_PATHS[pname])],
        )
        print(f"  C2 env={env!r} vars={pname}")
        print(
            "      ->",
            outcome(
                lambda: load_and_convert(doc, "yaml", PLAIN_RULE, source_path=PIPELINE_FILE)
            ),
        )
set_env(None)

# ---------------------------------------------------------------------------------------------
print("=== D. direct use of TemplateBase._load_vars_from_file / gate (unusual inputs)")


def direct_template(vars_path, allowed, allow=True, cls=QueryTemplateTransformation):
    t = cls(
        template="{{ origin }}",
        vars=vars_path,
        allow_template_vars=allow,
        vars_allowed_paths=allowed,
    )
    return sorted(k for k in t.j2template.globals if k in ("shout", "origin"))


os.chdir(SCRATCH)
DIRECT = [
    ("abs inside, allowed exact file", VARS_PATHS["inside"], (VARS_PATHS["inside"],)),
    ("relative vars, relative allowed", "allowed/vars_ok.py", ("allowed",)),
    ("relative vars, allowed '.'", "allowed/vars_ok.py", (".",)),
    ("relative vars, allowed '..'", "outside/vars_out.py", ("..",)),
    ("allowed root", VARS_PATHS["outside"], ("/",)),
    ("allowed list instead of tuple", VARS_PATHS["inside"], [ALLOWED]),
    ("allowed via symlinked dir", VARS_PATHS["outside"], (os.path.join(ALLOWED, "dirlink_out"),)),
    ("allowed is string (iterated by char)", VARS_PATHS["inside"], ALLOWED),
    ("allowed has bytes entry", VARS_PATHS["inside"], (ALLOWED.encode(),)),
    ("allowed has None entry", VARS_PATHS["inside"], (None,)),
    ("allowed good then bad type", VARS_PATHS["inside"], (ALLOWED, None)),
    ("allowed bad type then good", VARS_PATHS["inside"], (None, ALLOWED)),
    ("vars is a directory", ALLOWED, (SCRATCH,)),
    ("vars file without vars dict", os.path.join(ALLOWED, "no_vars.py"), (ALLOWED,)),
    ("vars file not python suffix", os.path.join(ALLOWED, "notpython.txt"), (ALLOWED,)),
    ("vars missing, no restriction", VARS_PATHS["missing"], None),
    ("vars empty string", "", (SCRATCH,)),
    ("vars empty string, no restriction", "", None),
    ("outside, several allowed", VARS_PATHS["outside"], (ALLOWED, PREFIX)),
    ("prefix, allowed w/o trailing sep", VARS_PATHS["prefix_sharing"], (ALLOWED,)),
    ("prefix, allowed with trailing sep", VARS_PATHS["prefix_sharing"], (ALLOWED + "/",)),
]
for label, vpath, allowed in DIRECT:
    for cls in (QueryTemplateTransformation, TemplateFinalizer):
        print(f"  D {label} [{cls.__name__}]")
        print("      ->", outcome(lambda: direct_template(vpath, allowed, cls=cls)))
for allow in (False, 0, "", None, True, 1, "no", [0]):
    for env in (None, "0", "1", "true", "TrUe", "on"):
        set_env(env)
        print(f"  D gate allow_template_vars={allow!r} env={env!r}")
        print(
            "      ->",
            outcome(lambda: direct_template(VARS_PATHS["inside"], (ALLOWED,), allow=allow)),
        )
        t = QueryTemplateTransformation(template="x", allow_template_vars=allow)
        print("      gate value:", repr(t._vars_execution_allowed()))
set_env(None)
print("  D template without vars never consults gate:")
print("      ->", outcome(lambda: direct_template(None, (ALLOWED,), allow=False)))
os.chdir(HERE)

# ---------------------------------------------------------------------------------------------
print("=== E. direct use of external source gate (unusual inputs)")
from sigma.types import Placeholder  # noqa: E402

for allow in (False, 0, "", None, True, 1, "no", [0]):
    for env in (None, "0", "1", "true", "TrUe", "on", ""):
        set_env(env)
        for mk in (
            lambda a: FilePlaceholderTransformation(path=SOURCE_FILE, allow_external_sources=a),
            lambda a: CommandPlaceholderTransformation(
                cmd=["printf", "x\\ny\\n"], allow_external_sources=a
            ),
        ):
            t = mk(allow)
            print(f"  E {type(t).__name__} allow={allow!r} env={env!r}")
            print("      gate value:", repr(t._external_sources_allowed()))
            print("      ->", outcome(lambda: t.placeholder_replacements(Placeholder("ph"))))
            print("      cache:", repr(t._values_cache))
            print("      again ->", outcome(lambda: t.placeholder_replacements(Placeholder("ph"))))
set_env(None)
t = FilePlaceholderTransformation(path=SOURCE_FILE, filter="^a")
t._values_cache = ["cached"]
print("  E pre-filled cache bypasses gate and fetch:")
print("      ->", outcome(lambda: t.placeholder_replacements(Placeholder("ph"))))
t = FilePlaceholderTransformation(path=SOURCE_FILE, filter="^a", allow_external_sources=True)
print("  E filter applied, empty list cached:")
print("      ->", outcome(lambda: t.placeholder_replacements(Placeholder("ph"))))
t = FilePlaceholderTransformation(path=SOURCE_FILE, filter="^zzz", allow_external_sources=True)
print("      ->", outcome(lambda: t._get_values()), "cache:", repr(t._values_cache))
print("      ->", outcome(lambda: t._get_values()), "cache:", repr(t._values_cache))
t = HTTPPlaceholderTransformation(url="http://127.0.0.1:9/x", timeout=1)
print("  E http without opt-in:")
print("      ->", outcome(lambda: t._get_values()))

# ---------------------------------------------------------------------------------------------
print("=== F. item instantiation from unusual dicts; input dict after the call")


def show_from_dict(label, fn, d):
    print(f"  FG {label}")
    print("      ->", outcome(lambda: fn(d)))
    print("      dict after:", norm(repr(d)))


def pi_from_dict(d, **kw):
    item = ProcessingItem.from_dict(d, **kw)
    ident = item.identifier if "id" in d else "<generated>"
    return flags_of(item.transformation), ident, type(item.transformation).__name__


def ppi_from_dict(d, **kw):
    item = QueryPostprocessingItem.from_dict(d, **kw)
    ident = item.identifier if "id" in d else "<generated>"
    return flags_of(item.transformation), ident, type(item.transformation).__name__


show_from_dict("missing type", pi_from_dict, {"id": "x"})
show_from_dict("unknown type", pi_from_dict, {"type": "nonexistent"})
show_from_dict("type None", pi_from_dict, {"type": None})
show_from_dict("unhashable type", pi_from_dict, {"type": ["file_placeholders"]})
show_from_dict("empty dict", pi_from_dict, {})
show_from_dict(
    "unknown parameter", pi_from_dict, {"type": "file_placeholders", "path": "x", "bogus": 1}
)
show_from_dict("missing required param", pi_from_dict, {"type": "file_placeholders"})
show_from_dict(
    "bad format", pi_from_dict, inject({"type": "file_placeholders", "path": "x", "format": "xml"})
)
show_from_dict(
    "flags for non-capability class", pi_from_dict, inject({"type": "add_condition", "conditions": {"a": "b"}})
)
show_from_dict(
    "conditions and id excluded",
    pi_from_dict,
    inject(
        {
            "type": "file_placeholders",
            "path": SOURCE_FILE,
            "id": "the-id",
            "rule_conditions": [{"type": "logsource", "category": "test"}],
            "rule_cond_op": "and",
            "rule_cond_not": True,
            "detection_item_conditions": [],
            "field_name_conditions": [],
            "field_name_cond_op": "or",
            "field_name_cond_not": False,
            "detection_item_cond_op": "or",
            "detection_item_cond_not": False,
        }
    ),
)
show_from_dict(
    "caller opt-in true",
    lambda d: pi_from_dict(d, allow_external_sources=True),
    inject({"type": "command_placeholders", "cmd": "true"}),
)
show_from_dict(
    "caller opt-in truthy non-bool",
    lambda d: pi_from_dict(d, allow_external_sources="caller"),
    {"type": "command_placeholders", "cmd": "true", "allow_external_sources": False},
)
show_from_dict(
    "postprocessing template, caller values",
    lambda d: ppi_from_dict(d, allow_template_vars=True, vars_allowed_paths=(ALLOWED,)),
    inject({"type": "template", "template": "{{ query }}"}),
)
show_from_dict(
    "postprocessing template, no caller values",
    ppi_from_dict,
    inject({"type": "template", "template": "{{ query }}"}),
)
show_from_dict(
    "postprocessing transformation type in preprocessing table",
    pi_from_dict,
    inject({"type": "template", "template": "{{ query }}"}),
)
show_from_dict("postprocessing missing type", ppi_from_dict, inject({}))
show_from_dict(
    "nested preprocessing dict items",
    lambda d: pi_from_dict(d, allow_external_sources=True),
    inject({"type": "nest", "items": [inject({"type": "command_placeholders", "cmd": "true"})]}),
)
REQUIRED_PARAM = {
    "file_placeholders": "path",
    "http_placeholders": "url",
    "command_placeholders": "cmd",
}
for name, param in sorted(REQUIRED_PARAM.items()):
    d = inject({"type": name, param: "v"})
    print(f"  F direct _instantiate_transformation {name}, caller ext=False tv=True")
    print(
        "      ->",
        outcome(
            lambda: flags_of(
                ProcessingItem._instantiate_transformation(
                    d,
                    transformations,
                    allow_template_vars=True,
                    vars_allowed_paths=("/",),
                    allow_external_sources=False,
                )
            )
        ),
    )
    print("      dict after:", norm(repr(d)))

print("=== G. finalizer loading from unusual dicts; input dict after the call")


def nf_from_dict(d, **kw):
    return flags_of(NestedFinalizer.from_dict(d, **kw))


def pl_from_dict(d, **kw):
    return flags_of(ProcessingPipeline.from_dict(d, **kw))


for label, fn0 in (("NestedFinalizer.from_dict", nf_from_dict), ("Pipeline.from_dict", pl_from_dict)):
    for kw in ({}, {"allow_template_vars": True, "vars_allowed_paths": (ALLOWED,)}):
        tag = f"{label} kw={sorted(kw)}"

        def fn(d, fn0=fn0, kw=kw):
            return fn0(d, **kw)

        show_from_dict(tag + " no finalizers key", fn, {"name": "x"} if "Pipeline" in label else {})
        show_from_dict(tag + " empty finalizers", fn, {"finalizers": []})
        show_from_dict(
            tag + " missing type", fn, {"finalizers": [inject({"separator": ","})]}
        )
        show_from_dict(tag + " unknown type", fn, {"finalizers": [inject({"type": "bogus"})]})
        show_from_dict(
            tag + " unhashable type", fn, {"finalizers": [inject({"type": ["template"]})]}
        )
        show_from_dict(tag + " finalizer entry is a list", fn, {"finalizers": [["type"]]})
        show_from_dict(tag + " finalizer entry is None", fn, {"finalizers": [None]})
        show_from_dict(tag + " finalizers is None", fn, {"finalizers": None})
        show_from_dict(
            tag + " concat with smuggled keys",
            fn,
            {"finalizers": [inject({"type": "concat", "separator": ","})]},
        )
        show_from_dict(
            tag + " concat with unknown parameter",
            fn,
            {"finalizers": [inject({"type": "concat", "bogus": 1})]},
        )
        show_from_dict(
            tag + " json + template + nested mix",
            fn,
            {
                "finalizers": [
                    inject({"type": "json", "indent": 1}),
                    inject({"type": "template", "template": "{{ queries }}"}),
                    inject(
                        {
                            "type": "nested",
                            "finalizers": [
                                inject({"type": "yaml"}),
                                inject({"type": "template", "template": "t"}),
                                inject({"type": "nested", "finalizers": []}),
                            ],
                        }
                    ),
                ]
            },
        )
        show_from_dict(
            tag + " nested without finalizers key",
            fn,
            {"finalizers": [inject({"type": "nested"})]},
        )
        show_from_dict(
            tag + " template with vars outside",
            fn,
            {
                "finalizers": [
                    inject({"type": "template", "template": "t", "vars": VARS_PATHS["outside"]})
                ]
            },
        )
        show_from_dict(
            tag + " nested template with vars inside",
            fn,
            {
                "finalizers": [
                    nest_finalizer(
                        inject({"type": "template", "template": "t", "vars": VARS_PATHS["inside"]}),
                        2,
                    )
                ]
            },
        )

print("=== G2. subclass of NestedFinalizer: inner 'nested' entries are plain NestedFinalizer")


class MyNested(NestedFinalizer):
    pass


for kw in ({}, {"allow_template_vars": True, "vars_allowed_paths": (ALLOWED,)}):
    d = {
        "finalizers": [
            inject({"type": "template", "template": "a"}),
            inject(
                {
                    "type": "nested",
                    "finalizers": [inject({"type": "template", "template": "b"})],
                }
            ),
        ]
    }
    print(f"  G2 kw={sorted(kw)}")
    print("      ->", outcome(lambda: flags_of(MyNested.from_dict(d, **kw))))
    print("      dict after:", norm(repr(d)))

print("=== H. nested transformation classes built directly with from_dict (no opt-in available)")
from sigma.processing.postprocessing import NestedQueryPostprocessingTransformation  # noqa: E402
from sigma.processing.transformations import NestedProcessingTransformation  # noqa: E402

for env in ENV_VALUES:
    set_env(env)
    for pname in ("inside", "outside"):
        d = inject({"items": [template_pp_item(VARS_PATHS[pname])]})
        print(f"  H nested postprocessing env={env} vars={pname}")
        print(
            "      ->",
            outcome(lambda: flags_of(NestedQueryPostprocessingTransformation.from_dict(d))),
        )
    for kind in ("file", "command"):
        d = inject({"items": [nest_transformation(ext_item(kind), 1)]})
        print(f"  H nested preprocessing env={env} kind={kind}")
        print("      ->", outcome(lambda: flags_of(NestedProcessingTransformation.from_dict(d))))
set_env(None)
print("  H missing items key")
print("      ->", outcome(lambda: NestedQueryPostprocessingTransformation.from_dict({})))
print("      ->", outcome(lambda: NestedProcessingTransformation.from_dict({})))

shutil.rmtree(SCRATCH, ignore_errors=True)
print("done")
