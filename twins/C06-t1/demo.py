"""
Demo for t1: SigmaDetectionItem.to_plain (sigma/rule/detection.py).

Sweeps detection items (field / keyword, modifier chains, value counts and value types), prints their
plain form, reloads it and compares, then round-trips whole rules through to_dict and YAML and
converts the original and the reloaded rule with the test backend. Finally shows the error that is
raised when a pipeline made the original values stale.
"""

import itertools
import sys

import yaml

from sigma.backends.test import TextQueryTestBackend
from sigma.collection import SigmaCollection
from sigma.exceptions import SigmaError
from sigma.modifiers import (
    SigmaAllModifier,
    SigmaContainsModifier,
    SigmaRegularExpressionModifier,
)
from sigma.processing.pipeline import ProcessingItem, ProcessingPipeline
from sigma.processing.transformations import (
    FieldMappingTransformation,
    ReplaceStringTransformation,
)
from sigma.rule import SigmaDetection, SigmaDetectionItem, SigmaRule
from sigma.types import SigmaNumber, SigmaString

failures = 0


def show(label, func):
    try:
        result = func()
        print(f"{label} -> {result!r}")
        return result
    except Exception as e:  # the class and the message are part of the observed behaviour
        print(f"{label} !! {type(e).__name__}: {e}")
        return None


def check(label, cond):
    global failures
    print(f"{label}: {'ok' if cond else 'MISMATCH'}")
    if not cond:
        failures += 1


print("== detection items from mappings ==")
keys = [
    None,
    "",
    "field",
    "field|contains",
    "field|contains|all",
    "field|all",
    "field|startswith",
    "field|endswith",
    "field|re",
    "field|re|i",
    "field|re|m|s",
    "field|base64",
    "field|base64offset|contains",
    "field|wide|base64",
    "field|cidr",
    "field|exists",
    "field|lt",
    "field|gte",
    "field|fieldref",
    "field|windash|contains",
    "field|cased",
    "field|neq",
    "field|expand",
    "|contains",
    "|re",
    "|all",
    "field with space|contains",
    "f|unknownmod",
]
values = [
    "plain",
    "wild*card?",
    r"esc\*aped\?",
    r"back\\*slash",
    r"trail\\",
    r"C:\Windows\*\cmd.exe",
    "%placeholder%",
    "",
    0,
    1,
    -5,
    1.5,
    True,
    None,
    [],
    ["single"],
    ["a*", r"b\*"],
    ["a", 1, None],
    [r"\d+\.\*", "(a|b)?c*"],
    "192.168.0.0/16",
    ["10.0.0.0/8", "::1/128"],
    "otherfield",
]
for key, value in itertools.product(keys, values):
    label = f"from_mapping({key!r}, {value!r})"
    try:
        item = SigmaDetectionItem.from_mapping(key, value)
    except SigmaError as e:
        print(f"{label} load !! {type(e).__name__}: {e}")
        continue
    plain = show(label + ".to_plain()", item.to_plain)
    if plain is None and value is not None:
        continue
    # Reload from the plain form and compare values and plain form.
    try:
        if isinstance(plain, dict):
            ((k, v),) = plain.items()
            again = SigmaDetectionItem.from_mapping(k, v)
        else:
            again = SigmaDetectionItem.from_value(plain)
        check(
            "  reload same item / same plain",
            again == item and again.to_plain() == plain and type(plain) is type(again.to_plain()),
        )
    except SigmaError as e:
        print(f"  reload !! {type(e).__name__}: {e}")

print("== programmatically built items ==")
built = [
    SigmaDetectionItem("f", [], [SigmaString("a"), SigmaString("b*")]),
    SigmaDetectionItem(None, [], [SigmaString("kw")]),
    SigmaDetectionItem(None, [], [SigmaString("kw1"), SigmaNumber(2)]),
    SigmaDetectionItem(None, [SigmaContainsModifier], [SigmaString("kw")]),
    SigmaDetectionItem(None, [SigmaContainsModifier, SigmaAllModifier], [SigmaString("x"), SigmaString("y")]),
    SigmaDetectionItem("", [SigmaContainsModifier], [SigmaString("emptyfield")]),
    SigmaDetectionItem("", [], [SigmaString("emptyfield")]),
    SigmaDetectionItem("f", [SigmaRegularExpressionModifier], [SigmaString(r"a\*b*")]),
    SigmaDetectionItem("f", [SigmaRegularExpressionModifier], [SigmaNumber(5)], auto_modifiers=False),
    SigmaDetectionItem("f", [SigmaRegularExpressionModifier], [], auto_modifiers=False),
    SigmaDetectionItem("f", [], []),
    SigmaDetectionItem(None, [], []),
]
for item in built:
    show(f"{item!r}.to_plain()", item.to_plain)
# Types without plain form and stale items
item = SigmaDetectionItem.from_mapping("f|re", "a.*b")
item.original_value = list(item.value)
show("regex object as original value", item.to_plain)
item = SigmaDetectionItem.from_mapping("f|contains", ["a", "b"])
item.disable_conversion_to_plain()
show("disabled conversion", item.to_plain)
item = SigmaDetectionItem.from_mapping(None, "kw")
item.disable_conversion_to_plain()
show("disabled conversion keyword", item.to_plain)
show("field of wrong type", SigmaDetectionItem(5, [], [SigmaString("a")]).to_plain)
show(
    "field of wrong type with modifier",
    SigmaDetectionItem(5, [SigmaContainsModifier], [SigmaString("a")]).to_plain,
)

print("== detections ==")
definitions = [
    {"a": 1, "b|contains": ["x", "y"], "c|re": r"^\w+\*$"},
    {"a|contains": "x*", "b": None, "c": ""},
    ["kw1", "kw2*", r"kw3\*"],
    "single keyword",
    5,
    [{"a": 1}, {"b|endswith": [r"\\", r"\*"]}],
    [{"a": 1}, "mixed"],
    {"|contains": ["k1", "k2"]},
    {"|re": "k.*", "a": "b"},
]
for definition in definitions:
    try:
        detection = SigmaDetection.from_definition(definition)
    except SigmaError as e:
        print(f"from_definition({definition!r}) load !! {type(e).__name__}: {e}")
        continue
    plain = show(f"from_definition({definition!r}).to_plain()", detection.to_plain)
    if plain is not None:
        check("  reload same plain", SigmaDetection.from_definition(plain).to_plain() == plain)

print("== rules: dict and YAML round trip, conversion ==")
rule_template = """
title: Round trip {n}
id: 6f3e2987-db24-4c78-a860-b4f4095a7{n:03d}
status: test
logsource:
    product: windows
    category: process_creation
detection:
{detection}
    condition: {condition}
"""
rule_detections = [
    ("    sel:\n        Image|endswith: '\\\\cmd.exe'\n        CommandLine|contains|all:\n            - ' /c '\n            - 'whoami'", "sel"),
    ("    sel:\n        Path: 'C:\\\\*\\\\file\\*.txt'\n        Other: 'a\\\\\\*b'", "sel"),
    ("    sel:\n        f|re: '^a\\*b*\\\\d?$'\n        g|re|i: 'x.*y'", "sel"),
    ("    kw:\n        - 'key*word'\n        - 'literal\\*star'\n        - 5", "kw"),
    ("    kw: 'only one'", "kw"),
    ("    sel:\n        - a: 1\n        - b|contains:\n            - x\n            - y", "sel"),
    ("    sel:\n        a: null\n        b: ''\n        c: []\n    flt:\n        d|exists: true", "sel and not flt"),
    ("    sel:\n        '|contains':\n            - k1\n            - k2\n    sel2:\n        ip|cidr: '10.0.0.0/8'", "1 of sel*"),
    ("    sel:\n        a|lt: 5\n        b|gte: 1.5\n        c|fieldref: d\n        e|windash|contains: ' -x'", "sel"),
    ("    sel:\n        a|base64offset|contains: 'secret'\n        b|wide|base64: 'x'\n        c|cased: 'AbC*'", "sel"),
    ("    sel:\n        a|neq: 1\n        b|contains|neq: x", "sel"),
]
backend = TextQueryTestBackend()
for n, (detection, condition) in enumerate(rule_detections):
    text = rule_template.format(n=n, detection=detection, condition=condition)
    try:
        rule = SigmaRule.from_yaml(text)
    except SigmaError as e:
        print(f"rule {n} load !! {type(e).__name__}: {e}")
        continue
    d = show(f"rule {n} detection dict", lambda: rule.to_dict()["detection"])
    if d is None:
        continue
    reloaded = SigmaRule.from_dict(rule.to_dict())
    check(f"rule {n} reloaded dict equal", reloaded.to_dict() == rule.to_dict())
    dumped = yaml.safe_dump(rule.to_dict(), sort_keys=False)
    print(dumped)
    from_yaml = SigmaRule.from_yaml(dumped)
    check(f"rule {n} yaml reloaded dict equal", from_yaml.to_dict() == rule.to_dict())
    queries = [
        show(f"rule {n} convert {name}", lambda r=r: backend.convert(SigmaCollection([r])))
        for name, r in (("original", rule), ("reloaded", reloaded), ("yaml", from_yaml))
    ]
    check(f"rule {n} same queries", queries[0] == queries[1] == queries[2])

print("== rules after a pipeline transformation ==")
pipelines = {
    "field mapping": ProcessingPipeline(
        [ProcessingItem(FieldMappingTransformation({"Image": "process.path", "a": ["a1", "a2"]}))]
    ),
    "replace string": ProcessingPipeline(
        [ProcessingItem(ReplaceStringTransformation(regex="cmd", replacement="powershell"))]
    ),
}
for name, pipeline in pipelines.items():
    for n, (detection, condition) in enumerate(rule_detections[:6]):
        rule = SigmaRule.from_yaml(rule_template.format(n=n, detection=detection, condition=condition))
        pipeline.apply(rule)
        show(f"{name} / rule {n} detection dict", lambda: rule.to_dict()["detection"])

# Mismatches are observations about HEAD (the property is known not to hold everywhere); the demo only
# has to show that the observations are the same with and without the patch.
print("observed mismatches:", failures)
sys.exit(0)
