"""
Demo for refactoring t7: in-expression decision (Backend.decide_convert_condition_as_in_expression),
OR/AND dispatch in Backend.convert_condition and in-expression rendering
(TextQueryBackend.convert_condition_as_in_expression).

Run: PYTHONPATH=/tmp/wt8-C01 /venv/bin/python demo.py
Prints every observed result; output must be identical on clean HEAD and with the patch.
"""

import itertools
import sys

import sigma.types
from sigma.backends.test import TextQueryTestBackend
from sigma.collection import SigmaCollection
from sigma.conditions import (
    ConditionAND,
    ConditionFieldEqualsValueExpression,
    ConditionNOT,
    ConditionOR,
    ConditionValueExpression,
)
from sigma.conversion.state import ConversionState
from sigma.types import (
    SigmaBool,
    SigmaCasedString,
    SigmaCIDRExpression,
    SigmaNull,
    SigmaNumber,
    SigmaRegularExpression,
    SigmaString,
    SigmaTimestampPart,
    TimestampPart,
)

print("sigma.types imported from", sigma.types.__file__)


def make_backend(name, **attrs):
    return type(name, (TextQueryTestBackend,), attrs)


# Backend configurations K: every combination of the three in-expression switches plus some
# spelling variations (separator, operators, quoting, parenthesize, NOT-as-not-equals).
CONFIGS = []
for or_in, and_in, wc in itertools.product([True, False], repeat=3):
    CONFIGS.append(
        (
            f"or_in={or_in:d},and_in={and_in:d},wildcards={wc:d}",
            dict(convert_or_as_in=or_in, convert_and_as_in=and_in, in_expressions_allow_wildcards=wc),
        )
    )
CONFIGS.append(
    (
        "other-spelling",
        dict(
            in_expressions_allow_wildcards=False,
            list_separator=" ; ",
            or_in_operator="ANYOF",
            and_in_operator="ALLOF",
            field_in_list_expression="{op}[{field}]<{list}>",
            str_quote="'",
            field_quote="`",
        ),
    )
)
CONFIGS.append(("parenthesize", dict(parenthesize=True, in_expressions_allow_wildcards=False)))
CONFIGS.append(
    (
        "not-as-not-eq",
        dict(
            convert_not_as_not_eq=True,
            in_expressions_allow_wildcards=False,
            not_eq_token="!=",
            not_eq_expression="{field}!={value}",
        ),
    )
)
CONFIGS.append(("no-in-template", dict(field_in_list_expression=None)))
CONFIGS.append(("no-list-separator", dict(list_separator=None)))
CONFIGS.append(("truthy-nonbool-switches", dict(convert_or_as_in=1, convert_and_as_in="", in_expressions_allow_wildcards=0)))


def rule(detection):
    return (
        """
title: Demo
status: test
logsource:
    category: test_category
    product: test_product
detection:
"""
        + detection
    )


RULES = {
    "or-list-plain": """
    sel:
        fieldA:
            - value1
            - value2
            - value3
    condition: sel
""",
    "or-list-wildcards": """
    sel:
        fieldA:
            - value1
            - val*ue2
            - value?3
    condition: sel
""",
    "or-list-numbers-and-strings": """
    sel:
        fieldA:
            - 1
            - two
            - 3.5
            - "4"
    condition: sel
""",
    "and-list-all": """
    sel:
        fieldA|all:
            - value1
            - value2
    condition: sel
""",
    "and-list-contains-all": """
    sel:
        fieldA|contains|all:
            - val1
            - val2
    condition: sel
""",
    "or-contains": """
    sel:
        fieldA|contains:
            - val1
            - val2
    condition: sel
""",
    "or-different-fields": """
    sel1:
        fieldA: value1
    sel2:
        fieldB: value2
    condition: sel1 or sel2
""",
    "or-same-field-two-selections": """
    sel1:
        fieldA: value1
    sel2:
        fieldA: value2
    condition: sel1 or sel2
""",
    "and-same-field-two-selections": """
    sel1:
        fieldA: value1
    sel2:
        fieldA: 22
    condition: sel1 and sel2
""",
    "or-with-regex": """
    sel:
        fieldA|re:
            - foo.*
            - bar\\d
    condition: sel
""",
    "or-cased": """
    sel:
        fieldA|cased:
            - Value1
            - Value2
    condition: sel
""",
    "or-with-null": """
    sel:
        fieldA:
            - value1
            - null
    condition: sel
""",
    "or-with-empty-string": """
    sel:
        fieldA:
            - value1
            - ''
    condition: sel
""",
    "or-cidr": """
    sel:
        fieldA|cidr:
            - 192.168.0.0/16
            - 10.0.0.0/8
    condition: sel
""",
    "or-bool-and-string": """
    sel:
        fieldA:
            - true
            - value
    condition: sel
""",
    "keywords": """
    keywords:
        - alpha
        - beta
        - 3
    condition: keywords
""",
    "not-of-in-list": """
    sel:
        fieldA:
            - value1
            - value2
    filter:
        fieldB:
            - x
            - y*
    condition: sel and not filter
""",
    "nested": """
    sel1:
        fieldA:
            - a
            - b
        fieldB|all:
            - c
            - d
    sel2:
        - fieldC: 1
        - fieldC: 2
    condition: (sel1 or sel2) and not 1 of sel*
""",
    "windash-expansion": """
    sel:
        fieldA|windash|contains:
            - " -foo"
            - " -bar"
    condition: sel
""",
    "quoting-needed": """
    sel:
        "field name":
            - 'va"lue1'
            - 'va\\lue2'
            - 'va:l&ue3'
    condition: sel
""",
    "single-value": """
    sel:
        fieldA: onlyone
    condition: sel
""",
    "one-of-them": """
    sel1:
        fieldA: value1
    sel2:
        fieldA: value2
    sel3:
        fieldA: val*3
    condition: 1 of them
""",
    "all-of-them": """
    sel1:
        fieldA: value1
    sel2:
        fieldA: value2
    condition: all of them
""",
}


def show(label, fn):
    try:
        print(f"  {label}: {fn()!r}")
    except Exception as e:  # exception class and message are part of the behaviour
        print(f"  {label}: EXC {type(e).__name__}: {e}")


print("=== rule conversions ===")
for cname, attrs in CONFIGS:
    cls = make_backend("Cfg", **attrs)
    print(f"--- config {cname}")
    for rname, det in RULES.items():
        show(rname, lambda: cls().convert(SigmaCollection.from_yaml(rule(det))))


def f(field, value):
    return ConditionFieldEqualsValueExpression(field, value)


def conds():
    s, n = SigmaString, SigmaNumber
    yield "empty-or", ConditionOR([])
    yield "empty-and", ConditionAND([])
    yield "single-or", ConditionOR([f("a", s("x"))])
    yield "two-or", ConditionOR([f("a", s("x")), f("a", n(2))])
    yield "two-and", ConditionAND([f("a", s("x")), f("a", n(2))])
    yield "wild-or", ConditionOR([f("a", s("x*")), f("a", s("y"))])
    yield "escaped-wild-or", ConditionOR([f("a", s("x\\*")), f("a", s("y"))])
    yield "diff-fields", ConditionOR([f("a", s("x")), f("b", s("y"))])
    yield "cased", ConditionOR([f("a", SigmaCasedString("x")), f("a", s("y"))])
    yield "cased-wild-last", ConditionOR([f("a", s("x")), f("a", SigmaCasedString("y*"))])
    yield "timestamp-part", ConditionOR(
        [f("a", SigmaTimestampPart(TimestampPart.HOUR, 3)), f("a", n(2))]
    )
    yield "regex", ConditionOR([f("a", SigmaRegularExpression("x.*")), f("a", s("y"))])
    yield "null", ConditionAND([f("a", SigmaNull()), f("a", s("y"))])
    yield "bool", ConditionAND([f("a", SigmaBool(True)), f("a", s("y"))])
    yield "cidr", ConditionOR([f("a", SigmaCIDRExpression("10.0.0.0/8")), f("a", s("y"))])
    yield "value-only", ConditionOR([ConditionValueExpression(s("x")), ConditionValueExpression(s("y"))])
    yield "mixed-field-and-value", ConditionOR([f("a", s("x")), ConditionValueExpression(s("y"))])
    yield "nested-or", ConditionOR([f("a", s("x")), ConditionOR([f("a", s("y")), f("a", s("z"))])])
    yield "nested-not", ConditionAND([f("a", s("x")), ConditionNOT([f("a", s("y"))])])
    yield "none-arg", ConditionOR([f("a", s("x")), None])
    yield "not-cond", ConditionNOT([f("a", s("x"))])
    yield "numbers-only", ConditionAND([f("a", n(1)), f("a", n(2.5)), f("a", n(-3))])


print("=== direct calls on hand-built condition trees ===")
for cname, attrs in CONFIGS:
    cls = make_backend("Cfg", **attrs)
    print(f"--- config {cname}")
    for name, cond in conds():
        show(
            f"decide {name}",
            lambda: cls().decide_convert_condition_as_in_expression(cond, ConversionState()),
        )
        show(f"convert {name}", lambda: cls().convert_condition(cond, ConversionState()))
        if not isinstance(cond, ConditionNOT):
            show(
                f"as_in {name}",
                lambda: cls().convert_condition_as_in_expression(cond, ConversionState()),
            )

sys.exit(0)
