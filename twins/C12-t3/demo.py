"""
Demo for t3: condition rewriting (add_condition: plain, negated, templated; condition
transformation base class marking changed conditions as applied).

Prints the converted queries plus the state of the rule object after the pipeline was applied. Must
print the same with and without the patch.
"""

import sys
import textwrap
from dataclasses import dataclass

from sigma.backends.test import TextQueryTestBackend
from sigma.collection import SigmaCollection
from sigma.conditions import SigmaCondition
from sigma.processing.pipeline import ProcessingPipeline, ProcessingItem
from sigma.processing.transformations import AddConditionTransformation
from sigma.processing.transformations.base import ConditionTransformation
from sigma.rule import SigmaDetection, SigmaDetectionItem, SigmaRule


def dump_detection(d, indent="    "):
    for item in d.detection_items:
        if isinstance(item, SigmaDetection):
            print(f"{indent}detection linking={item.item_linking.__name__}")
            dump_detection(item, indent + "  ")
        else:
            print(
                f"{indent}item field={item.field!r} modifiers={[m.__name__ for m in item.modifiers]} "
                f"value={item.value!r} linking={item.value_linking.__name__} "
                f"original={item.original_value!r} "
                f"applied={sorted(item.applied_processing_items)}"
            )


def dump_rule(rule):
    print("  rule", rule.title, "applied=", sorted(rule.applied_processing_items))
    detection = getattr(rule, "detection", None)
    if detection is None:
        return
    print("   condition strings:", detection.condition)
    for cond in detection.parsed_condition:
        print(
            f"   parsed condition {cond.condition!r} applied={sorted(cond.applied_processing_items)}"
        )
    for name, d in detection.detections.items():
        print(f"   detection {name!r} linking={d.item_linking.__name__}")
        dump_detection(d)
    try:
        print("   to_dict:", rule.to_dict()["detection"])
    except Exception as e:
        print("   to_dict exception:", type(e).__name__)


def run(title, rule_yaml, pipeline_yaml):
    print("=" * 78)
    print(title)
    try:
        pipeline = ProcessingPipeline.from_yaml(textwrap.dedent(pipeline_yaml))
    except Exception as e:
        print("  pipeline exception:", type(e).__name__, str(e))
        return
    rules = SigmaCollection.from_yaml(textwrap.dedent(rule_yaml))
    backend = TextQueryTestBackend(pipeline)
    try:
        for query in backend.convert(rules):
            print("  query:", query)
    except Exception as e:  # the class and the message are part of the behaviour
        print("  exception:", type(e).__name__, str(e))
    for rule in rules.rules:
        dump_rule(rule)
    p = getattr(backend, "last_processing_pipeline", None)
    if p is not None:
        print("  applied_ids:", sorted(p.applied_ids))


RULE_SIMPLE = r"""
    title: simple
    status: test
    logsource:
        category: process_creation
        product: windows
        service: sysmon
    detection:
        sel:
            Image|endswith: '\cmd.exe'
        filter:
            User: SYSTEM
        condition: sel and not filter
"""

RULE_NO_PRODUCT = r"""
    title: only category
    status: test
    logsource:
        category: 'web$category'
    detection:
        sel:
            a: 1
        keywords:
            - foo
            - bar
        condition: sel or keywords
"""

RULE_MULTI_CONDITION = r"""
    title: several conditions
    status: test
    logsource:
        product: linux
        service: auditd
    detection:
        sel1:
            a: b
        sel2:
            c: d
        other:
            e|contains: f
        condition:
            - 1 of sel*
            - all of sel* and not other
            - other
"""

RULE_PRECEDENCE = r"""
    title: precedence
    status: test
    logsource:
        category: test
    detection:
        a:
            f: 1
        b:
            g: 2
        c:
            h: 3
        condition: a or b and not c
"""

CORRELATION = r"""
    title: base rule
    name: base_rule
    status: test
    logsource:
        category: test
        product: p
    detection:
        sel:
            user: foo
        condition: sel
    ---
    title: correlation
    status: test
    correlation:
        type: event_count
        rules:
            - base_rule
        group-by:
            - user
        timespan: 5m
        condition:
            gte: 10
"""

PIPELINES = {
    "plain": r"""
        name: p
        priority: 10
        transformations:
            - id: add
              type: add_condition
              name: added
              conditions:
                  index: main
                  source:
                      - one
                      - 'tw*o'
                  num: 5
    """,
    "negated": r"""
        name: p
        priority: 10
        transformations:
            - id: add
              type: add_condition
              name: added
              negated: true
              conditions:
                  index: excluded
    """,
    "template": r"""
        name: p
        priority: 10
        transformations:
            - id: add
              type: add_condition
              name: added
              template: true
              conditions:
                  index: "$product-$category"
                  svc:
                      - "${service}_x"
                      - "$unknown and $$ and $"
                      - 7
                  lit: 3
                  nothing: null
    """,
    "template negated": r"""
        name: p
        priority: 10
        transformations:
            - id: add
              type: add_condition
              name: added
              template: true
              negated: true
              conditions:
                  "$product": "$product"
    """,
    "template off with dollars": r"""
        name: p
        priority: 10
        transformations:
            - id: add
              type: add_condition
              name: added
              conditions:
                  index: "$product-$category"
    """,
    "empty conditions": r"""
        name: p
        priority: 10
        transformations:
            - id: add
              type: add_condition
              name: added
              conditions: {}
    """,
    "empty conditions template": r"""
        name: p
        priority: 10
        transformations:
            - id: add
              type: add_condition
              name: added
              template: true
    """,
    "name collides with detection": r"""
        name: p
        priority: 10
        transformations:
            - id: add
              type: add_condition
              name: sel
              conditions:
                  x: y
    """,
    "two additions and a later condition on them": r"""
        name: p
        priority: 10
        transformations:
            - id: add1
              type: add_condition
              name: first
              conditions:
                  idx: a
              rule_conditions:
                  - type: logsource
                    product: windows
            - id: add2
              type: add_condition
              name: second
              negated: true
              template: true
              conditions:
                  idx: "$product"
              rule_conditions:
                  - type: processing_item_applied
                    processing_item_id: add1
              rule_cond_not: true
            - id: map
              type: field_name_mapping
              mapping:
                  idx: index
                  Image: [i1, i2]
            - id: mark
              type: replace_string
              regex: "^a$"
              replacement: "A"
              detection_item_conditions:
                  - type: processing_item_applied
                    processing_item_id: add1
    """,
    "modifiers in condition keys": r"""
        name: p
        priority: 10
        transformations:
            - id: add
              type: add_condition
              name: added
              template: true
              conditions:
                  "path|contains|all":
                      - "$category"
                      - "fixed"
                  "re|re": "^$product.*$$"
    """,
    "bad conditions type": r"""
        name: p
        priority: 10
        transformations:
            - id: add
              type: add_condition
              name: added
              template: true
              conditions:
                  - a
                  - b
    """,
}

for rule_name, rule_yaml in [
    ("simple", RULE_SIMPLE),
    ("no product", RULE_NO_PRODUCT),
    ("multi condition", RULE_MULTI_CONDITION),
    ("precedence", RULE_PRECEDENCE),
    ("correlation", CORRELATION),
]:
    for pipeline_name, pipeline_yaml in PIPELINES.items():
        run(f"{rule_name} x {pipeline_name}", rule_yaml, pipeline_yaml)

# Object level
print("=" * 78)
print("apply_condition directly")
for name in ["n", "", 5, None]:
    for negated in [False, True, 0, "yes"]:
        for cond_str in ["a and b", "", "x"]:
            t = AddConditionTransformation({"f": "v"}, name, False, negated)
            cond = SigmaCondition(cond_str, None)
            try:
                r = t.apply_condition(cond)
                print(f"  name={name!r} negated={negated!r} {cond_str!r} -> {cond.condition!r} returns {r!r}")
            except Exception as e:
                print(
                    f"  name={name!r} negated={negated!r} {cond_str!r} -> exception {type(e).__name__} {e}; condition now {cond.condition!r}"
                )

print("random name")
t1 = AddConditionTransformation({"f": "v"})
t2 = AddConditionTransformation({"f": "v"})
print("  ", t1.name.startswith("_cond_"), len(t1.name), t1.name != t2.name, t1 == t2)

print("apply directly, with and without processing item, various condition dicts")
for conditions in [
    {"f": "v"},
    {"f": ["$category", 1, None]},
    {"f": "$category", "g|contains": "${product}x$service"},
    {"f": 1},
    {"f": None},
    {None: "keyword $product"},
    {},
    {"f": ("$category", "tuple")},
    {"f": {"nested": "$category"}},
    {"f": []},
]:
    for template in [False, True]:
        for with_item in [False, True]:
            rule = SigmaCollection.from_yaml(textwrap.dedent(RULE_SIMPLE)).rules[0]
            t = AddConditionTransformation(conditions, "extra", template, False)
            if with_item:
                ProcessingItem(t, identifier="pi")
            print(f"  conditions={conditions!r} template={template} with_item={with_item}")
            try:
                r = t.apply(rule)
                print("   returns", r)
            except Exception as e:
                print("   exception:", type(e).__name__, e)
            print("   transformation conditions afterwards:", t.conditions)
            dump_rule(rule)

print("apply on something that is not a rule")
t = AddConditionTransformation({"f": "v"}, "extra")
ProcessingItem(t, identifier="pi")
corr = SigmaCollection.from_yaml(textwrap.dedent(CORRELATION)).rules[1]
print("  ", t.apply(corr), sorted(corr.applied_processing_items))


# Custom condition transformations: only changed conditions are marked
@dataclass
class OnlySome(ConditionTransformation):
    mode: str = "some"

    def apply_condition(self, cond):
        if self.mode == "some" and "other" in cond.condition:
            cond.condition = "not (" + cond.condition + ")"
        elif self.mode == "same":
            cond.condition = str(cond.condition)  # equal but new string
        elif self.mode == "fail" and cond.condition == "other":
            raise ValueError("boom")
        elif self.mode == "fail":
            cond.condition = cond.condition + " or other"


for mode in ["some", "same", "none", "fail"]:
    rule = SigmaCollection.from_yaml(textwrap.dedent(RULE_MULTI_CONDITION)).rules[0]
    t = OnlySome(mode)
    ProcessingItem(t, identifier="custom")
    print(" custom condition transformation", mode)
    try:
        print("   returns", t.apply(rule))
    except Exception as e:
        print("   exception:", type(e).__name__, e)
    dump_rule(rule)
    try:
        print("   queries:", TextQueryTestBackend().convert_rule(rule))
    except Exception as e:
        print("   exception:", type(e).__name__, e)

sys.exit(0)
