"""
Demo for C09 (rule references resolve the same way whatever the document order), with the focus
on the name/id lookup of SigmaCollection.__getitem__ that SigmaRuleReference.resolve uses.

Run as: PYTHONPATH=/tmp/wt6-C09 /venv/bin/python demo.py
"""

import itertools
import random
import tempfile
from pathlib import Path
from uuid import UUID

import yaml

from sigma.backends.test import TextQueryTestBackend
from sigma.collection import SigmaCollection
from sigma.exceptions import SigmaError

ID_A = "aaaaaaaa-0000-4000-8000-000000000001"
ID_B = "bbbbbbbb-0000-4000-8000-000000000002"
ID_C = "cccccccc-0000-4000-8000-000000000003"
ID_X = "dddddddd-0000-4000-8000-000000000004"
ID_MISSING = "eeeeeeee-0000-4000-8000-00000000000e"


def plain(title, name=None, id=None, field="fieldA", value="a"):
    d = {
        "title": title,
        "logsource": {"category": "test"},
        "detection": {"sel": {field: value}, "condition": "sel"},
    }
    if name is not None:
        d["name"] = name
    if id is not None:
        d["id"] = id
    return d


def corr(title, rules, name=None, id=None, generate=None, type="event_count"):
    c = {
        "type": type,
        "rules": rules,
        "group-by": ["user"],
        "timespan": "5m",
    }
    if type == "event_count":
        c["condition"] = {"gte": 2}
    if generate is not None:
        c["generate"] = generate
    d = {"title": title, "correlation": c}
    if name is not None:
        d["name"] = name
    if id is not None:
        d["id"] = id
    return d


RULE_SETS = {
    "by_name_and_id": [
        plain("A", name="rule_a", id=ID_A),
        plain("B", name="rule_b", id=ID_B, field="fieldB", value="b"),
        plain("X unrelated", name="rule_x", id=ID_X, value="x"),
        corr("C1 refs a by name, b by id", ["rule_a", ID_B], name="corr_1"),
    ],
    "generate_mix": [
        plain("A", name="rule_a"),
        plain("B", name="rule_b", value="b"),
        corr("C gen", ["rule_a"], name="corr_gen", generate=True),
        corr("C nogen", ["rule_b"], name="corr_nogen", generate=False),
    ],
    "chain_depth_3": [
        plain("A", name="rule_a", id=ID_A),
        corr("L1", [ID_A], name="level1", id=ID_B),
        corr("L2", ["level1"], name="level2", id=ID_C, generate=True),
        corr("L3", [ID_C.upper()], name="level3"),
        plain("X unrelated", name="rule_x", value="x"),
    ],
    "name_looks_like_uuid": [
        # The name of the rule is a valid UUID string no rule has as id: falls back to name lookup
        plain("A", name=ID_MISSING, id=ID_A),
        plain("B", name="{" + ID_B + "}", value="b"),
        corr("C", [ID_MISSING, "{" + ID_B + "}"], name="corr_uuid_names"),
    ],
    "missing_by_name": [
        plain("A", name="rule_a"),
        corr("C", ["rule_a", "does_not_exist"], name="corr_missing"),
    ],
    "missing_by_id": [
        plain("A", name="rule_a", id=ID_A),
        corr("C", [ID_MISSING], name="corr_missing_id"),
    ],
    "temporal_two_rules": [
        plain("A", name="rule_a"),
        plain("B", name="rule_b", value="b"),
        corr("T", ["rule_a", "rule_b"], name="temporal", type="temporal"),
    ],
}


def describe(collection):
    backend = TextQueryTestBackend()
    order = [r.title for r in collection.rules]
    flags = sorted((r.title, r._output, len(r._backreferences)) for r in collection.rules)
    queries = backend.convert(collection)
    return order, flags, sorted(queries)


def load_from_yaml(docs):
    return SigmaCollection.from_yaml(yaml.safe_dump_all(docs))


def load_from_dicts(docs):
    return SigmaCollection.from_dicts(yaml.safe_load(yaml.safe_dump(docs)))


def load_merge(docs):
    parts = [
        SigmaCollection.from_dicts([yaml.safe_load(yaml.safe_dump(d))], resolve_references=False)
        for d in docs
    ]
    return SigmaCollection.merge(parts)


def load_ruleset(docs):
    with tempfile.TemporaryDirectory() as tmp:
        paths = []
        for i, d in enumerate(docs):
            p = Path(tmp) / f"{i:02d}.yml"
            p.write_text(yaml.safe_dump(d), encoding="utf-8")
            paths.append(p)
        return SigmaCollection.load_ruleset(paths)


LOADERS = {
    "from_yaml": load_from_yaml,
    "from_dicts": load_from_dicts,
    "merge": load_merge,
    "load_ruleset": load_ruleset,
}


def outcome(loader, docs):
    try:
        order, flags, queries = describe(loader(docs))
        return ("ok", tuple(flags), tuple(queries)), order
    except SigmaError as e:
        return ("error", type(e).__name__, str(e)), None


def valid_order(order, docs):
    """Every referenced rule comes before the correlation rule referring to it."""
    pos = {t: i for i, t in enumerate(order)}
    by_key = {}
    for d in docs:
        for k in ("name", "id"):
            if k in d:
                by_key[d[k].lower()] = d["title"]
    for d in docs:
        if "correlation" in d:
            for ref in d["correlation"]["rules"]:
                if pos[by_key[ref.lower()]] > pos[d["title"]]:
                    return False
    return True


def main():
    rnd = random.Random(9)
    for set_name, docs in RULE_SETS.items():
        perms = list(itertools.permutations(range(len(docs))))
        if len(perms) > 24:
            perms = [perms[0], perms[-1]] + rnd.sample(perms[1:-1], 22)
        outcomes = set()
        orders_ok = True
        for loader_name, loader in LOADERS.items():
            for perm in perms:
                permuted = [docs[i] for i in perm]
                res, order = outcome(loader, permuted)
                outcomes.add(res)
                if order is not None and not valid_order(order, docs):
                    orders_ok = False
        print(f"== {set_name}: {len(perms)} permutations x {len(LOADERS)} load paths")
        print(f"   distinct outcomes: {len(outcomes)}; reference order respected: {orders_ok}")
        for res in sorted(outcomes, key=repr):
            print("   ", res[0])
            for part in res[1:]:
                print("      ", part)
        # collection order for the document order as given and reversed
        for label, seq in (("given", docs), ("reversed", docs[::-1])):
            try:
                print(f"   order[{label}]:", [r.title for r in load_from_yaml(seq).rules])
            except SigmaError as e:
                print(f"   order[{label}]: {type(e).__name__}: {e}")

    # Direct lookups with usual and unusual keys
    print("== direct lookups")
    coll = load_from_yaml(RULE_SETS["name_looks_like_uuid"] + RULE_SETS["by_name_and_id"][1:3])
    print("   rules:", [r.title for r in coll.rules])

    class Name(str):
        pass

    class Pos(int):
        pass

    keys = [
        0,
        2,
        -1,
        -len(coll.rules),
        len(coll.rules),
        -len(coll.rules) - 1,
        True,
        False,
        Pos(1),
        UUID(ID_A),
        UUID(ID_MISSING),
        ID_A,
        ID_A.upper(),
        ID_A.replace("-", ""),
        "urn:uuid:" + ID_A,
        "{" + ID_B + "}",
        ID_MISSING,
        "rule_x",
        Name("rule_x"),
        Name(ID_X),
        "RULE_X",
        "",
        "corr_uuid_names",
        "nonexistent",
        1.0,
        None,
        (0,),
        b"rule_x",
    ]
    for key in keys:
        try:
            result = coll[key]
            shown = None if result is None else result.title
            print(f"   coll[{key!r}] -> {shown!r}")
        except Exception as e:
            print(
                f"   coll[{key!r}] raised {type(e).__name__}: {e}"
                f" (context {type(e.__context__).__name__})"
            )


if __name__ == "__main__":
    main()
