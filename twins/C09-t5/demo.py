"""
Demo for C09 (rule references resolve the same way whatever the document order), with the focus
on the search phase of correlation queries (Backend.convert_correlation_search) that consumes the
stored conversion results of the referenced rules.

Run as: PYTHONPATH=/tmp/wt6-C09 /venv/bin/python demo.py
"""

import itertools
import random
import tempfile
from pathlib import Path

import yaml

from sigma.backends.test import TextQueryTestBackend
from sigma.collection import SigmaCollection
from sigma.exceptions import SigmaError

ID_A = "aaaaaaaa-0000-4000-8000-000000000001"
ID_B = "bbbbbbbb-0000-4000-8000-000000000002"


def plain(title, name=None, id=None, value="a", two_conditions=False):
    detection = {"sel": {"fieldA": value}, "condition": "sel"}
    if two_conditions:
        detection = {
            "sel1": {"fieldA": value + "1"},
            "sel2": {"fieldB": value + "2"},
            "condition": ["sel1", "sel2"],
        }
    d = {"title": title, "logsource": {"category": "test"}, "detection": detection}
    if name is not None:
        d["name"] = name
    if id is not None:
        d["id"] = id
    return d


def corr(title, rules, name=None, generate=None, type="event_count", aliases=None):
    c = {"type": type, "rules": rules, "group-by": ["user"], "timespan": "10m"}
    if type == "event_count":
        c["condition"] = {"gte": 3}
    if generate is not None:
        c["generate"] = generate
    if aliases is not None:
        c["aliases"] = aliases
    d = {"title": title, "correlation": c}
    if name is not None:
        d["name"] = name
    return d


RULE_SETS = {
    "single_rule_single_query": [
        plain("A", name="rule_a"),
        plain("X unrelated", name="rule_x", value="x"),
        corr("C", ["rule_a"], name="corr"),
    ],
    "single_rule_two_queries": [
        plain("A2", name="rule_a2", two_conditions=True),
        corr("C", ["rule_a2"], name="corr", generate=True),
    ],
    "two_rules_by_name_and_id": [
        plain("A", name="rule_a", id=ID_A),
        plain("B", id=ID_B, value="b"),
        corr("C", [ID_B, "rule_a"], name="corr"),
    ],
    "aliases": [
        plain("A", name="rule_a"),
        plain("B", name="rule_b", value="b"),
        corr(
            "T",
            ["rule_a", "rule_b"],
            name="temporal",
            type="temporal",
            aliases={"user": {"rule_a": "src_user", "rule_b": "dst_user"}},
        ),
    ],
    "single_rule_alias": [
        plain("A", name="rule_a"),
        corr("C", ["rule_a"], name="corr", aliases={"user": {"rule_a": "src_user"}}),
    ],
    "chain_with_generate_mix": [
        plain("A", name="rule_a"),
        plain("B2", name="rule_b2", value="b", two_conditions=True),
        corr("L1", ["rule_a", "rule_b2"], name="level1", generate=True),
        corr("L2", ["level1"], name="level2"),
        corr("L3", ["level2", "rule_a"], name="level3", generate=False),
    ],
    "missing_reference": [
        plain("A", name="rule_a"),
        corr("C", ["rule_a", "rule_gone"], name="corr"),
    ],
}


class NoSingleBackend(TextQueryTestBackend):
    correlation_search_single_rule_expression = None


class NoMultiBackend(TextQueryTestBackend):
    correlation_search_multi_rule_expression = None


class NoMultiJoinerBackend(TextQueryTestBackend):
    correlation_search_multi_rule_query_expression_joiner = None


class NoSearchBackend(TextQueryTestBackend):
    correlation_search_single_rule_expression = None
    correlation_search_multi_rule_query_expression = None


class FinalizeSubqueriesBackend(TextQueryTestBackend):
    finalize_correlation_subqueries = True

    def finalize_query_default(self, rule, query, index, state):
        return f"[{rule.title}#{index}] {query}"


class KwargsBackend(TextQueryTestBackend):
    correlation_search_single_rule_expression = "{prefix}{query}{normalization} /* {ruleid} {rule.title} */"
    correlation_search_multi_rule_expression = "{prefix}{queries}"

    def convert_correlation_search_multi_rule_query_postprocess(self, query):
        return f"<{query}>"


BACKENDS = {
    "default": TextQueryTestBackend,
    "no_single": NoSingleBackend,
    "no_multi": NoMultiBackend,
    "no_multi_joiner": NoMultiJoinerBackend,
    "no_search": NoSearchBackend,
    "finalize_subqueries": FinalizeSubqueriesBackend,
}


def load_from_yaml(docs):
    return SigmaCollection.from_yaml(yaml.safe_dump_all(docs))


def load_from_dicts(docs):
    return SigmaCollection.from_dicts(yaml.safe_load(yaml.safe_dump(docs)))


def load_merge(docs):
    parts = [
        SigmaCollection.from_dicts([yaml.safe_load(yaml.safe_dump(d))], resolve_references=False)
        for d in docs
    ]
    return SigmaCollection.merge(parts)


def load_ruleset(docs):
    with tempfile.TemporaryDirectory() as tmp:
        paths = []
        for i, d in enumerate(docs):
            p = Path(tmp) / f"{i:02d}.yml"
            p.write_text(yaml.safe_dump(d), encoding="utf-8")
            paths.append(p)
        return SigmaCollection.load_ruleset(paths)


LOADERS = {
    "from_yaml": load_from_yaml,
    "from_dicts": load_from_dicts,
    "merge": load_merge,
    "load_ruleset": load_ruleset,
}


def outcome(loader, backend_class, docs):
    try:
        collection = loader(docs)
        backend = backend_class()
        queries = backend.convert(collection)
        stored = sorted((r.title, tuple(r.get_conversion_result())) for r in collection.rules)
        return ("ok", tuple(sorted(queries)), tuple(stored))
    except (SigmaError, NotImplementedError) as e:
        return ("error", type(e).__name__, str(e))


def show(res, indent="   "):
    print(indent, res[0])
    for part in res[1:]:
        if isinstance(part, tuple):
            for item in part:
                print(indent, "   ", repr(item))
        else:
            print(indent, "   ", part)


def main():
    rnd = random.Random(5)
    for set_name, docs in RULE_SETS.items():
        perms = list(itertools.permutations(range(len(docs))))
        if len(perms) > 24:
            perms = [perms[0], perms[-1]] + rnd.sample(perms[1:-1], 22)
        print(f"== {set_name}: {len(perms)} permutations x {len(LOADERS)} load paths")
        for backend_name, backend_class in BACKENDS.items():
            outcomes = set()
            for loader in LOADERS.values():
                for perm in perms:
                    outcomes.add(outcome(loader, backend_class, [docs[i] for i in perm]))
            print(f"  backend {backend_name}: {len(outcomes)} distinct outcome(s)")
            for res in sorted(outcomes, key=repr):
                show(res, "     ")

    print("== collect_errors: backend without multi-rule search keeps converting other rules")
    backend = NoMultiBackend(collect_errors=True)
    coll = load_from_yaml(RULE_SETS["chain_with_generate_mix"][::-1])
    print("   queries:", sorted(backend.convert(coll)))
    for rule, error in backend.errors:
        print(f"   error for {rule.title}: {type(error).__name__}: {error}")

    print("== search phase called directly")
    for set_name in ("single_rule_single_query", "single_rule_alias", "two_rules_by_name_and_id", "single_rule_two_queries"):
        for backend_class in (KwargsBackend, NoSingleBackend, NoSearchBackend):
            coll = load_from_yaml(RULE_SETS[set_name][::-1])
            correlation = coll["corr"]
            backend = backend_class()
            backend.init_processing_pipeline(None)
            label = f"{set_name}/{backend_class.__name__}"
            # 1. referenced rules not converted yet: stored result is not available
            for kwargs in ({}, {"prefix": "search "}):
                try:
                    print(f"   {label} unconverted {kwargs}:", repr(backend.convert_correlation_search(correlation, **kwargs)))
                except Exception as e:
                    print(f"   {label} unconverted {kwargs}: {type(e).__name__}: {e}")
            # 2. convert the referenced rules, then run the search phase
            for rule in coll.rules:
                if rule is not correlation:
                    backend.convert_rule(rule)
            for kwargs in ({}, {"prefix": "search "}, {"prefix": "", "query": "dup"}, {"prefix": "", "queries": "dup"}):
                try:
                    print(f"   {label} converted {kwargs}:", repr(backend.convert_correlation_search(correlation, **kwargs)))
                except Exception as e:
                    print(f"   {label} converted {kwargs}: {type(e).__name__}: {e}")

    print("== correlation rule without references (extended condition absent, rules empty)")
    coll = load_from_yaml(RULE_SETS["single_rule_single_query"])
    correlation = coll["corr"]
    correlation.referenced_rules = []
    for backend_class in (TextQueryTestBackend, NoMultiBackend):
        backend = backend_class()
        try:
            print(f"   {backend_class.__name__}:", repr(backend.convert_correlation_search(correlation)))
        except Exception as e:
            print(f"   {backend_class.__name__}: {type(e).__name__}: {e}")


if __name__ == "__main__":
    main()
