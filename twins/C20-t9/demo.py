"""C20 demo: Backend.convert() output and error records, in order, across hash seeds / random seeds.

Run without arguments: starts the worker (this file with 'worker <random seed>') in subprocesses
with different PYTHONHASHSEED values and random seeds, prints what the first one produced and the
sha256 of every run; all digests must be equal.
"""
import hashlib
import os
import random
import subprocess
import sys

RULES = r"""
title: Plain rule with two conditions
id: 11111111-1111-4111-8111-111111111111
status: test
logsource:
    category: process_creation
    product: windows
detection:
    sel:
        CommandLine|contains: 'whoami'
        Image|endswith: '\cmd.exe'
    other:
        User: admin
    condition:
        - sel
        - other and not sel
---
title: Regex flags and one-to-many mapping
id: 22222222-2222-4222-8222-222222222222
name: rx_rule
status: test
logsource:
    category: process_creation
    product: windows
detection:
    sel:
        CommandLine|re|i|m|s: 'a.*b\d+'
        ParentImage|re|s|i: '^C:\\'
        User:
            - alice
            - bob
    condition: sel
---
title: Unsupported feature (fieldref with startswith)
id: 33333333-3333-4333-8333-333333333333
status: test
logsource:
    category: network_connection
    product: windows
detection:
    sel:
        DestinationIp|cidr: '10.0.0.0/8'
        Initiated: true
        Nothing: null
    condition: sel
---
title: Referenced only
id: 44444444-4444-4444-8444-444444444444
name: base_a
status: test
logsource:
    category: process_creation
    product: windows
detection:
    sel:
        CommandLine|all:
            - 'x'
            - 'y'
    condition: sel
---
title: Referenced and generated
id: 55555555-5555-4555-8555-555555555555
name: base_b
status: test
logsource:
    category: process_creation
    product: windows
detection:
    sel:
        EventID: 4625
    condition: sel
---
title: Correlation
id: 66666666-6666-4666-8666-666666666666
status: test
correlation:
    type: event_count
    rules:
        - base_a
        - base_b
    generate: false
    group-by:
        - User
    timespan: 5m
    condition:
        gte: 10
---
title: Temporal correlation over the same rules
id: 77777777-7777-4777-8777-777777777777
status: test
correlation:
    type: temporal
    rules:
        - base_a
        - rx_rule
    group-by:
        - User
        - Image
    timespan: 1h
---
title: Keywords and 1 of
id: 88888888-8888-4888-8888-888888888888
status: test
logsource:
    category: process_creation
    product: windows
detection:
    keywords:
        - foo
        - 'bar baz'
    sel_a:
        Image: a.exe
    sel_b:
        Image: b.exe
    condition: keywords or 1 of sel_*
---
title: Filter
id: 99999999-9999-4999-8999-999999999999
logsource:
    category: process_creation
    product: windows
filter:
    rules:
        - 11111111-1111-4111-8111-111111111111
        - rx_rule
    selection:
        User|startswith: 'adm_'
    condition: not selection
"""

CONV_BROKEN_RULES = RULES + r"""
---
title: Field reference not supported by the demo backend
id: cccccccc-cccc-4ccc-8ccc-cccccccccccc
name: fr_rule
status: test
logsource:
    category: process_creation
    product: windows
detection:
    sel:
        Image|fieldref|startswith: ParentImage
    condition: sel
---
title: Rejected by the pipeline
id: dddddddd-dddd-4ddd-8ddd-dddddddddddd
status: test
logsource:
    category: file_event
    product: windows
detection:
    sel:
        TargetFilename|endswith: '.tmp'
    condition: sel
---
title: Correlation over a failed rule
id: eeeeeeee-eeee-4eee-8eee-eeeeeeeeeeee
status: test
correlation:
    type: value_count
    rules:
        - fr_rule
        - base_b
    group-by: [User]
    timespan: 30s
    condition:
        field: Image
        lt: 3
"""

BROKEN_RULES = CONV_BROKEN_RULES + r"""
---
title: Unknown modifier
id: aaaaaaaa-aaaa-4aaa-8aaa-aaaaaaaaaaaa
status: test
logsource:
    category: process_creation
    product: windows
detection:
    sel:
        Image|nosuchmodifier: x
    condition: sel
---
title: Bad correlation condition
id: bbbbbbbb-bbbb-4bbb-8bbb-bbbbbbbbbbbb
status: test
correlation:
    type: event_count
    rules:
        - base_b
    group-by: [User]
    timespan: 5m
    condition:
        gte: 10
        zeta: 1
        alpha: 2
        mid: 3
"""

PIPELINE = r"""
name: demo
priority: 10
vars:
    admins:
        - root
transformations:
    - id: map_fields
      type: field_name_mapping
      mapping:
          CommandLine:
              - cmdline
              - process.command_line
              - proc_cmd
          Image: process.executable
          User:
              - user.name
              - winlog.user
    - id: second_map
      type: field_name_mapping
      mapping:
          cmdline: [cl1, cl2]
          user.name: username
    - id: add_cond
      type: add_condition
      conditions:
          index: windows
          source|expand: "%src%"
      rule_conditions:
          - type: logsource
            category: process_creation
    - type: value_placeholders
      include: [src]
    - id: reject
      type: rule_failure
      message: file events are not supported
      rule_conditions:
          - type: logsource
            category: file_event
    - id: nested
      type: nest
      items:
          - id: inner_prefix
            type: field_name_prefix
            prefix: "evt."
            field_name_conditions:
                - type: include_fields
                  fields: [EventID, Initiated]
          - id: inner_suffix
            type: field_name_suffix
            suffix: ".keyword"
            field_name_conditions:
                - type: include_fields
                  fields: [ParentImage]
"""


def worker(seed: int) -> None:
    random.seed(seed)
    from sigma.backends.test import TextQueryTestBackend
    from sigma.collection import SigmaCollection
    from sigma.exceptions import SigmaError
    from sigma.processing.pipeline import ProcessingPipeline

    class DemoBackend(TextQueryTestBackend):
        field_equals_field_startswith_expression = None  # -> NotImplementedError on conversion

    out: list[str] = []

    def record(label: str, value: object) -> None:
        out.append(f"{label}: {value!r}")

    def msg(e: Exception) -> str:
        # "Conversion result not available in rule <repr of the whole rule>": the repr of a rule
        # shows its detections dict; only the part before it is compared here.
        return str(e).split(" in rule Sigma")[0]

    def pipeline() -> ProcessingPipeline:
        p = ProcessingPipeline.from_yaml(PIPELINE)
        p.vars["src"] = ["wineventlog", "sysmon"]
        return p

    def seen(rule, output_format, index, cond, result):  # conversion callback: order of calls
        record("  callback", (rule.title, output_format, index, result))
        return result

    for fmt in (None, "default", "test", "state", "str", "list_of_dict", "bytes"):
        for name, text, collect in (
            ("good", RULES, False),
            ("broken", BROKEN_RULES, True),
            ("broken", BROKEN_RULES, False),
            ("conversion-broken", CONV_BROKEN_RULES, True),
            ("conversion-broken", CONV_BROKEN_RULES, False),
        ):
            label = f"format={fmt} rules={name} collect_errors={collect}"
            try:
                collection = SigmaCollection.from_yaml(text, collect_errors=collect)
                backend = DemoBackend(pipeline(), collect_errors=collect)
                result = backend.convert(collection, fmt, callback=seen if fmt == "test" else None)
                record(label, result)
                record("  parse errors", [str(e) for e in collection.errors])
                record("  errors", [(r.title, type(e).__name__, msg(e)) for r, e in backend.errors])
                record(
                    "  per rule",
                    [
                        (r.title, getattr(r, "_conversion_result", None), r._output)
                        for r in collection.rules
                    ],
                )
                record(
                    "  applied",
                    sorted(backend.last_processing_pipeline.applied_ids),
                )
                record(
                    "  field mappings",
                    {
                        k: sorted(v)
                        for k, v in backend.last_processing_pipeline.field_mappings.items()
                    },
                )
            except (SigmaError, NotImplementedError) as e:
                record(label, (type(e).__name__, msg(e)))

    # The same backend object used for several formats and single rules, in sequence
    backend = TextQueryTestBackend(pipeline())
    collection = SigmaCollection.from_yaml(RULES)
    collection.resolve_rule_references()
    def attempt(label, call):
        try:
            record(label, call())
        except SigmaError as e:
            record(label, (type(e).__name__, msg(e)))

    # a correlation rule before its referenced rules were converted: error
    attempt("too early", lambda: backend.convert_correlation_rule(collection.rules[6], "test"))
    for fmt in ("test", "test", None, "str"):
        for rule in collection.rules[:5]:
            attempt(f"convert_rule {fmt} {rule.title}", lambda: backend.convert_rule(rule, fmt))
    attempt("correlation alone", lambda: backend.convert_correlation_rule(collection.rules[6], "test"))
    attempt("not generated", lambda: backend.convert_correlation_rule(collection.rules[5], None))
    attempt("method", lambda: backend.convert_correlation_rule(collection.rules[6], "str", "nosuch"))
    record("empty", TextQueryTestBackend().convert(SigmaCollection([])))

    text = "\n".join(out)
    assert "_cond_" not in text and "_filt_" not in text, "internal identifier leaked"
    print(text)


def main() -> None:
    digests = []
    first = None
    for hashseed, seed in (("0", 1), ("1", 2), ("4242", 3), ("random", 99), ("random", 12345)):
        env = dict(os.environ, PYTHONHASHSEED=hashseed)
        proc = subprocess.run(
            [sys.executable, __file__, "worker", str(seed)],
            env=env,
            capture_output=True,
            text=True,
        )
        if proc.returncode != 0:
            print(proc.stdout)
            print(proc.stderr)
            sys.exit(1)
        if first is None:
            first = proc.stdout
            print(first)
        digests.append(hashlib.sha256(proc.stdout.encode()).hexdigest())
        print(f"PYTHONHASHSEED={hashseed} random.seed={seed} sha256={digests[-1]}")
    assert len(set(digests)) == 1, "outputs differ between processes"
    print("all runs identical")


if __name__ == "__main__":
    if len(sys.argv) > 1 and sys.argv[1] == "worker":
        worker(int(sys.argv[2]))
    else:
        main()
