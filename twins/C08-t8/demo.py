"""Demo for property C08: a failing rule never changes other rules' output.

Run as: PYTHONPATH=/tmp/wt9-C08 /venv/bin/python demo.py
Prints everything it observes; output must be identical before and after the patch.
"""
import itertools
import sys

import sigma.types
from sigma.backends.test import TextQueryTestBackend
from sigma.collection import SigmaCollection
from sigma.exceptions import SigmaError
from sigma.processing.conditions import RuleContainsDetectionItemCondition
from sigma.processing.pipeline import ProcessingItem, ProcessingPipeline
from sigma.processing.transformations import (
    RuleFailureTransformation,
    SetStateTransformation,
)
from sigma.rule import SigmaRule

print("sigma imported from", sigma.types.__file__.rsplit("/sigma/", 1)[1])

HEAD = """
title: {title}
status: test
logsource:
    category: test
    product: demo
"""

RULES = {
    "ok_single": HEAD.format(title="ok_single")
    + """
detection:
    sel:
        fieldA: valueA
        fieldC: valueC
    condition: sel
""",
    "ok_multi": HEAD.format(title="ok_multi")
    + """
detection:
    sel1:
        fieldA: one
    sel2:
        fieldB|contains: two
    condition:
        - sel1
        - sel2
        - sel1 and not sel2
""",
    "ok_list": HEAD.format(title="ok_list")
    + """
detection:
    sel:
        fieldA:
            - a
            - b*
            - 3
    filter:
        fieldB|re: 'x.*y'
    condition: sel and not filter
""",
    "fail_pipeline": HEAD.format(title="fail_pipeline")
    + """
detection:
    sel:
        forbidden: boom
    condition: sel
""",
    "fail_placeholder": HEAD.format(title="fail_placeholder")
    + """
detection:
    sel:
        fieldA|expand: '%unresolved%'
    condition: sel
""",
    "fail_missing_detection": HEAD.format(title="fail_missing_detection")
    + """
detection:
    sel:
        fieldA: x
    condition:
        - sel
        - sel and nothere
""",
    "fail_unsupported": HEAD.format(title="fail_unsupported")
    + """
detection:
    sel:
        fieldA|fieldref|startswith: fieldB
    condition: sel
""",
}


class NoFieldRefStartswithBackend(TextQueryTestBackend):
    """Test backend that does not support startswith field references."""

    field_equals_field_startswith_expression = None

    def convert_condition_field_eq_field(self, cond, state):  # type: ignore[override]
        raise NotImplementedError("Field reference not supported by demo backend.")


def pipeline():
    return ProcessingPipeline(
        [
            ProcessingItem(SetStateTransformation("index", "demo"), identifier="set_state"),
            ProcessingItem(
                RuleFailureTransformation("rule contains forbidden field"),
                rule_conditions=[RuleContainsDetectionItemCondition("forbidden", "boom")],
                identifier="fail",
            ),
        ]
    )


def collection(names):
    return SigmaCollection([SigmaRule.from_yaml(RULES[name]) for name in names])


def show_error(err):
    return f"{type(err).__name__}: {err}"


def alone(name, with_pipeline, output_format):
    """Queries of one rule converted alone in a fresh collecting backend."""
    backend = NoFieldRefStartswithBackend(pipeline() if with_pipeline else None, collect_errors=True)
    rule = SigmaRule.from_yaml(RULES[name])
    queries = backend.convert_rule(rule, output_format)
    return queries, [(r.title, show_error(e)) for r, e in backend.errors]


def run(names, with_pipeline, output_format=None, callback=None, disable=()):
    label = (
        f"{'+'.join(names)} pipeline={with_pipeline} format={output_format} "
        f"callback={callback is not None} disabled={list(disable)}"
    )
    print("==", label)

    # collecting mode
    backend = NoFieldRefStartswithBackend(pipeline() if with_pipeline else None, collect_errors=True)
    coll = collection(names)
    for rule in coll.rules:
        if rule.title in disable:
            rule.disable_output()
    result = backend.convert(coll, output_format, callback=callback)
    print("  collected result:", repr(result))
    print("  errors:", [(r.title, show_error(e)) for r, e in backend.errors])
    for rule in coll.rules:
        try:
            stored = rule.get_conversion_result()
        except SigmaError as e:
            stored = "<" + type(e).__name__ + ">"
        print("  stored", rule.title, "->", repr(stored))

    # comparison with rules converted alone (only meaningful for list-like default output)
    if callback is None and output_format in (None, "default"):
        expected = []
        expected_errors = []
        for name in names:
            queries, errors = alone(name, with_pipeline, output_format)
            if name not in disable:
                expected.extend(queries)
            expected_errors.extend(errors)
        print("  equals per-rule conversions:", result == expected)
        print(
            "  errors equal per-rule errors:",
            [(r.title, show_error(e)) for r, e in backend.errors] == expected_errors,
        )
        assert result == expected
        assert [(r.title, show_error(e)) for r, e in backend.errors] == expected_errors
        assert len(backend.errors) == len({id(r) for r, _ in backend.errors})

    # raising mode
    backend = NoFieldRefStartswithBackend(pipeline() if with_pipeline else None)
    coll = collection(names)
    for rule in coll.rules:
        if rule.title in disable:
            rule.disable_output()
    try:
        raised = backend.convert(coll, output_format, callback=callback)
        print("  raising mode result:", repr(raised))
    except Exception as e:  # noqa: BLE001
        print("  raising mode raised:", show_error(e))
    print("  raising mode errors list:", backend.errors)


def drop_second(rule, output_format, index, cond, result):
    """Callback: drop the query of the second condition, tag all others."""
    if index == 1:
        return None
    return f"[{rule.title}#{index}/{output_format}] {result}"


OK = ["ok_single", "ok_multi", "ok_list"]
FAIL = ["fail_pipeline", "fail_placeholder", "fail_missing_detection", "fail_unsupported"]

# every single rule alone
for name in OK + FAIL:
    run([name], True)

# every failing rule in every position between two good rules
for bad in FAIL:
    for position in range(3):
        names = ["ok_single", "ok_multi"]
        names.insert(position, bad)
        run(names, True)

# several failures at once, all orders of a mixed triple
for names in itertools.permutations(["ok_list", "fail_placeholder", "fail_missing_detection"]):
    run(list(names), False)
run(FAIL, True)
run(OK + FAIL + OK, True)

# without pipeline (pipeline failure rule then converts fine)
run(["fail_pipeline", "ok_single", "fail_unsupported"], False)

# disabled output, callbacks, other output formats, empty collection
run(["ok_multi", "fail_placeholder", "ok_single"], True, disable=("ok_multi",))
run(["ok_multi", "fail_unsupported", "ok_single"], True, callback=drop_second)
run(["ok_multi", "fail_missing_detection", "ok_list"], True, output_format="test")
run(["ok_single", "fail_pipeline", "ok_multi"], True, output_format="state")
run(["ok_single", "fail_placeholder"], False, output_format="list_of_dict")
run(["ok_single", "ok_list"], False, output_format="default")
run([], True)

# the same rule object twice in one collection and a backend reused for two collections
backend = NoFieldRefStartswithBackend(pipeline(), collect_errors=True)
rule_ok = SigmaRule.from_yaml(RULES["ok_multi"])
rule_bad = SigmaRule.from_yaml(RULES["fail_placeholder"])
print("== repeated objects")
print("  ", backend.convert(SigmaCollection([rule_ok, rule_bad, rule_ok, rule_bad])))
print("  ", [(r.title, show_error(e)) for r, e in backend.errors])
print("  ", backend.convert(collection(["fail_unsupported", "ok_single"])))
print("  ", [(r.title, show_error(e)) for r, e in backend.errors])

# correlation rules go through convert_correlation_rule; a failing base rule or an
# unsupported correlation method is accounted for as well
CORRELATION = """
title: base rule
name: base_rule
status: test
logsource:
    category: test
detection:
    sel:
        fieldA: {value}
    condition: sel
---
title: correlation
status: test
correlation:
    type: event_count
    rules:
        - base_rule
    group-by:
        - fieldB
    timespan: 5m
    condition:
        gte: 10
---
title: trailing
status: test
logsource:
    category: test
detection:
    sel:
        fieldB: last
    condition: sel
"""
for value, method in (("plain", None), ("plain", "unknown_method"), ("'%unresolved%'", None)):
    for collect in (True, False):
        backend = NoFieldRefStartswithBackend(pipeline(), collect_errors=collect)
        text = CORRELATION.format(value=value)
        if value != "plain":
            text = text.replace("fieldA:", "fieldA|expand:")
        coll = SigmaCollection.from_yaml(text)
        print("== correlation", value, method, "collect=", collect)
        try:
            print("  ", backend.convert(coll, correlation_method=method))
        except Exception as e:  # noqa: BLE001
            print("   raised:", show_error(e))
        print("  ", [(r.title, show_error(e)) for r, e in backend.errors])

# unknown output format: error outside of the per-rule handling
try:
    NoFieldRefStartswithBackend(collect_errors=True).convert(collection(["ok_single"]), "nope")
except Exception as e:  # noqa: BLE001
    print("== unknown format:", show_error(e))

# callback raising a non-Sigma exception gets rule context added
def bad_callback(rule, output_format, index, cond, result):
    if rule.title == "ok_multi" and index == 2:
        raise ValueError("callback broke")
    return result


for collect in (True, False):
    backend = NoFieldRefStartswithBackend(pipeline(), collect_errors=collect)
    try:
        print("== bad callback:", backend.convert(collection(OK), callback=bad_callback))
    except Exception as e:  # noqa: BLE001
        print("== bad callback raised:", show_error(e), "| errors:", backend.errors)


# non-Sigma exceptions with several, one unusual or no arguments at each stage
class Weird(Exception):
    pass


def raising_callback(exc):
    def cb(rule, output_format, index, cond, result):
        if rule.title == "ok_multi" and index == 1:
            raise exc
        return result

    return cb


for make in (
    lambda: Weird("first", "second", 3),
    lambda: KeyError("missing key"),
    lambda: OSError(2, "No such thing"),
    lambda: Weird(),
    lambda: NotImplementedError("callback feature", "extra"),
    lambda: NotImplementedError(),
):
    for collect in (True, False):
        backend = NoFieldRefStartswithBackend(pipeline(), collect_errors=collect)
        exc = make()
        try:
            out = backend.convert(collection(OK + ["fail_placeholder"]), callback=raising_callback(exc))
            print("== raising callback", repr(exc), "collect=", collect, "->", out)
        except Exception as e:  # noqa: BLE001
            print(
                "== raising callback collect=", collect, "raised:", type(e).__name__, repr(e.args),
                "same object:", e is exc, "context:", repr(e.__context__),
            )
        print("   errors:", [(r.title, show_error(e)) for r, e in backend.errors])


class FailingFinalizeBackend(NoFieldRefStartswithBackend):
    def finalize_query_default(self, rule, query, index, state):
        if rule.title == "ok_list":
            raise NotImplementedError("cannot finalize")
        if rule.title == "ok_multi" and index == 2:
            raise ZeroDivisionError("finalize", "broke")
        return super().finalize_query_default(rule, query, index, state)


for collect in (True, False):
    for names in (["ok_single", "ok_list", "ok_multi"], ["ok_single", "ok_list"]):
        backend = FailingFinalizeBackend(pipeline(), collect_errors=collect)
        try:
            print("== failing finalize", names, collect, "->", backend.convert(collection(names)))
        except Exception as e:  # noqa: BLE001
            print("== failing finalize", names, collect, "raised:", type(e).__name__, repr(e.args))
        print("   errors:", [(r.title, show_error(e)) for r, e in backend.errors])

sys.exit(0)
