"""Demo for C05/t8: SigmaString.convert and its users (to_regex, convert_value_str) on many inputs."""
import itertools
import random
import re

from sigma.backends.test import TextQueryTestBackend
from sigma.conversion.state import ConversionState
from sigma.exceptions import SigmaError
from sigma.types import Placeholder, SigmaString, SpecialChars


def show(label, fn):
    try:
        print(label, "->", repr(fn()))
    except Exception as e:  # exception class and message are part of the behaviour
        print(label, "-> EXC", type(e).__name__, str(e))


CONFIGS = [
    dict(),
    dict(escape_char="\\", wildcard_multi="*", wildcard_single="?", add_escaped="\"'", filter_chars=""),
    dict(escape_char="\\", wildcard_multi="%", wildcard_single="_", add_escaped="'\\", filter_chars=";"),
    dict(escape_char="^", wildcard_multi=".*", wildcard_single=".", add_escaped="+[]", filter_chars="a\\"),
    dict(escape_char=None, wildcard_multi="*", wildcard_single="?", add_escaped="", filter_chars=""),
    dict(escape_char=None, wildcard_multi="*", wildcard_single=None, add_escaped="x", filter_chars="*"),
    dict(escape_char=None, wildcard_multi=None, wildcard_single=None, add_escaped="", filter_chars=""),
    dict(escape_char="\\", wildcard_multi=None, wildcard_single="?", add_escaped="", filter_chars="?"),
    dict(escape_char="", wildcard_multi="**", wildcard_single="??", add_escaped="*", filter_chars=""),
    dict(escape_char="\\\\", wildcard_multi="*", wildcard_single="?", add_escaped="a'\u00e9\U0001f600", filter_chars="b\U0001f600"),
    dict(escape_char="'", wildcard_multi="*", wildcard_single="?", add_escaped="'", filter_chars="'"),
]

FIXED = [
    "", "abc", "*", "?", "\\", "\\\\", "\\*", "\\?", "a*b?c", "*a*", "\\\\*", "\\\\\\*", "a\\", "a\\b",
    "it's \"quoted\"", "50% off_", "x;y;z", "a.b+c[d]", "^$(){}|", "\u00e9\U0001f600b*", "aaa", "''", "a'b*'",
    "ends with esc \\", " lead*trail ", "\t\n*",
]

print("== convert: fixed strings x configurations")
for s in FIXED:
    for i, cfg in enumerate(CONFIGS):
        show(f"convert[{i}] {s!r}", lambda: SigmaString(s).convert(**cfg))

print("== convert: exhaustive short strings over small alphabet")
ALPHABET = "\\*?a'x"
for n in range(0, 4):
    for tup in itertools.product(ALPHABET, repeat=n):
        s = "".join(tup)
        for i in (1, 3, 5, 8, 10):
            show(f"convert[{i}] {s!r}", lambda: SigmaString(s).convert(**CONFIGS[i]))

print("== convert: random long strings")
rnd = random.Random(20260926)
LONG_ALPHABET = "\\*?\"'%_;.+[]^$(){}|ab \u00e9\U0001f600"
for _ in range(150):
    s = "".join(rnd.choice(LONG_ALPHABET) for _ in range(rnd.randint(7, 25)))
    i = rnd.randrange(len(CONFIGS))
    show(f"convert[{i}] {s!r}", lambda: SigmaString(s).convert(**CONFIGS[i]))

print("== convert: positional arguments, placeholders, foreign parts, order of errors")
show("positional", lambda: SigmaString("a*b'c;").convert("\\", "%", "_", "'", ";"))
ph = SigmaString("a%var%*b").insert_placeholders()
show("placeholder", lambda: ph.convert())
bad = SigmaString("x")
bad.s = ["a", 5, SpecialChars.WILDCARD_MULTI]
show("foreign part", lambda: bad.convert())
first_err = SigmaString("x")
first_err.s = ["ok", SpecialChars.WILDCARD_SINGLE, "x*y", Placeholder("p")]
show("wildcard before char", lambda: first_err.convert(escape_char=None, wildcard_single=None, add_escaped="x"))
show("char before placeholder", lambda: first_err.convert(escape_char=None, add_escaped="x"))
show("filtered char hides error", lambda: first_err.convert(escape_char=None, add_escaped="x", filter_chars="x"))
fs = SigmaString.from_str("raw*?\\")
show("from_str", lambda: fs.convert())
show("from_str add_escaped", lambda: fs.convert(add_escaped="\\"))
orig = SigmaString("a*b?c")
before = (list(orig.s), orig.original)
orig.convert(add_escaped="b", filter_chars="c")
print("unchanged by convert:", before == (list(orig.s), orig.original))

print("== to_regex and regex semantics")
SUBJECTS = ["", "a", "ab", "a.b", "a*b", "axb", "a\\b", "a+b", "a?b", "aXXb", "(a)", "[a]", "a|b", "^a$", "~a"]
for s in FIXED + ["a.b", "a+b", "(a)", "[a]", "a|b", "^a$", "a?b", "a\\?b", "~a", "a*b"]:
    for custom in ("", "~/", "a"):
        try:
            r = SigmaString(s).to_regex(custom)
            matches = [t for t in SUBJECTS if re.fullmatch(str(r.regexp), t, re.DOTALL)] if custom != "a" else None
            print(f"to_regex {s!r} custom={custom!r} -> {str(r.regexp)!r} {r.regexp.s!r} matches={matches}")
        except Exception as e:
            print(f"to_regex {s!r} custom={custom!r} -> EXC", type(e).__name__, str(e))

print("== backend convert_value_str / quoting")


class PercentBackend(TextQueryTestBackend):
    escape_char = "\\"
    wildcard_multi = "%"
    wildcard_single = "_"
    str_quote = "'"
    add_escaped = "\\"
    filter_chars = ";"
    str_quote_pattern = re.compile(r"^\w+$")
    str_quote_pattern_negation = True


class NoEscapeBackend(TextQueryTestBackend):
    escape_char = None
    str_quote = ""
    add_escaped = "|"


state = ConversionState()
for cls in (TextQueryTestBackend, PercentBackend, NoEscapeBackend):
    backend = cls()
    for s in FIXED + ["a|b", "plain_word", "two words"]:
        show(f"{cls.__name__}.convert_value_str {s!r}", lambda: backend.convert_value_str(SigmaString(s), state))

print("== round trip of the plain form")
for s in FIXED:
    v = SigmaString(s)
    print(repr(s), "->", repr(v.to_plain()), SigmaString(v.to_plain()) == v)
