"""Reference resolution of correlation rules under every document order (property C09)."""
import itertools
import tempfile
from pathlib import Path

import yaml

from sigma.backends.test import TextQueryTestBackend
from sigma.collection import SigmaCollection
from sigma.correlations import (
    SigmaCorrelationFieldAlias,
    SigmaCorrelationRule,
    SigmaRuleReference,
)
from sigma.exceptions import SigmaError

ID_A = "0e95725d-7320-415d-80f7-004da920fc11"
ID_B = "0e95725d-7320-415d-80f7-004da920fc12"


def plain(title, name=None, id=None, field="f", value="v"):
    d = {
        "title": title,
        "logsource": {"category": "test"},
        "detection": {"sel": {field: value}, "condition": "sel"},
    }
    if name:
        d["name"] = name
    if id:
        d["id"] = id
    return d


def corr(title, rules, name=None, generate=None, type="event_count", condition=None, aliases=None,
         group_by=("user",)):
    c = {"type": type, "timespan": "5m", "group-by": list(group_by)}
    if rules is not None:
        c["rules"] = rules
    if condition is not None:
        c["condition"] = condition
    elif type == "event_count":
        c["condition"] = {"gte": 3}
    if generate is not None:
        c["generate"] = generate
    if aliases is not None:
        c["aliases"] = aliases
    d = {"title": title, "correlation": c}
    if name:
        d["name"] = name
    return d


RULESETS = {
    "by_name_nogen": [plain("A", "a"), plain("U"), corr("C", ["a"])],
    "by_name_gen": [plain("A", "a"), plain("U"), corr("C", ["a"], generate=True)],
    "by_id": [plain("A", id=ID_A), plain("B", "b", ID_B), corr("C", [ID_A, "b"], type="temporal")],
    "gen_and_nogen": [plain("A", "a"), corr("C1", ["a"], generate=True), corr("C2", ["a"])],
    "chain3": [
        plain("A", "a"),
        plain("B", "b", field="g"),
        corr("C1", ["a", "b"], name="c1", type="temporal"),
        corr("C2", ["c1"], name="c2", generate=True),
        corr("C3", ["c2"], name="c3"),
        plain("U"),
    ],
    "aliases": [
        plain("A", "a"),
        plain("B", "b", field="g"),
        corr("C", ["a", "b"], type="temporal",
             aliases={"user": {"a": "UserA", "b": "UserB"}}, generate=True),
    ],
    "alias_missing": [
        plain("A", "a"),
        corr("C", ["a"], aliases={"user": {"a": "UserA", "nope": "UserB"}}),
    ],
    "extended_no_list": [
        plain("A", "a"),
        plain("B", "b", field="g"),
        corr("C", None, type="temporal", condition="a and not b"),
    ],
    "missing": [plain("A", "a"), corr("C", ["a", "ghost"], type="temporal")],
    "missing_first": [plain("A", "a"), corr("C", ["ghost", "a"], type="temporal", generate=True)],
    "self_reference": [plain("A", "a"), corr("C", ["a", "c"], name="c", type="temporal")],
    "twice": [plain("A", "a"), corr("C", ["a", "a"], type="temporal")],
}


def describe(collection):
    lines = []
    for rule in collection.rules:
        lines.append(
            "    %-3s output=%-5s disabled_by_ref=%-5s backrefs=%s refs=%s"
            % (
                rule.title,
                rule._output,
                rule._output_disabled_by_reference,
                [r.title for r in rule._backreferences],
                [(r.reference, r.rule.title) for r in rule.referenced_rules]
                if isinstance(rule, SigmaCorrelationRule)
                else "-",
            )
        )
        if isinstance(rule, SigmaCorrelationRule):
            for alias in rule.aliases:
                lines.append(
                    "        alias %s -> %s"
                    % (alias.alias, [(k.reference, k.rule.title, v) for k, v in alias.mapping.items()])
                )
    return lines


def load_from_yaml(docs):
    return SigmaCollection.from_yaml("\n---\n".join(yaml.safe_dump(d) for d in docs))


def load_from_dicts(docs):
    return SigmaCollection.from_dicts([yaml.safe_load(yaml.safe_dump(d)) for d in docs])


def load_merge(docs):
    return SigmaCollection.merge(
        [
            SigmaCollection.from_dicts([yaml.safe_load(yaml.safe_dump(d))], resolve_references=False)
            for d in docs
        ]
    )


def load_ruleset(docs):
    with tempfile.TemporaryDirectory() as tmp:
        for i, d in enumerate(docs):
            (Path(tmp) / ("%02d.yml" % i)).write_text(yaml.safe_dump(d))
        paths = [Path(tmp) / ("%02d.yml" % i) for i in range(len(docs))]
        return SigmaCollection.load_ruleset(paths)


LOADERS = [load_from_yaml, load_from_dicts, load_merge, load_ruleset]


def outcome(loader, docs):
    try:
        collection = loader(docs)
    except SigmaError as e:
        return ["    load error %s: %s" % (type(e).__name__, str(e).split(" in ")[0])], None
    lines = describe(collection)
    try:
        queries = TextQueryTestBackend().convert(collection)
        lines.append("    queries: %s" % sorted(queries))
    except SigmaError as e:
        lines.append("    convert error %s" % type(e).__name__)
    except RecursionError:
        lines.append("    convert RecursionError")
    return lines, collection


for name, docs in RULESETS.items():
    print("== rule set", name)
    perms = list(itertools.permutations(range(len(docs))))
    if len(perms) > 24:
        perms = perms[:: len(perms) // 24]
    for perm in perms:
        for loader in LOADERS:
            lines, _ = outcome(loader, [docs[i] for i in perm])
            print("  order", perm, loader.__name__)
            print("\n".join(lines))

# Re-resolution of the same rule objects in a second collection and after changing "generate".
print("== re-resolution")
collection = load_from_dicts(RULESETS["chain3"])
print("\n".join(describe(collection)))
by_title = {r.title: r for r in collection.rules}
by_title["C1"].generate = True
by_title["C2"].generate = False
collection.resolve_rule_references()
print("  after swapping generate of C1 and C2")
print("\n".join(describe(collection)))
smaller = SigmaCollection([by_title["C1"], by_title["B"], by_title["A"]])
print("  C1, B, A in a new collection")
print("\n".join(describe(smaller)))
by_title["A"].disable_output()
smaller.resolve_rule_references()
print("  A explicitly disabled")
print("\n".join(describe(smaller)))

# Partial effects when a later reference is missing.
print("== partial effects of a failing resolution")
a = SigmaCollection.from_dicts([plain("A", "a")]).rules[0]
c = SigmaCorrelationRule.from_dict(corr("C", ["a", "ghost", "a"], type="temporal"))
try:
    SigmaCollection([c, a])
except SigmaError as e:
    print("  ", type(e).__name__, e)
print("   A output=%s backrefs=%s" % (a._output, [r.title for r in a._backreferences]))
print("   C refs resolved:", [(r.reference, hasattr(r, "rule")) for r in c.referenced_rules])

# The alias object on its own.
print("== field alias on its own")
coll = SigmaCollection.from_dicts([plain("A", "a"), plain("B", id=ID_B)])
alias = SigmaCorrelationFieldAlias("user", {SigmaRuleReference("a"): "x", SigmaRuleReference(ID_B): "y"})
alias.resolve_rule_references(coll)
print("  ", [(k.reference, k.rule.title, v) for k, v in alias.mapping.items()])
alias = SigmaCorrelationFieldAlias("user", {SigmaRuleReference("a"): "x", SigmaRuleReference("zz"): "y",
                                            SigmaRuleReference(ID_B): "z"})
try:
    alias.resolve_rule_references(coll)
except SigmaError as e:
    print("  ", type(e).__name__, e)
print("  ", [(k.reference, hasattr(k, "rule")) for k in alias.mapping])
empty = SigmaCorrelationFieldAlias("none", {})
print("  ", empty.resolve_rule_references(coll))
