"""
Demo for property C13: a pipeline item acts exactly where its conditions hold, and conditions on
earlier items' application / pipeline state observe exactly the items applied so far.

Prints which detection items / fields / rules carry the marker after ProcessingPipeline.apply() and
the per-rule bookkeeping of the pipeline.
"""

from collections import defaultdict

from sigma.collection import SigmaCollection
from sigma.exceptions import SigmaProcessingItemError
from sigma.processing.conditions import (
    FieldNameProcessingItemAppliedCondition,
    IncludeFieldCondition,
    MatchStringCondition,
)
from sigma.processing.pipeline import ProcessingItem, ProcessingPipeline
from sigma.processing.tracking import ProcessingItemTrackingMixin
from sigma.processing.transformations import (
    AddFieldnameSuffixTransformation,
    FieldMappingTransformation,
)
from sigma.rule import SigmaDetection, SigmaDetectionItem, SigmaRule

RULES = {
    "win_proc": """
title: Windows process
status: test
logsource:
    category: process_creation
    product: windows
tags:
    - attack.t1059
detection:
    sel:
        CommandLine|contains: "whoami"
        Image|endswith: "\\\\cmd.exe"
        ParentImage|fieldref: Image
    flt:
        User: null
        IntegrityLevel:
            - System
            - "Hi*gh"
    condition: sel and not flt
fields:
    - CommandLine
    - User
    - Other
""",
    "linux_net": """
title: Linux network
status: stable
logsource:
    category: network_connection
    product: linux
detection:
    sel:
        - DestinationPort: 4444
        - Image: /usr/bin/nc
    kw:
        - plainkeyword
    condition: sel or kw
fields:
    - Image
""",
    "no_fields": """
title: Nothing much
logsource:
    service: sysmon
detection:
    sel:
        EventID: 1
    condition: sel
""",
}

PIPELINES = {
    "no_conditions": """
name: no conditions
transformations:
    - id: mark
      type: field_name_suffix
      suffix: "_M"
""",
    "rule_gate_list_and_or_not": """
transformations:
    - id: st
      type: set_state
      key: os
      val: win
      rule_conditions:
        - type: logsource
          product: windows
    - id: mark_and
      type: field_name_suffix
      suffix: "_A"
      rule_conditions:
        - type: logsource
          product: windows
        - type: processing_state
          key: os
          val: win
    - id: mark_or_not
      type: field_name_suffix
      suffix: "_N"
      rule_cond_op: or
      rule_cond_not: true
      rule_conditions:
        - type: processing_item_applied
          processing_item_id: mark_and
        - type: processing_state
          key: os
          val: lin
    - id: after
      type: field_name_suffix
      suffix: "_Z"
      rule_conditions:
        - type: processing_item_applied
          processing_item_id: mark_or_not
""",
    "expressions_and_dict_form": """
transformations:
    - id: map
      type: field_name_mapping
      mapping:
        Image: [process.executable, process.name]
        CommandLine: process.command_line
        User: User
      field_name_conditions:
        inc:
          type: include_fields
          fields: [Image, CommandLine, User]
        st:
          type: processing_state
          key: never
          val: 1
      field_name_cond_expr: inc and not st
    - id: mark_mapped
      type: field_name_suffix
      suffix: "_P"
      field_name_conditions:
        a:
          type: processing_item_applied
          processing_item_id: map
        b:
          type: include_fields
          fields: ["^process\\\\.name$"]
          mode: re
      field_name_cond_expr: a and not b
    - id: mark_values
      type: field_name_suffix
      suffix: "_V"
      detection_item_conditions:
        s:
          type: match_string
          cond: any
          pattern: "^(whoami|System)$"
        n:
          type: is_null
          cond: all
        p:
          type: processing_item_applied
          processing_item_id: mark_mapped
      detection_item_cond_expr: (s or n) and not p
    - id: mark_dict_without_expr
      type: field_name_suffix
      suffix: "_D"
      rule_conditions:
        x:
          type: is_sigma_rule
        y:
          type: tag
          tag: attack.t1059
      detection_item_conditions:
        w:
          type: contains_wildcard
          cond: any
      detection_item_cond_not: true
      field_name_conditions:
        e:
          type: exclude_fields
          fields: [DestinationPort]
      field_name_cond_op: or
""",
    "nested_and_state": """
transformations:
    - id: outer_state
      type: set_state
      key: level
      val: 3
    - id: nest
      type: nest
      rule_conditions:
        - type: processing_state
          key: level
          val: 2
          op: gt
      items:
        - id: inner_map
          type: field_name_mapping
          mapping:
            Image: img
          rule_conditions:
            - type: processing_state
              key: level
              val: 3
        - id: inner_state
          type: set_state
          key: inner
          val: done
        - type: field_name_suffix
          suffix: "_I"
          field_name_conditions:
            - type: processing_item_applied
              processing_item_id: inner_map
    - id: after_nest
      type: field_name_suffix
      suffix: "_O"
      rule_conditions:
        - type: processing_state
          key: inner
          val: done
        - type: processing_item_applied
          processing_item_id: inner_map
      field_name_conditions:
        - type: processing_item_applied
          processing_item_id: inner_map
      field_name_cond_not: true
postprocessing:
    - id: post_embed
      type: embed
      prefix: "["
      suffix: "]"
      rule_conditions:
        - type: processing_item_applied
          processing_item_id: after_nest
    - type: embed
      prefix: "<"
      suffix: ">"
      rule_conditions:
        - type: logsource
          product: linux
""",
}


def show_detection(detection, indent="    "):
    for item in detection.detection_items:
        if isinstance(item, SigmaDetection):
            print(f"{indent}(")
            show_detection(item, indent + "  ")
            print(f"{indent})")
        else:
            print(
                f"{indent}{item.field!r} = {[str(v) for v in item.value]} "
                f"applied={sorted(item.applied_processing_items)}"
            )


def show_pipeline_state(pipeline):
    print("  applied:", pipeline.applied)
    print("  applied_ids:", sorted(pipeline.applied_ids))
    print(
        "  field_name_applied_ids:",
        type(pipeline.field_name_applied_ids).__name__,
        {k: sorted(v) for k, v in sorted(pipeline.field_name_applied_ids.items())},
    )
    print("  field_mappings:", {k: sorted(v) for k, v in pipeline.field_mappings.items()})
    print("  state:", pipeline.state)


def run(pipeline_name, rule_name):
    print(f"=== pipeline {pipeline_name} on rule {rule_name}")
    pipeline = ProcessingPipeline.from_yaml(PIPELINES[pipeline_name])
    rule = SigmaRule.from_yaml(RULES[rule_name])
    for round_no in (1, 2):  # second round on a fresh rule: bookkeeping must start from scratch
        rule = SigmaRule.from_yaml(RULES[rule_name])
        pipeline.apply(rule)
        print(f" round {round_no}")
        print("  rule applied:", sorted(rule.applied_processing_items))
        for name, detection in rule.detection.detections.items():
            print(f"  detection {name}:")
            show_detection(detection)
        print("  fields:", rule.fields)
        show_pipeline_state(pipeline)
        query = pipeline.postprocess_query(rule, "QUERY")
        print("  postprocessed:", query, "applied_ids:", sorted(pipeline.applied_ids))


def low_level():
    print("=== low level bookkeeping")
    pipeline = ProcessingPipeline()
    print("initial:", pipeline.applied, pipeline.applied_ids, dict(pipeline.field_name_applied_ids))
    # apply with an initial state: copied, not shared
    initial = {"k": [1]}
    rule = SigmaRule.from_yaml(RULES["no_fields"])
    pipeline.apply(rule, initial)
    print("state copy:", pipeline.state, pipeline.state is initial, pipeline.state["k"] is initial["k"])
    pipeline.apply(rule, {})
    print("empty state:", pipeline.state)
    try:
        pipeline.apply(rule, 5)
    except Exception as e:
        print("bad state:", type(e).__name__, e, pipeline.applied, pipeline.applied_ids)

    # field name tracking
    pipeline.apply(rule)
    print("None field:", pipeline.field_was_processed_by(None, "x"), dict(pipeline.field_name_applied_ids))
    print("unknown field:", pipeline.field_was_processed_by("f", "x"), dict(pipeline.field_name_applied_ids))
    pipeline.track_field_processing_items("f", ["f"], "same")
    print("same:", dict(pipeline.field_name_applied_ids))
    pipeline.track_field_processing_items("f", ["g", "h", "g"], "i1")
    print("f->g,h,g:", {k: sorted(v) for k, v in pipeline.field_name_applied_ids.items()})
    print("sets distinct:", pipeline.field_name_applied_ids["g"] is not pipeline.field_name_applied_ids["h"])
    pipeline.track_field_processing_items("g", ["g", "k"], None)
    print("g->g,k (no id):", {k: sorted(v) for k, v in pipeline.field_name_applied_ids.items()})
    pipeline.track_field_processing_items("h", [], "i2")
    print("h->[]:", {k: sorted(v) for k, v in pipeline.field_name_applied_ids.items()})
    pipeline.track_field_processing_items("k", "xy", "i3")
    print("k->'xy':", {k: sorted(v) for k, v in pipeline.field_name_applied_ids.items()})
    for f in ("g", "k", "x", "y", "zz", None):
        print(" ", f, [pipeline.field_was_processed_by(f, i) for i in ("i1", "i2", "i3", "")])
    print("after queries:", {k: sorted(v) for k, v in pipeline.field_name_applied_ids.items()})
    try:
        pipeline.track_field_processing_items("g", ["ok", ["bad"]], "i4")
    except Exception as e:
        print("unhashable:", type(e).__name__, e, {k: sorted(v) for k, v in pipeline.field_name_applied_ids.items()})
    pipeline.field_name_applied_ids = {}
    try:
        pipeline.track_field_processing_items("a", ["b"], "i")
    except Exception as e:
        print("plain dict:", type(e).__name__, repr(e))
    try:
        pipeline.field_was_processed_by("a", "i")
    except Exception as e:
        print("plain dict query:", type(e).__name__, repr(e))

    # tracking mixin
    class Item:
        def __init__(self, identifier):
            self.identifier = identifier

    det_item = SigmaDetectionItem.from_mapping("a", "v")
    for it in (None, Item(None), Item(""), Item("x"), Item("x"), Item("y")):
        det_item.add_applied_processing_item(it)
        print("mixin:", sorted(det_item.applied_processing_items))
    print("was_processed_by:", [det_item.was_processed_by(i) for i in ("x", "", "z")])
    try:
        det_item.add_applied_processing_item(object())
    except Exception as e:
        print("no identifier attr:", type(e).__name__, e)

    # identifiers that are falsy / items without identifier are not recorded in applied_ids
    item = ProcessingItem(AddFieldnameSuffixTransformation("_x"), identifier="keep")
    item2 = ProcessingItem(AddFieldnameSuffixTransformation("_y"))
    generated = item2.identifier
    item2.identifier = ""
    item3 = ProcessingItem(AddFieldnameSuffixTransformation("_z"))
    item3.identifier = None
    p = ProcessingPipeline([item, item2, item3])
    rule = SigmaRule.from_yaml(RULES["no_fields"])
    p.apply(rule)
    print("falsy ids:", p.applied, sorted(p.applied_ids), len(generated))
    show_detection(rule.detection.detections["sel"])


def binding():
    print("=== pipeline binding of conditions")
    def mk():
        inc = IncludeFieldCondition(["a"])
        fa = FieldNameProcessingItemAppliedCondition("m")
        ms = MatchStringCondition(cond="any", pattern="x")
        item = ProcessingItem(
            FieldMappingTransformation({"a": "b"}),
            identifier="m",
            detection_item_conditions={"ms": ms},
            detection_item_condition_linking=any,
            field_name_conditions=[inc, fa],
        )
        return item, (ms, inc, fa)

    item, conds = mk()
    print("unbound:", [c._pipeline is None for c in conds], item.detection_item_conditions)
    try:
        conds[2].match_field_name("a")
    except SigmaProcessingItemError as e:
        print("unbound match:", e)
    p1 = ProcessingPipeline([item])
    print("bound:", [c._pipeline is p1 for c in conds])
    try:
        item.set_pipeline(p1)
    except SigmaProcessingItemError as e:
        print("again:", e)
    item2, conds2 = mk()
    conds2[1]._pipeline = p1  # pre-bound condition in the middle: binding stops there
    try:
        ProcessingPipeline([item2])
    except SigmaProcessingItemError as e:
        print("partially:", e, [c._pipeline is None for c in conds2], item2._pipeline is None)
    item3, conds3 = mk()
    p3 = ProcessingPipeline([item3], name="p3")
    combined = p1 + p3
    print(
        "combined:",
        [c._pipeline is combined for c in conds + conds3],
        p1.items[0]._pipeline is combined,
        combined.name,
    )
    rule = SigmaRule.from_yaml(
        """
title: t
logsource:
    category: c
detection:
    sel:
        a: x
        c|fieldref: a
        d: y
    condition: sel
fields: [a, d]
"""
    )
    combined.apply(rule)
    show_detection(rule.detection.detections["sel"])
    print("fields:", rule.fields)
    show_pipeline_state(combined)
    print("processed:", [combined.field_was_processed_by(f, "m") for f in ("a", "b", "d", None)])


def collection():
    print("=== one pipeline, several rules in sequence")
    pipeline = ProcessingPipeline.from_yaml(PIPELINES["rule_gate_list_and_or_not"])
    coll = SigmaCollection.from_yaml("\n---\n".join(RULES.values()))
    for rule in coll.rules:
        pipeline.apply(rule)
        print(rule.title, sorted(rule.applied_processing_items))
        show_pipeline_state(pipeline)


if __name__ == "__main__":
    for pname in PIPELINES:
        for rname in RULES:
            run(pname, rname)
    low_level()
    binding()
    collection()
