"""
Demo for t1: modifier application loop and type check.

Builds detection items with SigmaDetectionItem.from_mapping() for many value x modifier chain
combinations (admissible and inadmissible) and prints value, value linking and negation or the
raised exception class and message.
"""

import itertools
import sys

from sigma.exceptions import SigmaError
from sigma.modifiers import SigmaModifier, modifier_mapping
from sigma.rule import SigmaDetectionItem
from sigma.types import (
    SigmaBool,
    SigmaExpansion,
    SigmaNull,
    SigmaNumber,
    SigmaRegularExpression,
    SigmaString,
)


def describe(v):
    """Description of a value that shows class and content, recursively."""
    if isinstance(v, list):
        return "[" + ", ".join(describe(i) for i in v) + "]"
    if isinstance(v, SigmaExpansion):
        return "Expansion" + describe(v.values)
    if isinstance(v, SigmaString):
        return f"{type(v).__name__}({v.s!r})"
    if isinstance(v, SigmaRegularExpression):
        return f"Re({v.regexp.s!r}, {sorted(f.name for f in v.flags)})"
    return repr(v)


def run(key, value):
    try:
        item = SigmaDetectionItem.from_mapping(key, value)
    except SigmaError as e:
        return f"{type(e).__name__}: {e}"
    return (
        f"value={describe(item.value)} linking={item.value_linking.__name__} "
        f"negated={item.negated} original={describe(item.original_value)}"
    )


VALUES = [
    "abc",
    "",
    "*abc*",
    "a*b?c",
    "\\*abc\\*",
    "abc\\",
    "abc\\\\*",
    "-param -other/x a-b /c",
    "%var% and \\%not% 100%",
    "päß–ö",
    "192.168.0.0/16",
    "foo.*bar$",
    "^foo\\",
    1,
    0,
    -3,
    2.5,
    True,
    False,
    None,
    ["abc", "d*f"],
    ["-a", 5, None],
    [],
    [1, 2.5],
    [True],
    ["%a%%b%", "x\\%y%"],
]

# every single modifier, then a selection of chains of length 2 to 4 which involve list
# modifiers, expansions flowing through later modifiers and inadmissible combinations
SINGLE = sorted(modifier_mapping)
CHAINS = (
    [()]
    + [(m,) for m in SINGLE]
    + list(itertools.product(("all", "neq", "windash", "base64offset", "expand"), repeat=2))
    + [
        ("windash", "contains", "all"),
        ("all", "windash", "contains"),
        ("base64offset", "contains"),
        ("base64offset", "windash"),
        ("windash", "base64offset"),
        ("windash", "base64offset", "contains", "all"),
        ("wide", "base64offset", "contains"),
        ("utf16", "base64", "endswith"),
        ("contains", "all", "neq"),
        ("neq", "contains", "cased"),
        ("re", "i", "m", "s"),
        ("re", "contains"),
        ("re", "expand", "startswith"),
        ("contains", "re"),
        ("windash", "re"),
        ("cidr", "contains"),
        ("contains", "cidr"),
        ("lt", "gt"),
        ("all", "lt"),
        ("exists", "all"),
        ("all", "exists"),
        ("fieldref", "startswith", "endswith"),
        ("windash", "fieldref"),
        ("windash", "cased", "contains"),
        ("expand", "windash", "contains"),
        ("minute", "gt"),
        ("gt", "minute"),
        ("contains", "unknown"),
        ("windash", "i"),
        ("base64offset", "lt"),
    ]
)


def type_check_table():
    """Direct calls of SigmaModifier.type_check() with explicit types."""
    item = SigmaDetectionItem("f", [], [SigmaString("x")])
    mod = modifier_mapping["contains"](item, [])
    samples = [
        SigmaString("a"),
        SigmaNumber(1),
        SigmaBool(True),
        SigmaNull(),
        SigmaRegularExpression("a"),
        [SigmaString("a"), SigmaString("b")],
        [SigmaString("a"), SigmaNumber(2)],
        [],
        "plain",
    ]
    from typing import Any, Union

    types_ = [
        None,
        Any,
        SigmaString,
        SigmaString | SigmaNumber,
        Union[SigmaBool, SigmaNull],
        list[SigmaString],
        list[SigmaString | SigmaNumber],
        list[Any],
        dict[str, int],
    ]
    for t in types_:
        print(
            f"type_check {t!r}: "
            + " ".join(str(mod.type_check(s, explicit_type=t)) for s in samples)
        )
    for name in SINGLE:
        m = modifier_mapping[name](item, [])
        print(f"hint {name}: {m._get_modify_type_hint()!r} twice-same={m._get_modify_type_hint() is m._get_modify_type_hint()}")
    print("cache keys:", sorted(c.__name__ for c in SigmaModifier._type_hint_cache))


def direct_apply():
    """Direct calls of apply() with nested expansions."""
    item = SigmaDetectionItem("f", [], [SigmaString("x")])
    nested = SigmaExpansion(
        [SigmaString("-a"), SigmaExpansion([SigmaString("b"), SigmaString("/c d")])]
    )
    for name in ("contains", "windash", "base64offset", "cased", "all", "lt"):
        mod = modifier_mapping[name](item, [])
        try:
            print(f"apply {name}: {describe(mod.apply(nested))}")
        except SigmaError as e:
            print(f"apply {name}: {type(e).__name__}: {e}")
    lst = [SigmaString("a"), SigmaNumber(1)]
    res = modifier_mapping["all"](item, []).apply(lst)
    print("list modifier result is new list:", res is not lst, describe(res))
    print("item after all:", item.value_linking.__name__, item.negated)


def main():
    for value in VALUES:
        for chain in CHAINS:
            for field in ("field", ""):
                key = "|".join((field,) + chain)
                print(f"{key!r} {value!r} -> {run(key, value)}")
    print(run(None, "keyword*"))
    print(run(None, ["k1", 2]))
    print(run(5, "x"))
    type_check_table()
    direct_apply()
    return 0


if __name__ == "__main__":
    sys.exit(main())
